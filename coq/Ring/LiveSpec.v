(* Reachable states of the lock / condition model Ring/Live.v and the statements of C15.
   Thread 0 is the producer, thread 1 the consumer (the ring is single-producer /
   single-consumer: that is a hypothesis of the property), every further thread may call Close
   any number of times. *)
From Coq Require Import Relations.
From Base Require Import Tactics Bytes.
From Ring Require Import Live.
Open Scope Z_scope.

Fixpoint idle_pcs (n : nat) : list pc := match n with O => [] | S k => Idle :: idle_pcs k end.
Definition linit (size : Z) (nthreads : nat) : lstate :=
  mkL size 0 0 0 false None None [] [] (idle_pcs nthreads).

Definition start_of (o : opk) : pc :=
  match o with
  | OpRead pl => R_start pl | OpPeek n => K_start true n | OpWaitR n => K_start false n
  | OpCommitR n => M_start n
  | OpWrite n => W_start KWrite n | OpWriteWait n => W_start KWriteWait n | OpWriteCommit n => W_start KWriteCommit n
  | OpClose => X_start
  end.

(* which thread may start which call; arguments are non-negative *)
Definition role_ok (t : tid) (o : opk) : Prop :=
  match o with
  | OpWrite n | OpWriteWait n | OpWriteCommit n => t = 0%nat /\ 0 <= n
  | OpRead n | OpPeek n | OpWaitR n | OpCommitR n => t = 1%nat /\ 0 <= n
  | OpClose => (2 <= t)%nat
  end.

Inductive lmove : lstate -> lstate -> Prop :=
| mv_step s t s' lab : fstep s t = Some (s', lab) -> lmove s s'
| mv_call s t o : (t < length (l_pcs s))%nat -> get_pc s t = Idle -> role_ok t o -> lmove s (upd s t (start_of o))
| mv_ret s t r : get_pc s t = Returned r -> lmove s (upd s t Idle).

Definition reachable (size : Z) (nthreads : nat) (s : lstate) : Prop :=
  clos_refl_trans lstate lmove (linit size nthreads) s.

(* ---------- classification of program counters ---------- *)

(* between calls *)
Definition between_calls (p : pc) : bool := match p with Idle | Returned _ => true | _ => false end.

(* inside the critical section of pcond.L / ccond.L (acquired, not yet released or waiting) *)
Definition crit_p (p : pc) : bool :=
  match p with
  | CB_acq _ | CB_bcast _ | PW_load _ _ _ | PW_test _ _ _ _ | PW_done _ _ _ | PW_wait _ _ _
  | PW_unlock_ok _ _ _ _ | PW_unlock_eof | X_pbcast | X_punlock => true
  | _ => false
  end.
Definition crit_c (p : pc) : bool :=
  match p with
  | PB_acq _ | PB_bcast _ | CW_load _ _ _ | CW_test _ _ _ _ | CW_done _ _ _ | CW_wait _ _ _
  | CW_unlock_ok _ _ _ _ | CW_unlock_eof _ | X_cbcast | X_cunlock => true
  | _ => false
  end.

(* has changed a cursor or the done flag and has not yet broadcast the condition it must wake *)
Definition pending_c (p : pc) : bool :=
  match p with
  | W_store _ _ | PB_prelock _ | PB_acq _
  | X_plock | X_pacq | X_pbcast | X_punlock | X_clock | X_cacq | X_cbcast => true
  | _ => false
  end.
Definition pending_p (p : pc) : bool :=
  match p with
  | R_store _ _ | M_store _ _ | CB_prelock _ | CB_acq _
  | X_plock | X_pacq | X_pbcast => true
  | _ => false
  end.

Definition can_step (s : lstate) (t : tid) : Prop := exists s' lab, fstep s t = Some (s', lab).

(* the mutex a thread is waiting to acquire, if any *)
Definition wants_p (s : lstate) (p : pc) (t : tid) : bool :=
  match p with
  | CB_prelock _ | PW_prelock _ _ _ | X_pacq => true
  | PW_parked _ _ _ => mem_t t (l_psig s)
  | _ => false
  end.
Definition wants_c (s : lstate) (p : pc) (t : tid) : bool :=
  match p with
  | PB_prelock _ | CW_prelock _ _ _ | X_cacq => true
  | CW_parked _ _ _ => mem_t t (l_csig s)
  | _ => false
  end.

(* a parked thread that is rightly waiting: nobody broadcast to it since it parked, and the
   condition it waits for is false and the buffer is not closed *)
Definition legit_wait (s : lstate) (t : tid) : Prop :=
  match get_pc s t with
  | CW_parked k cpos tgt => mem_t t (l_csig s) = false /\ l_pseq s < tgt /\ l_done s = false
  | PW_parked k n ppos => mem_t t (l_psig s) = false /\ l_cseq s < ppos + n - l_size s /\ l_done s = false
  | _ => False
  end.

(* ---------- statements of C15 ---------- *)

(* no operation leaves a mutex locked: a mutex is held only by a thread inside the matching
   critical section - never by a thread that is between calls or parked *)
Definition C15_no_lock_leak : Prop := forall size n s t,
  0 < size -> reachable size n s ->
  (l_pmu s = Some t -> crit_p (get_pc s t) = true) /\
  (l_cmu s = Some t -> crit_c (get_pc s t) = true).

(* no lost wake-up: a thread parked on a condition whose wake condition holds (enough data /
   enough space / closed) has either been broadcast to, or some thread that changed the cursor or
   the done flag is still on its straight-line way to that broadcast *)
Definition C15_no_lost_wakeup : Prop := forall size n s t,
  0 < size -> reachable size n s ->
  match get_pc s t with
  | CW_parked k cpos tgt =>
      mem_t t (l_csig s) = false -> (tgt <= l_pseq s \/ l_done s = true) ->
      exists u, pending_c (get_pc s u) = true
  | PW_parked k m ppos =>
      mem_t t (l_psig s) = false -> (ppos + m - l_size s <= l_cseq s \/ l_done s = true) ->
      exists u, pending_p (get_pc s u) = true
  | _ => True
  end.

(* no deadlock, FIRST ATTEMPT - this statement is false of the model (ProofsLive.no_deadlock_refuted):
   it forgets the transient state in which a parked thread's condition already holds but the
   thread that made it true is still on its straight-line way to the broadcast.  The statement that
   is proved, with that case added, is ProofsLive.C15_no_deadlock_corrected (and its corollary
   ProofsLive.global_progress); Properties/C15.v closes those. *)
Definition C15_no_deadlock : Prop := forall size n s t,
  0 < size -> reachable size n s -> (t < length (l_pcs s))%nat ->
  between_calls (get_pc s t) = false ->
  can_step s t
  \/ (wants_p s (get_pc s t) t = true /\ exists u, l_pmu s = Some u /\ u <> t /\ can_step s u)
  \/ (wants_c s (get_pc s t) t = true /\ exists u, l_cmu s = Some u /\ u <> t /\ can_step s u)
  \/ legit_wait s t.

(* Close always unblocks: once the buffer is closed and every closer has finished its broadcasts,
   nobody is parked without having been broadcast to, and a wait loop that tests the flag leaves *)
Definition C15_close_unblocks : Prop := forall size n s,
  0 < size -> reachable size n s -> l_done s = true ->
  (forall u, pending_c (get_pc s u) = false) -> (forall u, pending_p (get_pc s u) = false) ->
  forall t, match get_pc s t with
            | CW_parked _ _ _ => mem_t t (l_csig s) = true
            | PW_parked _ _ _ => mem_t t (l_psig s) = true
            | _ => True
            end.
Definition C15_done_leaves_loop : Prop := forall s t,
  l_done s = true ->
  (forall k cpos tgt, get_pc s t = CW_done k cpos tgt ->
     exists s', fstep s t = Some (s', None) /\ get_pc s' t = CW_unlock_eof k) /\
  (forall k m ppos, get_pc s t = PW_done k m ppos ->
     exists s', fstep s t = Some (s', None) /\ get_pc s' t = PW_unlock_eof) /\
  (forall k m, get_pc s t = W_start k m -> exists s', fstep s t = Some (s', None) /\ get_pc s' t = Returned (1%N, 0)).
