(* C15: the statements of Ring/LiveSpec.v, from the global invariant of Ring/ProofsLiveInv.v.

   Proved as stated: C15_no_lock_leak, C15_no_lost_wakeup, C15_close_unblocks,
   C15_done_leaves_loop.

   C15_no_deadlock is FALSE as stated (no_deadlock_refuted below): a consumer parked without a
   signal while the producer has stored the cursor and is on its way to the broadcast is in none
   of the four listed situations - it is not "rightly waiting" any more and has not been woken
   yet.  The corrected statement (no_deadlock_corrected) adds exactly that fifth situation, and
   says that the pending thread itself makes progress. *)
From Coq Require Import Relations.
From Base Require Import Tactics Bytes.
From Ring Require Import Live LiveSpec ProofsLiveInv.
Open Scope Z_scope.

(* ---------- C15_no_lock_leak ---------- *)

Lemma no_lock_leak : C15_no_lock_leak.
Proof.
  intros size n s t _ Hr. apply reachable_inv in Hr. split; intros H.
  - apply (inv_pmu _ Hr); exact H.
  - apply (inv_cmu _ Hr); exact H.
Qed.

(* stronger, also from the invariant: mutual exclusion *)
Lemma crit_p_exclusive size n s t u :
  reachable size n s -> crit_p (get_pc s t) = true -> crit_p (get_pc s u) = true -> t = u.
Proof.
  intros Hr Ht Hu. apply reachable_inv in Hr.
  apply (inv_pmu _ Hr) in Ht. apply (inv_pmu _ Hr) in Hu. congruence.
Qed.

Lemma crit_c_exclusive size n s t u :
  reachable size n s -> crit_c (get_pc s t) = true -> crit_c (get_pc s u) = true -> t = u.
Proof.
  intros Hr Ht Hu. apply reachable_inv in Hr.
  apply (inv_cmu _ Hr) in Ht. apply (inv_cmu _ Hr) in Hu. congruence.
Qed.

(* ---------- C15_no_lost_wakeup ---------- *)

Lemma no_lost_wakeup : C15_no_lost_wakeup.
Proof.
  intros size n s t _ Hr. apply reachable_inv in Hr.
  pose proof (inv_cw _ Hr t) as Hc. pose proof (inv_pw _ Hr t) as Hp.
  destruct (get_pc s t) eqn:Hpc; try exact I; cbn [cw_at pw_at] in Hc, Hp.
  - intros Hm Hw. destruct (Hc Hm) as [[H1 H2]|H]; [|exact H].
    destruct Hw as [Hw|Hw]; [lia | congruence].
  - intros Hm Hw. destruct (Hp Hm) as [[H1 H2]|H]; [|exact H].
    destruct Hw as [Hw|Hw]; [lia | congruence].
Qed.

(* ---------- C15_close_unblocks ---------- *)

Lemma close_unblocks : C15_close_unblocks.
Proof.
  intros size n s _ Hr Hd Hnc Hnp t. apply reachable_inv in Hr.
  pose proof (inv_cw _ Hr t) as Hc. pose proof (inv_pw _ Hr t) as Hp.
  destruct (get_pc s t) eqn:Hpc; try exact I; cbn [cw_at pw_at] in Hc, Hp.
  - destruct (mem_t t (l_csig s)) eqn:Hm; auto.
    destruct (Hc eq_refl) as [[_ H]|[u H]]; [congruence | rewrite Hnc in H; discriminate].
  - destruct (mem_t t (l_psig s)) eqn:Hm; auto.
    destruct (Hp eq_refl) as [[_ H]|[u H]]; [congruence | rewrite Hnp in H; discriminate].
Qed.

(* ---------- C15_done_leaves_loop ---------- *)

Lemma done_leaves_loop : C15_done_leaves_loop.
Proof.
  intros s t Hd.
  repeat split; intros; unfold fstep;
    match goal with H : get_pc s t = _ |- _ =>
      assert (Hlt : (t < length (l_pcs s))%nat) by (apply get_pc_lt; congruence);
      rewrite H end;
    rewrite Hd; eexists; (split; [reflexivity | apply get_pc_upd_same; exact Hlt]).
Qed.

(* ---------- C15_no_deadlock: refuted as stated ---------- *)

Fixpoint steps (s : lstate) (l : list tid) : option lstate :=
  match l with
  | [] => Some s
  | t :: r => match fstep s t with Some (s', _) => steps s' r | None => None end
  end.

Lemma steps_reachable size n l : forall s s',
  reachable size n s -> steps s l = Some s' -> reachable size n s'.
Proof.
  induction l as [|t r IH]; intros s s' Hr H; cbn [steps] in H.
  - injection H as <-. exact Hr.
  - destruct (fstep s t) as [[s1 lab]|] eqn:E; try discriminate.
    apply (IH s1); auto. eapply rt_trans; [exact Hr|]. apply rt_step. eapply mv_step; eauto.
Qed.

Lemma call_reachable size n s t o :
  reachable size n s -> (t < length (l_pcs s))%nat -> get_pc s t = Idle -> role_ok t o ->
  reachable size n (upd s t (start_of o)).
Proof.
  intros Hr Hlt Hpc Hro. eapply rt_trans; [exact Hr|]. apply rt_step. apply mv_call; auto.
Qed.

(* the schedule: ring of size 8, producer = thread 0, consumer = thread 1.
   The consumer calls Read(1) on the empty ring and runs until it is parked in Cond.Wait
   (8 steps); then the producer calls Write(1) and runs until it has stored the cursor
   (6 steps: it is at W_store, before PB_prelock / PB_acq / the broadcast). *)
Definition cex1 : lstate := upd (linit 8 2) 1%nat (start_of (OpRead 1)).
Definition cex2 : lstate :=
  Eval vm_compute in
    match steps cex1 [1;1;1;1;1;1;1;1]%nat with Some s => s | None => cex1 end.
Definition cex3 : lstate := upd cex2 0%nat (start_of (OpWrite 1)).
Definition cex : lstate :=
  Eval vm_compute in
    match steps cex3 [0;0;0;0;0;0]%nat with Some s => s | None => cex3 end.

Lemma cex_reachable : reachable 8 2 cex.
Proof.
  assert (H1 : reachable 8 2 cex1).
  { apply call_reachable; [apply rt_refl | cbn; lia | reflexivity | cbn; lia]. }
  assert (H2 : reachable 8 2 cex2).
  { apply (steps_reachable 8 2 [1;1;1;1;1;1;1;1]%nat cex1); [exact H1 | vm_compute; reflexivity]. }
  assert (H3 : reachable 8 2 cex3).
  { apply call_reachable; [exact H2 | cbn; lia | reflexivity | cbn; lia]. }
  apply (steps_reachable 8 2 [0;0;0;0;0;0]%nat cex3); [exact H3 | vm_compute; reflexivity].
Qed.

(* the state: pseq = 1, consumer parked for tgt = 1 and not signalled, producer at W_store *)
Lemma cex_shape :
  l_pseq cex = 1 /\ l_done cex = false /\ l_csig cex = [] /\ l_cmu cex = None /\ l_pmu cex = None /\
  get_pc cex 1%nat = CW_parked (KRead 1) 0 1 /\ get_pc cex 0%nat = W_store 1 0.
Proof. vm_compute. repeat split; reflexivity. Qed.

Lemma no_deadlock_refuted : ~ C15_no_deadlock.
Proof.
  intros H. specialize (H 8 2%nat cex 1%nat ltac:(lia) cex_reachable ltac:(cbn; lia) eq_refl).
  destruct H as [(s' & lab & H)|[[H _]|[[H _]|H]]].
  - vm_compute in H. discriminate.
  - vm_compute in H. discriminate.
  - vm_compute in H. discriminate.
  - unfold legit_wait in H. destruct cex_shape as (Hp & _ & _ & _ & _ & Hpc & _).
    rewrite Hpc, Hp in H. lia.
Qed.

(* ---------- C15_no_deadlock: corrected ---------- *)

(* thread u is not stuck: it can step, or it waits for a mutex whose holder can step *)
Definition progress (s : lstate) (u : tid) : Prop :=
  can_step s u
  \/ (wants_p s (get_pc s u) u = true /\ exists v, l_pmu s = Some v /\ v <> u /\ can_step s v)
  \/ (wants_c s (get_pc s u) u = true /\ exists v, l_cmu s = Some v /\ v <> u /\ can_step s v).

(* a parked thread whose wake condition may already hold but which has not been broadcast to
   yet: the thread that changed the cursor / the flag is still on its way to the broadcast, and
   that thread is not stuck *)
Definition awaits_broadcast (s : lstate) (t : tid) : Prop :=
  match get_pc s t with
  | CW_parked _ _ _ =>
      mem_t t (l_csig s) = false /\
      exists u, u <> t /\ pending_c (get_pc s u) = true /\ progress s u
  | PW_parked _ _ _ =>
      mem_t t (l_psig s) = false /\
      exists u, u <> t /\ pending_p (get_pc s u) = true /\ progress s u
  | _ => False
  end.

(* What changed with respect to C15_no_deadlock: one more disjunct, awaits_broadcast s t.
   (The first three disjuncts are those of C15_no_deadlock, folded into progress s t.) *)
Definition C15_no_deadlock_corrected : Prop := forall size n s t,
  0 < size -> reachable size n s -> (t < length (l_pcs s))%nat ->
  between_calls (get_pc s t) = false ->
  progress s t \/ legit_wait s t \/ awaits_broadcast s t.

Ltac solve_can_step Hpc :=
  unfold can_step, fstep, go_park_c, go_park_p; rewrite Hpc;
  repeat match goal with
         | |- context [if ?c then _ else _] => destruct c
         | |- context [match ?k with KRead _ => _ | _ => _ end] => destruct k
         | |- context [match ?k with KWrite => _ | _ => _ end] => destruct k
         end;
  do 2 eexists; reflexivity.

(* the holder of a mutex can always step *)
Lemma crit_p_can_step s u : crit_p (get_pc s u) = true -> can_step s u.
Proof.
  intros H. destruct (get_pc s u) eqn:Hpc; cbn in H; try discriminate H; solve_can_step Hpc.
Qed.

Lemma crit_c_can_step s u : crit_c (get_pc s u) = true -> can_step s u.
Proof.
  intros H. destruct (get_pc s u) eqn:Hpc; cbn in H; try discriminate H; solve_can_step Hpc.
Qed.

(* a thread that needs pcond.L / ccond.L: the mutex is free, or its holder can step *)
Lemma pmu_free_or_held s t :
  Inv s -> crit_p (get_pc s t) = false ->
  l_pmu s = None \/ exists v, l_pmu s = Some v /\ v <> t /\ can_step s v.
Proof.
  intros HI Hc. destruct (l_pmu s) as [v|] eqn:E; [right|left; reflexivity].
  exists v. apply (inv_pmu _ HI) in E. repeat split; auto.
  - intros ->. congruence.
  - apply crit_p_can_step; auto.
Qed.

Lemma cmu_free_or_held s t :
  Inv s -> crit_c (get_pc s t) = false ->
  l_cmu s = None \/ exists v, l_cmu s = Some v /\ v <> t /\ can_step s v.
Proof.
  intros HI Hc. destruct (l_cmu s) as [v|] eqn:E; [right|left; reflexivity].
  exists v. apply (inv_cmu _ HI) in E. repeat split; auto.
  - intros ->. congruence.
  - apply crit_c_can_step; auto.
Qed.

Ltac need_mutex HI Hpc lem :=
  let Hf := fresh "Hf" in let Hh := fresh "Hh" in
  match goal with |- progress ?s ?t \/ _ =>
    destruct (lem s t HI ltac:(rewrite Hpc; reflexivity)) as [Hf|Hh];
    [ left; left; unfold can_step, fstep; rewrite Hpc, ?Hf; cbn [is_free andb];
      try match goal with H : mem_t _ _ = true |- _ => rewrite H end; cbn [is_free andb];
      do 2 eexists; reflexivity
    | left; first [ right; left; split; [rewrite Hpc; cbn [wants_p]; first [reflexivity|assumption] | exact Hh]
                  | right; right; split; [rewrite Hpc; cbn [wants_c]; first [reflexivity|assumption] | exact Hh] ] ]
  end.

(* every thread inside a call makes progress, unless it is parked and not signalled *)
Lemma progress_or_parked s t :
  Inv s -> between_calls (get_pc s t) = false ->
  progress s t
  \/ (parked_c (get_pc s t) = true /\ mem_t t (l_csig s) = false)
  \/ (parked_p (get_pc s t) = true /\ mem_t t (l_psig s) = false).
Proof.
  intros HI Hb.
  destruct (get_pc s t) eqn:Hpc; cbn in Hb; try discriminate Hb; clear Hb.
  (* the pcs that need a mutex *)
  all: try match type of Hpc with
           | _ = CB_prelock _ => need_mutex HI Hpc pmu_free_or_held
           | _ = PW_prelock _ _ _ => need_mutex HI Hpc pmu_free_or_held
           | _ = X_pacq => need_mutex HI Hpc pmu_free_or_held
           | _ = PB_prelock _ => need_mutex HI Hpc cmu_free_or_held
           | _ = CW_prelock _ _ _ => need_mutex HI Hpc cmu_free_or_held
           | _ = X_cacq => need_mutex HI Hpc cmu_free_or_held
           end.
  (* parked *)
  all: try match type of Hpc with
           | _ = CW_parked _ _ _ =>
               destruct (mem_t t (l_csig s)) eqn:Hm;
               [ need_mutex HI Hpc cmu_free_or_held | right; left; split; reflexivity ]
           | _ = PW_parked _ _ _ =>
               destruct (mem_t t (l_psig s)) eqn:Hm;
               [ need_mutex HI Hpc pmu_free_or_held | right; right; split; reflexivity ]
           end.
  (* all the others step unconditionally *)
  all: left; left; solve_can_step Hpc.
Qed.

Lemma pending_progress s u :
  Inv s -> pending_c (get_pc s u) = true \/ pending_p (get_pc s u) = true -> progress s u.
Proof.
  intros HI Hp.
  destruct (progress_or_parked s u HI) as [H|[[H _]|[H _]]]; auto;
    destruct (get_pc s u); cbn in *; destruct Hp; congruence.
Qed.

Lemma no_deadlock_corrected : C15_no_deadlock_corrected.
Proof.
  intros size n s t _ Hr Hlt Hb. apply reachable_inv in Hr.
  destruct (progress_or_parked s t Hr Hb) as [H|[[Hpk Hm]|[Hpk Hm]]]; [left; exact H| |].
  - pose proof (inv_cw _ Hr t) as Hc. unfold legit_wait, awaits_broadcast.
    destruct (get_pc s t) eqn:Hpc; cbn in Hpk; try discriminate Hpk. cbn [cw_at] in Hc.
    destruct (Hc Hm) as [[H1 H2]|[u Hu]]; [right; left; auto|].
    right; right. split; [exact Hm|]. exists u. repeat split; auto.
    + intros ->. rewrite Hpc in Hu. discriminate.
    + apply pending_progress; auto.
  - pose proof (inv_pw _ Hr t) as Hc. unfold legit_wait, awaits_broadcast.
    destruct (get_pc s t) eqn:Hpc; cbn in Hpk; try discriminate Hpk. cbn [pw_at] in Hc.
    destruct (Hc Hm) as [[H1 H2]|[u Hu]]; [right; left; auto|].
    right; right. split; [exact Hm|]. exists u. repeat split; auto.
    + intros ->. rewrite Hpc in Hu. discriminate.
    + apply pending_progress; auto.
Qed.

(* consequence: the system as a whole is never stuck - in a reachable state, every thread that
   is inside a call is rightly waiting for data / space, or some thread can take a step *)
Lemma global_progress size n s t :
  0 < size -> reachable size n s ->
  (t < length (l_pcs s))%nat -> between_calls (get_pc s t) = false ->
  legit_wait s t \/ exists u, can_step s u.
Proof.
  intros Hsz Hr Hlt Hb.
  assert (Hprog : forall u, progress s u -> exists v, can_step s v).
  { intros u [H|[[_ (v & _ & _ & H)]|[_ (v & _ & _ & H)]]]; eauto. }
  destruct (no_deadlock_corrected size n s t Hsz Hr Hlt Hb) as [Hp|[Hl|Ha]];
    [right; apply Hprog with t; exact Hp | left; exact Hl |].
  right. unfold awaits_broadcast in Ha.
  destruct (get_pc s t); try contradiction; destruct Ha as [_ (u & _ & _ & Hu)]; apply Hprog with u; auto.
Qed.

Print Assumptions no_lock_leak.
Print Assumptions no_lost_wakeup.
Print Assumptions close_unblocks.
Print Assumptions done_leaves_loop.
Print Assumptions no_deadlock_refuted.
Print Assumptions no_deadlock_corrected.
Print Assumptions global_progress.
