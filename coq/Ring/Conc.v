(* Byte-granular two-thread model of the ring of service/buffer.go: one producer and one consumer,
   every load or store of a cursor and every single byte copied into or out of the ring is one
   atomic step, so every interleaving at that granularity is covered (property C14).  Blocking is
   abstracted here: a call that has to wait simply cannot move until the other thread has made the
   condition true (the lock / condition protocol that implements waiting is Ring/Live.v, C15).
   Ghost state: [stream] = all bytes the producer committed, [consumed] = all bytes the consumer
   obtained. *)
From Coq Require Import Relations.
From Base Require Import Tactics Bytes.
Open Scope Z_scope.

Definition nth_b (b : list N) (i : Z) : N := nth (Z.to_nat i) b 0%N.
Fixpoint set_b (l : list N) (i : nat) (v : N) : list N :=
  match l, i with
  | [], _ => []
  | _ :: r, O => v :: r
  | x :: r, S j => x :: set_b r j v
  end.

(* which waitForWriteSpace call: Write's; WriteWait's (reserving r >= len p bytes, of which p is then
   filled in); WriteCommit's (the same call once more, after the bytes are in place) *)
Inductive pmode := MWrite | MReserve (r : Z) | MCommit2.

(* producer program counter *)
Inductive ppc :=
| P_idle
| P_wfs (m : pmode) (p : list N)                    (* own cursor and cached gate examined *)
| P_wfs_load (m : pmode) (p : list N) (ppos : Z)    (* has to look at the consumer cursor *)
| P_copy (commit2 : bool) (p : list N) (ppos : Z) (k : nat)   (* bytes 0..k-1 of p are in the ring *)
| P_store (p : list N) (ppos : Z).

(* what the consumer got from a peek and still looks at *)
Inductive view :=
| NoView
| Window (cpos : Z) (m : nat)                       (* a slice of the ring itself *)
| Tmp (cpos : Z) (bytes : list N).                  (* a copy in the tmp buffer (wrapped data) *)

Inductive cpc :=
| C_idle
| C_read (pl : Z) | C_read_loaded (pl cpos : Z) | C_read_copy (cpos : Z) (n k : nat) (out : list N)
| C_read_store (cpos : Z) (out : list N)
| C_peek (wait : bool) (n : Z) | C_peek_loaded (wait : bool) (n cpos : Z)
| C_peek_tmp (cpos : Z) (m k : nat) (acc : list N)
| C_commit (n : Z) | C_commit_loaded (n cpos : Z).

Record cstate := mkC {
  c_size : Z;
  c_buf : list N;
  c_pseq : Z; c_cseq : Z; c_gate : Z;
  c_ppc : ppc; c_cpc : cpc;
  c_view : view;
  c_stream : list N;       (* ghost: everything committed, in order *)
  c_consumed : list N      (* ghost: everything obtained, in order *)
}.

Fixpoint zeros (n : nat) : list N := match n with O => [] | S k => 0%N :: zeros k end.
Definition cinit (size : Z) : cstate :=
  mkC size (zeros (Z.to_nat size)) 0 0 0 P_idle C_idle NoView [] [].

Definition wp (s : cstate) (p : ppc) := mkC (c_size s) (c_buf s) (c_pseq s) (c_cseq s) (c_gate s) p (c_cpc s) (c_view s) (c_stream s) (c_consumed s).
Definition wc (s : cstate) (p : cpc) := mkC (c_size s) (c_buf s) (c_pseq s) (c_cseq s) (c_gate s) (c_ppc s) p (c_view s) (c_stream s) (c_consumed s).

Fixpoint ring_get (sz : Z) (b : list N) (pos : Z) (m : nat) : list N :=
  match m with
  | O => []
  | S k => nth_b b (pos mod sz) :: ring_get sz b (pos + 1) k
  end.

(* Read's copy count *)
Definition read_count (size pl cpos ppos : Z) : Z :=
  let cindex := cpos mod size in
  if cpos + pl <? ppos then Z.min pl (size - cindex)
  else let b := ppos - cpos in
       if cindex + b <? size then Z.min pl b else Z.min pl (size - cindex).

(* ---------- producer steps ---------- *)
Definition want (m : pmode) (p : list N) : Z :=
  match m with MReserve r => r | _ => Z.of_nat (length p) end.
Definition after_wfs (m : pmode) (p : list N) (ppos : Z) : ppc :=
  match m with MWrite => P_copy false p ppos 0 | MReserve _ => P_copy true p ppos 0 | MCommit2 => P_store p ppos end.
Definition pstep (s : cstate) : option cstate :=
  match c_ppc s with
  | P_idle => None
  | P_wfs m p =>
      let ppos := c_pseq s in
      let wrap := ppos + want m p - c_size s in
      if (c_gate s <? wrap) || (ppos <? c_gate s) then Some (wp s (P_wfs_load m p ppos))
      else Some (wp s (after_wfs m p ppos))
  | P_wfs_load m p ppos =>
      let cpos := c_cseq s in                              (* the load of the consumer cursor *)
      let wrap := ppos + want m p - c_size s in
      if cpos <? wrap then None                            (* not enough space: wait *)
      else
        let s1 := mkC (c_size s) (c_buf s) (c_pseq s) (c_cseq s) cpos (c_ppc s) (c_cpc s) (c_view s) (c_stream s) (c_consumed s) in
        Some (wp s1 (after_wfs m p ppos))
  | P_copy c2 p ppos k =>
      match nth_error p k with
      | Some x =>                                          (* one byte into the ring *)
          Some (mkC (c_size s) (set_b (c_buf s) (Z.to_nat ((ppos + Z.of_nat k) mod c_size s)) x)
                    (c_pseq s) (c_cseq s) (c_gate s) (P_copy c2 p ppos (S k)) (c_cpc s) (c_view s) (c_stream s) (c_consumed s))
      | None => if c2 then Some (wp s (P_wfs MCommit2 p)) else Some (wp s (P_store p ppos))
      end
  | P_store p ppos =>                                      (* the store of the producer cursor *)
      Some (mkC (c_size s) (c_buf s) (ppos + Z.of_nat (length p)) (c_cseq s) (c_gate s) P_idle (c_cpc s) (c_view s)
                (c_stream s ++ p) (c_consumed s))
  end.

(* ---------- consumer steps ---------- *)
Definition cstep (s : cstate) : option cstate :=
  match c_cpc s with
  | C_idle => None
  | C_read pl => Some (wc s (C_read_loaded pl (c_cseq s)))
  | C_read_loaded pl cpos =>
      let ppos := c_pseq s in                              (* the load of the producer cursor *)
      if cpos <? ppos then Some (wc s (C_read_copy cpos (Z.to_nat (read_count (c_size s) pl cpos ppos)) 0 []))
      else None                                            (* no data: wait *)
  | C_read_copy cpos n k out =>
      if (k <? n)%nat then                                 (* one byte out of the ring *)
        Some (wc s (C_read_copy cpos n (S k) (out ++ [nth_b (c_buf s) ((cpos + Z.of_nat k) mod c_size s)])))
      else Some (wc s (C_read_store cpos out))
  | C_read_store cpos out =>                               (* the store of the consumer cursor *)
      Some (mkC (c_size s) (c_buf s) (c_pseq s) (cpos + Z.of_nat (length out)) (c_gate s) (c_ppc s) C_idle NoView
                (c_stream s) (c_consumed s ++ out))
  | C_peek w n => Some (wc s (C_peek_loaded w n (c_cseq s)))
  | C_peek_loaded w n cpos =>
      let ppos := c_pseq s in
      let enough := if w then cpos + n <=? ppos else cpos <? ppos in
      if negb enough then None else
      let m := Z.to_nat (if w then n else Z.min n (ppos - cpos)) in
      if c_size s <? cpos mod c_size s + Z.of_nat m
      then Some (wc s (C_peek_tmp cpos m 0 []))
      else Some (mkC (c_size s) (c_buf s) (c_pseq s) (c_cseq s) (c_gate s) (c_ppc s) C_idle (Window cpos m)
                     (c_stream s) (c_consumed s))
  | C_peek_tmp cpos m k acc =>
      if (k <? m)%nat then
        Some (wc s (C_peek_tmp cpos m (S k) (acc ++ [nth_b (c_buf s) ((cpos + Z.of_nat k) mod c_size s)])))
      else Some (mkC (c_size s) (c_buf s) (c_pseq s) (c_cseq s) (c_gate s) (c_ppc s) C_idle (Tmp cpos acc)
                     (c_stream s) (c_consumed s))
  | C_commit n => Some (wc s (C_commit_loaded n (c_cseq s)))
  | C_commit_loaded n cpos =>
      let ppos := c_pseq s in
      if cpos + n <=? ppos then
        (* what the consumer obtained: the bytes it peeked, i.e. the ring's bytes at cpos.. *)
        Some (mkC (c_size s) (c_buf s) (c_pseq s) (cpos + n) (c_gate s) (c_ppc s) C_idle NoView
                  (c_stream s) (c_consumed s ++ ring_get (c_size s) (c_buf s) cpos (Z.to_nat n)))
      else Some (mkC (c_size s) (c_buf s) (c_pseq s) (c_cseq s) (c_gate s) (c_ppc s) C_idle (c_view s)
                     (c_stream s) (c_consumed s))           (* ErrBufferInsufficientData *)
  end.

(* ---------- moves: a step of either thread, or an idle thread starting a call ---------- *)
Inductive pcall := PWrite (p : list N) | PReserveFillCommit (r : Z) (p : list N).
Inductive ccall := CRead (pl : Z) | CPeek (n : Z) | CWait (n : Z) | CCommit (n : Z).

Inductive cmove : cstate -> cstate -> Prop :=
| cm_p s s' : pstep s = Some s' -> cmove s s'
| cm_c s s' : cstep s = Some s' -> cmove s s'
| cm_pcall s c : c_ppc s = P_idle ->
    (match c with PWrite _ => True | PReserveFillCommit r p => Z.of_nat (length p) <= r end) ->
    cmove s (wp s (match c with PWrite p => P_wfs MWrite p | PReserveFillCommit r p => P_wfs (MReserve r) p end))
| cm_ccall s c : c_cpc s = C_idle ->
    (match c with CRead pl => 1 <= pl | CPeek n => 0 <= n <= c_size s | CWait n => 0 <= n <= c_size s | CCommit n => 0 <= n <= c_size s end) ->
    cmove s (wc s (match c with CRead pl => C_read pl | CPeek n => C_peek false n | CWait n => C_peek true n | CCommit n => C_commit n end)).

Definition creachable (size : Z) (s : cstate) : Prop := clos_refl_trans cstate cmove (cinit size) s.
