(* The sequential model Ring/Seq.v is a lossless FIFO over every history of complete calls: statement.
   (Ring/Conc.v states the same of every interleaving of the two threads' atomic steps; this file is about the
   operations of Seq.v themselves, which Trans/EquivRing.v proves equal to the translated methods of
   service/buffer.go - so the chain source -> model -> property is closed by proof for the sequential reading.)
   Histories: Write, the writeMessage path (reserve, fill, commit - or Write when the window wraps), a round of
   ReadFrom (reserve a block, fill part of the window, commit that part), Read, ReadPeek, ReadWait, ReadCommit,
   Close and the state query, in any order and with any arguments; the raw reserve / fill / commit calls are covered
   through these two producer paths only (a client that fills without a reservation can of course overwrite the
   ring). *)
From Base Require Import Tactics Bytes.
From Ring Require Import Seq ConcSpec.
Open Scope Z_scope.

(* ghost state: everything committed so far, everything the consumer obtained so far *)
Record gst := mkG { g_ring : ring; g_stream : list N; g_consumed : list N }.

Definition ginit (sz : Z) : gst := mkG (ring_new sz) [] [].

(* one round of ReadFrom: reserve a block of blk bytes, let the reader put as many bytes of p as the window takes, commit
   exactly those - a composite of the model's own operations (WriteWait, the fill, WriteCommit) *)
Definition r_read_from_round (r : ring) (blk : Z) (p : list N) : ring * rres (list N) :=
  match r_write_wait r blk with
  | (r1, ROk (_, l, _)) =>
      let p' := firstn (Z.to_nat l) p in
      match r_write_commit (r_fill r1 p') (Z.of_nat (length p')) with
      | (r2, ROk _) => (r2, ROk p')
      | (r2, REof) => (r2, REof)
      | (r2, _) => (r2, RBlock)
      end
  | (r1, REof) => (r1, REof)
  | (r1, _) => (r1, RBlock)
  end.

Definition allowed (op : list N) : bool :=
  match op with
  | 1%N :: _ | [5%N; _] | [6%N; _] | [7%N; _] | [8%N; _] | [9%N] | [10%N] | 11%N :: _ | 12%N :: _ :: _ => true
  | _ => false
  end.

(* one call: the new ghost state and what the call showed the consumer (bytes peeked or read) *)
Definition gstep (g : gst) (op : list N) : gst * option (list N) :=
  let r := g_ring g in
  match op with
  | 1%N :: p => match r_write r p with
                | (r', ROk _) => (mkG r' (g_stream g ++ p) (g_consumed g), None)
                | (r', _) => (mkG r' (g_stream g) (g_consumed g), None)
                end
  | 11%N :: p => match r_write_message r p with
                 | (r', ROk _) => (mkG r' (g_stream g ++ p) (g_consumed g), None)
                 | (r', _) => (mkG r' (g_stream g) (g_consumed g), None)
                 end
  | 12%N :: blk :: p => match r_read_from_round r (Z.of_N blk) p with
                        | (r', ROk p') => (mkG r' (g_stream g ++ p') (g_consumed g), None)
                        | (r', _) => (mkG r' (g_stream g) (g_consumed g), None)
                        end
  | [5%N; n] => match r_read r (Z.of_N n) with
                | (r', ROk l) => (mkG r' (g_stream g) (g_consumed g ++ l), Some l)
                | (r', _) => (mkG r' (g_stream g) (g_consumed g), None)
                end
  | [6%N; n] => match r_read_peek r (Z.of_N n) with
                | ROk (l, _) => (g, Some l)
                | _ => (g, None)
                end
  | [7%N; n] => match r_read_wait r (Z.of_N n) with
                | ROk l => (g, Some l)
                | _ => (g, None)
                end
  | [8%N; n] => match r_read_commit r (Z.of_N n) with
                | (r', ROk k) => (mkG r' (g_stream g) (g_consumed g ++ ring_get (size r) (buf r) (cseq r) (Z.to_nat k)), None)
                | (r', _) => (mkG r' (g_stream g) (g_consumed g), None)
                end
  | _ => (mkG (fst (r_step r op)) (g_stream g) (g_consumed g), None)
  end.

(* the ghost run follows the model run: same ring states (for the operations the model's script interpreter knows; the
   ReadFrom round is defined from them above) *)
Definition gstep_ring : Prop := forall g op, allowed op = true -> (forall blk p, op <> 12%N :: blk :: p) ->
  g_ring (fst (gstep g op)) = fst (r_step (g_ring g) op).

Fixpoint grun (g : gst) (ops : list (list N)) : gst :=
  match ops with
  | [] => g
  | op :: rest => grun (fst (gstep g op)) rest
  end.

(* after every history: what was obtained is a prefix of what was committed, the cursors count both, at most size
   bytes are in flight, and every committed, not yet consumed position of the ring holds its byte *)
Definition seq_fifo : Prop := forall sz ops, 0 < sz -> forallb allowed ops = true ->
  let g := grun (ginit sz) ops in
  g_consumed g = firstn (length (g_consumed g)) (g_stream g)
  /\ Z.of_nat (length (g_consumed g)) = cseq (g_ring g)
  /\ Z.of_nat (length (g_stream g)) = pseq (g_ring g)
  /\ cseq (g_ring g) <= pseq (g_ring g) <= cseq (g_ring g) + sz
  /\ forall i, cseq (g_ring g) <= i < pseq (g_ring g) ->
       nth (Z.to_nat (i mod sz)) (buf (g_ring g)) 0%N = nth (Z.to_nat i) (g_stream g) 0%N.

(* and every call that shows the consumer bytes (Read, ReadPeek, ReadWait) shows exactly the next committed bytes *)
Definition seq_shows_next : Prop := forall sz ops op l, 0 < sz -> forallb allowed ops = true -> allowed op = true ->
  let g := grun (ginit sz) ops in
  snd (gstep g op) = Some l ->
  l = slice (g_stream g) (cseq (g_ring g)) (length l).
