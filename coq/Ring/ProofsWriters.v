(* C17: the second half of the statements of Ring/Writers.v.
   - one_at_a_time       : Writers.C17_one_at_a_time, as stated (no correction needed);
   - holder_unique       : the thread recorded in w_mu is the only one in state W_holding (mutual exclusion);
   - log_is_holders_packets : the ghost log grows only by the packet of the current mutex holder;
   - pcs_provenance      : a thread's W_holding p comes from its own W_want p, and W_want p from a call
                           (wm_call) of that thread, so a logged packet is one handed to writeMessage. *)
From Coq Require Import Relations.
From Base Require Import Tactics Bytes.
From Ring Require Import Conc Writers.
Open Scope Z_scope.

(* ---------- set_w / get_w ---------- *)
Lemma set_w_length l : forall t p, length (set_w l t p) = length l.
Proof. induction l as [|x r IH]; intros [|j] p; cbn; auto. Qed.

Lemma nth_set_w_same l : forall t p d, (t < length l)%nat -> nth t (set_w l t p) d = p.
Proof.
  induction l as [|x r IH]; intros [|j] p d H; cbn in *; try lia; auto.
  apply IH; lia.
Qed.

Lemma nth_set_w_other l : forall t u p d, t <> u -> nth u (set_w l t p) d = nth u l d.
Proof.
  induction l as [|x r IH]; intros [|t] [|u] p d H; cbn; auto; try congruence;
  try (apply IH; congruence).
Qed.

(* a thread whose pc is not the default W_idle is inside the list *)
Lemma get_w_in_range s t : get_w s t <> W_idle -> (t < length (w_pcs s))%nat.
Proof.
  unfold get_w. intros H. destruct (le_lt_dec (length (w_pcs s)) t) as [Hge|Hlt]; [|exact Hlt].
  exfalso. apply H. apply nth_overflow. exact Hge.
Qed.

(* ---------- the packet inside a producer pc ---------- *)
Definition pkt (c : ppc) : option (list N) :=
  match c with
  | P_idle => None
  | P_wfs _ q | P_wfs_load _ q _ | P_copy _ q _ _ | P_store q _ => Some q
  end.

Definition pc_for (c : ppc) (p : list N) : Prop :=
  match c with
  | P_idle => True
  | P_wfs _ q | P_wfs_load _ q _ | P_copy _ q _ _ | P_store q _ => q = p
  end.

Lemma pc_for_pkt c p : pc_for c p <-> (forall q, pkt c = Some q -> q = p).
Proof.
  destruct c; cbn; split; intros H; try exact I; try (intros q E; inv E; reflexivity);
    try discriminate; try (apply H; reflexivity).
Qed.

Lemma pkt_after_wfs m p ppos : pkt (after_wfs m p ppos) = Some p.
Proof. destruct m; reflexivity. Qed.

(* a producer step keeps the packet of the call, or finishes the call *)
Lemma pstep_pkt r r' : pstep r = Some r' ->
  pkt (c_ppc r') = None \/ pkt (c_ppc r') = pkt (c_ppc r).
Proof.
  unfold pstep. intros H.
  destruct (c_ppc r) as [|m p|m p ppos|c2 p ppos k|p ppos] eqn:E; try discriminate.
  - destruct ((c_gate r <? c_pseq r + want m p - c_size r) || (c_pseq r <? c_gate r)); inv H;
      cbn [wp c_ppc]; right; [reflexivity|apply pkt_after_wfs].
  - destruct (c_cseq r <? ppos + want m p - c_size r); [discriminate|]. inv H.
    cbn [wp c_ppc]. right. apply pkt_after_wfs.
  - destruct (nth_error p k); [inv H; right; reflexivity|]. destruct c2; inv H; right; reflexivity.
  - inv H. left. reflexivity.
Qed.

Lemma pstep_pc_for r r' p : pstep r = Some r' -> pc_for (c_ppc r) p -> pc_for (c_ppc r') p.
Proof.
  intros H Hp. apply pc_for_pkt. intros q E.
  destruct (pstep_pkt _ _ H) as [E1|E1]; rewrite E1 in E; [discriminate|].
  apply (proj1 (pc_for_pkt _ _) Hp). exact E.
Qed.

Lemma pkt_call_for r p : pkt (call_for r p) = Some p.
Proof. unfold call_for. destruct (c_size r <? c_pseq r mod c_size r + Z.of_nat (length p)); reflexivity. Qed.

Lemma pc_for_call_for r p : pc_for (call_for r p) p.
Proof. apply pc_for_pkt. intros q E. rewrite pkt_call_for in E. inv E. reflexivity. Qed.

(* ---------- C17_one_at_a_time: the statement is its own inductive invariant ---------- *)
Definition one_inv (s : wstate) : Prop :=
  (w_started s = true -> exists t p, w_mu s = Some t /\ get_w s t = W_holding p /\
      pc_for (c_ppc (w_ring s)) p)
  /\ (w_started s = false -> c_ppc (w_ring s) = P_idle).

Lemma one_inv_init size n : one_inv (winit size n).
Proof. split; cbn; [discriminate|reflexivity]. Qed.

Lemma one_inv_step s s' : one_inv s -> wmove s s' -> one_inv s'.
Proof.
  intros [Ht Hf] Hm.
  destruct Hm as [s t p Hg Hlt | s t p Hg Hmu | s t p Hg Hmu Hst Hpc | s t p r' Hg Hmu Hst Hps
                 | s t p Hg Hmu Hst Hpc | s r' Hc | s c Hc];
    split; cbn [w_ring w_mu w_pcs w_started w_log]; intros Hs.
  - (* call, started *)
    destruct (Ht Hs) as (t0 & p0 & Hmu0 & Hg0 & Hp0). exists t0, p0.
    split; [exact Hmu0|]. split; [|exact Hp0].
    unfold get_w in *. cbn [w_pcs]. rewrite nth_set_w_other; [exact Hg0|].
    intros ->. rewrite Hg in Hg0. discriminate.
  - (* call, not started *) exact (Hf Hs).
  - (* lock, started *) discriminate.
  - (* lock, not started: the mutex was free, so no producer call was in progress *)
    destruct (w_started s) eqn:Est; [|apply Hf; reflexivity].
    destruct (Ht eq_refl) as (t0 & p0 & Hmu0 & _). rewrite Hmu in Hmu0. discriminate.
  - (* start, started *)
    exists t, p. split; [exact Hmu|]. split; [exact Hg|]. cbn [wp c_ppc]. apply pc_for_call_for.
  - discriminate.
  - (* producer step *)
    destruct (Ht Hst) as (t0 & p0 & Hmu0 & Hg0 & Hp0). exists t0, p0.
    split; [exact Hmu0|]. split; [exact Hg0|]. exact (pstep_pc_for _ _ _ Hps Hp0).
  - discriminate.
  - discriminate.
  - (* unlock *) exact Hpc.
  - (* sender step, started *)
    destruct (cstep_stream _ _ Hc) as [_ Hpp]. rewrite Hpp. exact (Ht Hs).
  - destruct (cstep_stream _ _ Hc) as [_ Hpp]. rewrite Hpp. exact (Hf Hs).
  - (* sender call *) exact (Ht Hs).
  - exact (Hf Hs).
Qed.

Lemma one_inv_reachable size n s : wreachable size n s -> one_inv s.
Proof.
  unfold wreachable. intros H. apply clos_rt_rtn1 in H.
  induction H as [|s1 s2 Hm _ IH]; [apply one_inv_init|].
  exact (one_inv_step _ _ IH Hm).
Qed.

Lemma one_at_a_time : C17_one_at_a_time.
Proof.
  unfold C17_one_at_a_time. intros size n s H. exact (one_inv_reachable size n s H).
Qed.

(* ---------- mutual exclusion: the holder is the unique thread in W_holding ---------- *)
Definition C17_holder_unique : Prop := forall size n s,
  wreachable size n s ->
  length (w_pcs s) = n
  /\ (forall t, w_mu s = Some t -> exists p, get_w s t = W_holding p)
  /\ (forall t p, get_w s t = W_holding p -> w_mu s = Some t).

Definition mu_inv (s : wstate) : Prop :=
  (forall t, w_mu s = Some t -> exists p, get_w s t = W_holding p)
  /\ (forall t p, get_w s t = W_holding p -> w_mu s = Some t).

Lemma get_w_repeat_idle n t : nth t (repeat W_idle n) W_idle = W_idle.
Proof. revert t. induction n as [|n IH]; intros [|t]; cbn; auto. Qed.

Lemma mu_inv_step s s' : mu_inv s -> wmove s s' -> mu_inv s' /\ length (w_pcs s') = length (w_pcs s).
Proof.
  intros [Hh Hu] Hm.
  destruct Hm as [s t p Hg Hlt | s t p Hg Hmu | s t p Hg Hmu Hst Hpc | s t p r' Hg Hmu Hst Hps
                 | s t p Hg Hmu Hst Hpc | s r' Hc | s c Hc];
    (split; [split|]); unfold get_w in *; cbn [w_ring w_mu w_pcs w_started w_log];
    try rewrite set_w_length; try reflexivity; try exact Hh; try exact Hu.
  - (* call *)
    intros t0 Hmu0. destruct (Hh t0 Hmu0) as [p0 Hg0]. exists p0.
    rewrite nth_set_w_other; [exact Hg0|]. intros ->. rewrite Hg in Hg0. discriminate.
  - intros t0 p0 Hg0. destruct (Nat.eq_dec t t0) as [->|Hne].
    + rewrite nth_set_w_same in Hg0 by exact Hlt. discriminate.
    + rewrite nth_set_w_other in Hg0 by exact Hne. exact (Hu t0 p0 Hg0).
  - (* lock *)
    intros t0 Hmu0. inv Hmu0. exists p. apply nth_set_w_same.
    apply get_w_in_range. unfold get_w. rewrite Hg. discriminate.
  - intros t0 p0 Hg0. destruct (Nat.eq_dec t t0) as [->|Hne]; [reflexivity|].
    rewrite nth_set_w_other in Hg0 by exact Hne.
    pose proof (Hu t0 p0 Hg0) as Hmu0. rewrite Hmu in Hmu0. discriminate.
  - (* unlock *)
    intros t0 Hmu0. discriminate.
  - intros t0 p0 Hg0. exfalso. destruct (Nat.eq_dec t t0) as [->|Hne].
    + rewrite nth_set_w_same in Hg0; [discriminate|].
      apply get_w_in_range. unfold get_w. rewrite Hg. discriminate.
    + rewrite nth_set_w_other in Hg0 by exact Hne.
      pose proof (Hu t0 p0 Hg0) as Hmu0. rewrite Hmu in Hmu0. inv Hmu0. apply Hne. reflexivity.
Qed.

Lemma holder_unique : C17_holder_unique.
Proof.
  unfold C17_holder_unique, wreachable. intros size n s H. apply clos_rt_rtn1 in H.
  change ((length (w_pcs s) = n) /\ mu_inv s).
  induction H as [|s1 s2 Hm _ [IHl IH]].
  - split; [apply repeat_length|]. split.
    + intros t Hmu. discriminate.
    + intros t p Hg. unfold get_w in Hg. cbn [winit w_pcs] in Hg.
      rewrite get_w_repeat_idle in Hg. discriminate.
  - destruct (mu_inv_step _ _ IH Hm) as [Hi Hl]. split; [congruence|exact Hi].
Qed.

(* ---------- the log grows only by the packet of the current mutex holder ---------- *)
Definition C17_log_is_holders_packets : Prop := forall size n s s',
  wreachable size n s -> wmove s s' ->
  w_log s' = w_log s
  \/ exists t p, w_mu s = Some t /\ get_w s t = W_holding p /\ w_log s' = w_log s ++ [p].

Lemma log_is_holders_packets : C17_log_is_holders_packets.
Proof.
  unfold C17_log_is_holders_packets. intros size n s0 s' Hr Hm.
  destruct (one_inv_reachable size n s0 Hr) as [Ht _].
  destruct Hm as [s t p Hg Hlt | s t p Hg Hmu | s t p Hg Hmu Hst Hpc | s t p r' Hg Hmu Hst Hps
                 | s t p Hg Hmu Hst Hpc | s r' Hc | s c Hc];
    cbn [w_log]; try (left; reflexivity).
  destruct (Ht Hst) as (t0 & p0 & Hmu0 & Hg0 & Hp0).
  destruct (c_ppc (w_ring s)) as [|m q|m q ppos|c2 q ppos k|q ppos]; try (left; reflexivity).
  right. exists t0, p0. cbn [pc_for] in Hp0. subst q. auto.
Qed.

(* and a logging step is exactly the cursor store of the holder's producer call: afterwards the
   call is finished, so one critical section cannot log a second packet before unlocking *)
Definition C17_log_step_finishes_call : Prop := forall size n s s',
  wreachable size n s -> wmove s s' -> w_log s' <> w_log s ->
  w_started s = true /\ c_ppc (w_ring s') = P_idle /\ w_mu s' = w_mu s /\ w_pcs s' = w_pcs s.

Lemma log_step_finishes_call : C17_log_step_finishes_call.
Proof.
  unfold C17_log_step_finishes_call. intros size n s0 s' _ Hm Hne.
  destruct Hm as [s t p Hg Hlt | s t p Hg Hmu | s t p Hg Hmu Hst Hpc | s t p r' Hg Hmu Hst Hps
                 | s t p Hg Hmu Hst Hpc | s r' Hc | s c Hc];
    cbn [w_log w_ring w_mu w_pcs] in *; try (exfalso; apply Hne; reflexivity).
  unfold pstep in Hps.
  destruct (c_ppc (w_ring s)) as [|m q|m q ppos|c2 q ppos k|q ppos]; try (exfalso; apply Hne; reflexivity).
  inv Hps. auto.
Qed.

(* ---------- provenance of the per-thread packets (ghost-free, step level) ---------- *)
(* W_holding p of thread t can only come from W_want p of the same thread (wm_lock), and W_want p
   only from W_idle by wm_call of that thread with packet p: together with log_is_holders_packets,
   every logged packet is one that its writer handed to writeMessage. *)
Definition C17_pcs_provenance : Prop := forall s s' t p,
  wmove s s' ->
  (get_w s' t = W_holding p -> get_w s t = W_holding p \/ (get_w s t = W_want p /\ w_mu s = None /\ w_mu s' = Some t))
  /\ (get_w s' t = W_want p -> get_w s t = W_want p \/ get_w s t = W_idle).

Lemma pcs_provenance : C17_pcs_provenance.
Proof.
  unfold C17_pcs_provenance. intros s0 s' t0 p0 Hm.
  destruct Hm as [s t p Hg Hlt | s t p Hg Hmu | s t p Hg Hmu Hst Hpc | s t p r' Hg Hmu Hst Hps
                 | s t p Hg Hmu Hst Hpc | s r' Hc | s c Hc];
    unfold get_w in *; cbn [w_ring w_mu w_pcs w_started w_log]; try (split; intros H; left; exact H).
  - (* call *)
    destruct (Nat.eq_dec t t0) as [->|Hne].
    + rewrite nth_set_w_same by exact Hlt. split; intros H; [discriminate|]. right. exact Hg.
    + rewrite nth_set_w_other by exact Hne. split; intros H; left; exact H.
  - (* lock *)
    assert (Hlt : (t < length (w_pcs s))%nat).
    { apply get_w_in_range. unfold get_w. rewrite Hg. discriminate. }
    destruct (Nat.eq_dec t t0) as [->|Hne].
    + rewrite nth_set_w_same by exact Hlt. split; intros H; [|discriminate].
      inv H. right. auto.
    + rewrite nth_set_w_other by exact Hne. split; intros H; left; exact H.
  - (* unlock *)
    assert (Hlt : (t < length (w_pcs s))%nat).
    { apply get_w_in_range. unfold get_w. rewrite Hg. discriminate. }
    destruct (Nat.eq_dec t t0) as [->|Hne].
    + rewrite nth_set_w_same by exact Hlt. split; intros H; discriminate.
    + rewrite nth_set_w_other by exact Hne. split; intros H; left; exact H.
Qed.

Print Assumptions one_at_a_time.
Print Assumptions holder_unique.
Print Assumptions log_is_holders_packets.
Print Assumptions log_step_finishes_call.
Print Assumptions pcs_provenance.
