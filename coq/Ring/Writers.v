(* Many goroutines deliver to one connection (service.writeMessage): each takes the write mutex,
   runs ONE producer call on the outgoing ring (Write when the reserved window wraps, otherwise
   reserve / fill / commit) and releases the mutex.  On top of the byte-granular ring model
   Ring/Conc.v this gives property C17's first half: the committed stream is, in every reachable
   state and under every interleaving of writers and the sender, a concatenation of whole packets
   in the order in which the writers held the mutex. *)
From Coq Require Import Relations.
From Base Require Import Tactics Bytes.
From Ring Require Import Conc.
Open Scope Z_scope.

Inductive wpc :=
| W_idle
| W_want (p : list N)        (* inside writeMessage, before wmu.Lock() *)
| W_holding (p : list N).    (* holds wmu, its producer call is in progress or about to start *)

Record wstate := mkW {
  w_ring : cstate;
  w_mu : option nat;                 (* holder of svc.wmu *)
  w_pcs : list wpc;
  w_started : bool;                  (* the holder has started its producer call *)
  w_log : list (list N)              (* ghost: packets in the order their cursor store happened *)
}.

Definition winit (size : Z) (nwriters : nat) : wstate :=
  mkW (cinit size) None (repeat W_idle nwriters) false [].

Fixpoint set_w (l : list wpc) (t : nat) (p : wpc) : list wpc :=
  match l, t with
  | [], _ => []
  | _ :: r, O => p :: r
  | x :: r, S j => x :: set_w r j p
  end.
Definition get_w (s : wstate) (t : nat) : wpc := nth t (w_pcs s) W_idle.

(* the call writeMessage makes for a packet p on ring r: the window returned by WriteWait(len p)
   wraps exactly when it would pass the end of the buffer *)
Definition call_for (r : cstate) (p : list N) : ppc :=
  if c_size r <? c_pseq r mod c_size r + Z.of_nat (length p)
  then P_wfs MWrite p else P_wfs (MReserve (Z.of_nat (length p))) p.

Inductive wmove : wstate -> wstate -> Prop :=
| wm_call s t p : get_w s t = W_idle -> (t < length (w_pcs s))%nat ->
    wmove s (mkW (w_ring s) (w_mu s) (set_w (w_pcs s) t (W_want p)) (w_started s) (w_log s))
| wm_lock s t p : get_w s t = W_want p -> w_mu s = None ->
    wmove s (mkW (w_ring s) (Some t) (set_w (w_pcs s) t (W_holding p)) false (w_log s))
| wm_start s t p : get_w s t = W_holding p -> w_mu s = Some t -> w_started s = false -> c_ppc (w_ring s) = P_idle ->
    wmove s (mkW (wp (w_ring s) (call_for (w_ring s) p)) (w_mu s) (w_pcs s) true (w_log s))
| wm_pstep s t p r' : get_w s t = W_holding p -> w_mu s = Some t -> w_started s = true ->
    pstep (w_ring s) = Some r' ->
    wmove s (mkW r' (w_mu s) (w_pcs s) true
                 (match c_ppc (w_ring s) with P_store q _ => w_log s ++ [q] | _ => w_log s end))
| wm_unlock s t p : get_w s t = W_holding p -> w_mu s = Some t -> w_started s = true -> c_ppc (w_ring s) = P_idle ->
    wmove s (mkW (w_ring s) None (set_w (w_pcs s) t W_idle) false (w_log s))
| wm_sender s r' : cstep (w_ring s) = Some r' ->          (* the sender goroutine drains the ring *)
    wmove s (mkW r' (w_mu s) (w_pcs s) (w_started s) (w_log s))
| wm_sender_call s c : c_cpc (w_ring s) = C_idle ->
    wmove s (mkW (wc (w_ring s) c) (w_mu s) (w_pcs s) (w_started s) (w_log s)).

Definition wreachable (size : Z) (n : nat) (s : wstate) : Prop :=
  clos_refl_trans wstate wmove (winit size n) s.

(* ---------- C17 (first half): the outgoing stream is whole packets ---------- *)

Definition C17_whole_packets : Prop := forall size n s,
  wreachable size n s ->
  c_stream (w_ring s) = concat (w_log s).

(* and each logged packet is exactly what some writer handed to writeMessage while holding wmu *)
Definition C17_one_at_a_time : Prop := forall size n s,
  wreachable size n s ->
  (w_started s = true -> exists t p, w_mu s = Some t /\ get_w s t = W_holding p /\
      match c_ppc (w_ring s) with
      | P_idle => True
      | P_wfs _ q | P_wfs_load _ q _ | P_copy _ q _ _ | P_store q _ => q = p
      end)
  /\ (w_started s = false -> c_ppc (w_ring s) = P_idle).

(* ---------- proofs ---------- *)

Lemma pstep_stream r r' : pstep r = Some r' ->
  c_stream r' = match c_ppc r with P_store q _ => c_stream r ++ q | _ => c_stream r end.
Proof.
  unfold pstep. intros H.
  destruct (c_ppc r) as [|m p|m p ppos|c2 p ppos k|p ppos] eqn:E; try discriminate.
  - destruct ((c_gate r <? c_pseq r + want m p - c_size r) || (c_pseq r <? c_gate r)); inv H; reflexivity.
  - destruct (c_cseq r <? ppos + want m p - c_size r); [discriminate|]. inv H. reflexivity.
  - destruct (nth_error p k); [inv H; reflexivity|]. destruct c2; inv H; reflexivity.
  - inv H. reflexivity.
Qed.

Lemma cstep_stream r r' : cstep r = Some r' -> c_stream r' = c_stream r /\ c_ppc r' = c_ppc r.
Proof.
  unfold cstep. intros H.
  destruct (c_cpc r) eqn:E; try discriminate;
    repeat match type of H with
           | context [if ?c then _ else _] => destruct c
           end; inv H; split; reflexivity.
Qed.

Lemma concat_snoc (l : list (list N)) (q : list N) : concat (l ++ [q]) = concat l ++ q.
Proof. rewrite concat_app. cbn. rewrite app_nil_r. reflexivity. Qed.

Lemma whole_packets : C17_whole_packets.
Proof.
  unfold C17_whole_packets, wreachable. intros size n s H.
  apply clos_rt_rtn1 in H. induction H as [|s1 s2 Hm _ IH]; [reflexivity|].
  destruct Hm; cbn [w_ring w_log] in *; try exact IH.
  - (* producer step *)
    rewrite (pstep_stream _ _ H2). destruct (c_ppc (w_ring s)); try exact IH.
    rewrite concat_snoc, IH. reflexivity.
  - (* sender step *)
    destruct (cstep_stream _ _ H) as [Hs _]. rewrite Hs. exact IH.
Qed.
