(* Statements of C14 over the byte-granular two-thread model Ring/Conc.v. *)
From Base Require Import Tactics Bytes.
From Ring Require Import Conc.
Open Scope Z_scope.

Definition slice (l : list N) (from : Z) (m : nat) : list N := firstn m (skipn (Z.to_nat from) l).

(* what the consumer obtained (by reading, or by peeking and then committing) is always a prefix of
   what the producer committed: no loss, duplication, reordering or corruption, in every reachable
   state, i.e. under every interleaving of the two threads at byte / cursor granularity *)
Definition C14_prefix : Prop := forall size s,
  0 < size -> creachable size s ->
  c_consumed s = firstn (length (c_consumed s)) (c_stream s)
  /\ Z.of_nat (length (c_consumed s)) = c_cseq s
  /\ Z.of_nat (length (c_stream s)) = c_pseq s
  /\ 0 <= c_cseq s /\ c_cseq s <= c_pseq s /\ c_pseq s <= c_cseq s + size.

(* the producer never overwrites bytes the consumer has not yet committed: every committed and not
   yet consumed position still holds the byte that was committed there *)
Definition C14_no_overwrite : Prop := forall size s i,
  0 < size -> creachable size s ->
  c_cseq s <= i < c_pseq s ->
  nth_b (c_buf s) (i mod size) = nth (Z.to_nat i) (c_stream s) 0%N.

(* what a peek returned stays valid until the consumer commits, whatever the producer does meanwhile:
   a window into the ring still shows, and a tmp copy holds, the committed bytes at its positions *)
Definition C14_peek_stable : Prop := forall size s,
  0 < size -> creachable size s ->
  match c_view s with
  | NoView => True
  | Window cpos m =>
      cpos = c_cseq s /\ cpos + Z.of_nat m <= c_pseq s
      /\ ring_get size (c_buf s) cpos m = slice (c_stream s) cpos m
  | Tmp cpos bytes =>
      cpos = c_cseq s /\ cpos + Z.of_nat (length bytes) <= c_pseq s
      /\ bytes = slice (c_stream s) cpos (length bytes)
  end.

(* every byte the producer copies into the ring goes to a position no uncommitted byte occupies *)
Definition C14_write_window : Prop := forall size s c2 p ppos k,
  0 < size -> creachable size s -> c_ppc s = P_copy c2 p ppos k ->
  ppos = c_pseq s /\ ppos + Z.of_nat (length p) <= c_cseq s + size
  /\ forall j, c_cseq s <= j < c_pseq s -> (ppos + Z.of_nat k) mod size <> j mod size \/ (length p <= k)%nat.
