(* Replay of hook-point traces recorded from the real goroutines under a forced schedule against
   the lock / condition model Ring/Live.v (tie T3).
   events:  [t; 20; op; n]   thread t starts a call        ops: 1 Read 2 ReadPeek 3 ReadWait 4 ReadCommit
            [t; k]           thread t passed hook point k                    5 Write 6 WriteWait 7 WriteCommit 8 Close
            [t; 21]          thread t's call returned
            [t; 22]          thread t is parked in Cond.Wait
   result per event: [1; pseq; cseq; done] (for a return also code and count), or [99; ...] when
   the event is not what the model does next (the replay stops there). *)
From Base Require Import Tactics Bytes.
From Ring Require Import Live.
Open Scope Z_scope.

Definition start_pc (op : N) (n : Z) : option pc :=
  match op with
  | 1%N => Some (R_start n) | 2%N => Some (K_start true n) | 3%N => Some (K_start false n)
  | 4%N => Some (M_start n) | 5%N => Some (W_start KWrite n) | 6%N => Some (W_start KWriteWait n)
  | 7%N => Some (W_start KWriteCommit n) | 8%N => Some X_start
  | _ => None
  end.

Inductive stop :=
| AtPoint (k : N)            (* passed hook point k *)
| AtReturn (r : result)
| Blocked                    (* cannot move: parked or waiting for a mutex *)
| OutOfFuel.

(* run thread t until it passes a hook point, returns, or cannot move *)
Fixpoint run_thread (fuel : nat) (s : lstate) (t : tid) : lstate * stop :=
  match fuel with
  | O => (s, OutOfFuel)
  | S f =>
      match get_pc s t with
      | Returned r => (s, AtReturn r)
      | _ =>
          match fstep s t with
          | None => (s, Blocked)
          | Some (s', Some k) => (s', AtPoint k)
          | Some (s', None) => run_thread f s' t
          end
      end
  end.

Definition zn (z : Z) : N := Z.to_N z.
Definition snap (s : lstate) : list N := [1%N; zn (l_pseq s); zn (l_cseq s); if l_done s then 1%N else 0%N].

Definition l_event (s : lstate) (ev : list N) : option (lstate * list N) :=
  match ev with
  | [t; 20%N; op; n] =>
      let t := N.to_nat t in
      match get_pc s t, start_pc op (Z.of_N n) with
      | Idle, Some p => let s' := upd s t p in Some (s', snap s')
      | _, _ => None
      end
  | [t; 21%N] =>
      let t := N.to_nat t in
      match run_thread 20 s t with
      | (s', AtReturn (code, cnt)) => let s'' := upd s' t Idle in Some (s'', snap s'' ++ [code; zn cnt])
      | _ => None
      end
  | [t; 22%N] =>
      let t := N.to_nat t in
      match run_thread 20 s t with
      | (s', Blocked) => if parked_c (get_pc s' t) || parked_p (get_pc s' t) then Some (s', snap s') else None
      | _ => None
      end
  | [t; k] =>
      let t := N.to_nat t in
      match run_thread 20 s t with
      | (s', AtPoint k') => if N.eqb k k' then Some (s', snap s') else None
      | _ => None
      end
  | _ => None
  end.

Fixpoint l_replay (s : lstate) (evs : list (list N)) : list (list N) :=
  match evs with
  | [] => []
  | ev :: r =>
      match l_event s ev with
      | Some (s', o) => o :: l_replay s' r
      | None => [[99%N; zn (l_pseq s); zn (l_cseq s)]]
      end
  end.

Fixpoint idle_pcs (n : nat) : list pc := match n with O => [] | S k => Idle :: idle_pcs k end.

(* header: size, initial pseq, cseq, gate, number of threads *)
Definition run_live (hd : list N) (evs : list (list N)) : list (list N) :=
  match hd with
  | [size; p0; c0; g0; nthreads] =>
      l_replay (mkL (Z.of_N size) (Z.of_N p0) (Z.of_N c0) (Z.of_N g0) false None None [] [] (idle_pcs (N.to_nat nthreads))) evs
  | _ => [[98%N]]
  end.
