(* C14: the statements of Ring/ConcSpec.v, proved from the global invariant of Ring/ProofsConcInv.v
   (which holds in every reachable state of the byte-granular two-thread model Ring/Conc.v). *)
From Coq Require Import Relations.
From Base Require Import Tactics Bytes.
From Ring Require Import Conc ConcSpec ProofsConcInv.
Open Scope Z_scope.

Lemma prefix : C14_prefix.
Proof.
  intros size s Hpos Hr.
  destruct (reachable_inv size s Hpos Hr) as [Hsz Hord Hbuf Hslen Hclen Hpre Hring Hview Hp Hc].
  repeat split; auto; lia.
Qed.

Lemma no_overwrite : C14_no_overwrite.
Proof.
  intros size s i Hpos Hr Hi.
  destruct (reachable_inv size s Hpos Hr) as [Hsz Hord Hbuf Hslen Hclen Hpre Hring Hview Hp Hc].
  apply Hring. exact Hi.
Qed.

Lemma peek_stable : C14_peek_stable.
Proof.
  intros size s Hpos Hr.
  destruct (reachable_inv size s Hpos Hr) as [Hsz Hord Hbuf Hslen Hclen Hpre Hring Hview Hp Hc].
  destruct (c_view s) as [|cpos m|cpos bytes]; cbn [vinv] in Hview.
  - exact I.
  - destruct Hview as [Hcp Hle]. repeat split; auto.
    apply ring_get_slice; try lia.
    intros i Hi. apply Hring. lia.
  - exact Hview.
Qed.

Lemma write_window : C14_write_window.
Proof.
  intros size s c2 p ppos k Hpos Hr Hpc.
  destruct (reachable_inv size s Hpos Hr) as [Hsz Hord Hbuf Hslen Hclen Hpre Hring Hview Hp Hc].
  rewrite Hpc in Hp. cbn [pinv] in Hp. destruct Hp as (Hpp & Hres & Hpl). unfold reserved in Hres.
  split; [exact Hpp|]. split; [lia|].
  intros j Hj.
  destruct (le_lt_dec (length p) k) as [Hge|Hlt]; [right; exact Hge|left].
  apply mod_neq_sym; [exact Hpos|].
  clear - Hj Hlt Hres Hord Hpp. lia.
Qed.

Print Assumptions prefix.
Print Assumptions no_overwrite.
Print Assumptions peek_stable.
Print Assumptions write_window.
