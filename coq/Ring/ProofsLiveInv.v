(* The global invariant of the lock / condition model Ring/Live.v and its preservation by every
   move (proof engineering for C15; the statements are in Ring/LiveSpec.v, the corollaries in
   Ring/ProofsLive.v).

   Inv s:
     - mutex ownership, both directions: l_pmu s = Some t <-> thread t is at a crit_p pc
       (so at most one thread is inside each critical section), same for l_cmu / crit_c;
     - wake-up clauses: a thread in the consumer wait loop that has seen pseq < tgt (and then
       done = false) under ccond.L, up to and including being parked without a signal, still has
       "pseq < tgt (and not done)" or some thread is on its straight-line way to Broadcast(ccond)
       (pending_c); symmetric for the producer wait loop with pending_p. *)
From Coq Require Import Relations.
From Base Require Import Tactics Bytes.
From Ring Require Import Live LiveSpec.
Open Scope Z_scope.

(* ---------- get_pc / upd ---------- *)

Lemma set_nth_pc_length l t p : length (set_nth_pc l t p) = length l.
Proof. revert t; induction l as [|x r IH]; intros [|j]; cbn; auto. Qed.

Lemma nth_set_nth_pc_same l t p : (t < length l)%nat -> nth t (set_nth_pc l t p) Idle = p.
Proof.
  revert t; induction l as [|x r IH]; intros [|j] Hl; cbn in *; try lia; auto.
  apply IH; lia.
Qed.

Lemma nth_set_nth_pc_other l t u p : u <> t -> nth u (set_nth_pc l t p) Idle = nth u l Idle.
Proof.
  revert t u; induction l as [|x r IH]; intros [|j] [|i] Hne; cbn; auto; try congruence.
Qed.

Lemma upd_length s t p : length (l_pcs (upd s t p)) = length (l_pcs s).
Proof. apply set_nth_pc_length. Qed.

Lemma get_pc_upd_same s t p : (t < length (l_pcs s))%nat -> get_pc (upd s t p) t = p.
Proof. intros; apply nth_set_nth_pc_same; auto. Qed.

Lemma get_pc_upd_other s t u p : u <> t -> get_pc (upd s t p) u = get_pc s u.
Proof. intros; apply nth_set_nth_pc_other; auto. Qed.

Lemma get_pc_upd s t u p : (t < length (l_pcs s))%nat ->
  get_pc (upd s t p) u = if Nat.eqb u t then p else get_pc s u.
Proof.
  intros Hl. destruct (Nat.eqb_spec u t) as [->|Hne].
  - apply get_pc_upd_same; auto.
  - apply get_pc_upd_other; auto.
Qed.

Lemma get_pc_lt s t : get_pc s t <> Idle -> (t < length (l_pcs s))%nat.
Proof.
  intros H. destruct (Nat.lt_ge_cases t (length (l_pcs s))) as [Hl|Hl]; auto.
  exfalso; apply H. unfold get_pc. apply nth_overflow; auto.
Qed.

Lemma fstep_lt s t r : fstep s t = Some r -> (t < length (l_pcs s))%nat.
Proof.
  intros H. apply get_pc_lt. intros Hpc. unfold fstep in H. rewrite Hpc in H. discriminate.
Qed.

(* the with_* updates do not touch the program counters *)
Lemma get_pc_with_cseq s v u : get_pc (with_cseq s v) u = get_pc s u. Proof. reflexivity. Qed.
Lemma get_pc_with_pseq s v u : get_pc (with_pseq s v) u = get_pc s u. Proof. reflexivity. Qed.
Lemma get_pc_with_gate s v u : get_pc (with_gate s v) u = get_pc s u. Proof. reflexivity. Qed.
Lemma get_pc_with_done s u : get_pc (with_done s) u = get_pc s u. Proof. reflexivity. Qed.
Lemma get_pc_with_pmu s v u : get_pc (with_pmu s v) u = get_pc s u. Proof. reflexivity. Qed.
Lemma get_pc_with_cmu s v u : get_pc (with_cmu s v) u = get_pc s u. Proof. reflexivity. Qed.
Lemma get_pc_with_psig s v u : get_pc (with_psig s v) u = get_pc s u. Proof. reflexivity. Qed.
Lemma get_pc_with_csig s v u : get_pc (with_csig s v) u = get_pc s u. Proof. reflexivity. Qed.

(* ---------- mem_t / rem_t / parked_ids ---------- *)

Lemma mem_rem_same t l : mem_t t (rem_t t l) = false.
Proof.
  unfold mem_t, rem_t. induction l as [|x r IH]; cbn; auto.
  destruct (Nat.eqb t x) eqn:E; cbn; auto. rewrite E; auto.
Qed.

Lemma mem_rem_other u t l : u <> t -> mem_t u (rem_t t l) = mem_t u l.
Proof.
  intros Hne. unfold mem_t, rem_t. induction l as [|x r IH]; cbn; auto.
  destruct (Nat.eqb_spec t x) as [->|Htx]; cbn.
  - destruct (Nat.eqb_spec u x); try congruence. cbn; auto.
  - rewrite IH; auto.
Qed.

Lemma mem_parked_ids_in f l i u :
  mem_t u (parked_ids f l i) = true <->
  (i <= u)%nat /\ (u - i < length l)%nat /\ f (nth (u - i) l Idle) = true.
Proof.
  unfold mem_t. revert i; induction l as [|x r IH]; intros i; cbn [parked_ids length].
  - cbn. split; [discriminate | lia].
  - rewrite existsb_app, orb_true_iff, IH. split.
    + intros [H|H].
      * destruct (f x) eqn:Ef; cbn in H; try discriminate.
        rewrite orb_false_r in H. apply Nat.eqb_eq in H. subst i.
        rewrite Nat.sub_diag. cbn. repeat split; auto; lia.
      * destruct H as (H1 & H2 & H3).
        replace (u - i)%nat with (S (u - S i)) by lia. cbn. repeat split; auto; lia.
    + intros (H1 & H2 & H3).
      destruct (Nat.eq_dec u i) as [->|Hne].
      * left. rewrite Nat.sub_diag in H3. cbn in H3. rewrite H3. cbn. rewrite Nat.eqb_refl; auto.
      * right. replace (u - i)%nat with (S (u - S i)) in H3 by lia. cbn in H3.
        repeat split; auto; lia.
Qed.

(* a broadcast marks every thread parked on the condition *)
Lemma mem_parked_ids s f u :
  f Idle = false -> mem_t u (parked_ids f (l_pcs s) 0) = f (get_pc s u).
Proof.
  intros Hf. unfold get_pc.
  destruct (f (nth u (l_pcs s) Idle)) eqn:E.
  - apply mem_parked_ids_in. rewrite Nat.sub_0_r. repeat split; auto; try lia.
    destruct (Nat.lt_ge_cases u (length (l_pcs s))); auto.
    rewrite nth_overflow in E by auto. congruence.
  - destruct (mem_t u (parked_ids f (l_pcs s) 0)) eqn:M; auto.
    apply mem_parked_ids_in in M. rewrite Nat.sub_0_r in M. destruct M as (_ & _ & M). congruence.
Qed.

(* ---------- the invariant ---------- *)

Definition pend_c (s : lstate) : Prop := exists u, pending_c (get_pc s u) = true.
Definition pend_p (s : lstate) : Prop := exists u, pending_p (get_pc s u) = true.

(* consumer side: what thread u at pc p still knows *)
Definition cw_at (s : lstate) (u : tid) (p : pc) : Prop :=
  match p with
  | CW_test k cpos tgt ppos => ppos < tgt -> l_pseq s < tgt \/ pend_c s
  | CW_done k cpos tgt => l_pseq s < tgt \/ pend_c s
  | CW_wait k cpos tgt => (l_pseq s < tgt /\ l_done s = false) \/ pend_c s
  | CW_parked k cpos tgt =>
      mem_t u (l_csig s) = false -> (l_pseq s < tgt /\ l_done s = false) \/ pend_c s
  | _ => True
  end.

(* producer side *)
Definition pw_at (s : lstate) (u : tid) (p : pc) : Prop :=
  match p with
  | PW_test k n ppos cpos => cpos < ppos + n - l_size s -> l_cseq s < ppos + n - l_size s \/ pend_p s
  | PW_done k n ppos => l_cseq s < ppos + n - l_size s \/ pend_p s
  | PW_wait k n ppos => (l_cseq s < ppos + n - l_size s /\ l_done s = false) \/ pend_p s
  | PW_parked k n ppos =>
      mem_t u (l_psig s) = false -> (l_cseq s < ppos + n - l_size s /\ l_done s = false) \/ pend_p s
  | _ => True
  end.

Record Inv (s : lstate) : Prop := mkInv {
  inv_pmu : forall u, l_pmu s = Some u <-> crit_p (get_pc s u) = true;
  inv_cmu : forall u, l_cmu s = Some u <-> crit_c (get_pc s u) = true;
  inv_cw : forall u, cw_at s u (get_pc s u);
  inv_pw : forall u, pw_at s u (get_pc s u)
}.

(* ---------- clause-level preservation lemmas ---------- *)

Lemma is_free_true h : is_free h = true -> h = None.
Proof. destruct h; cbn; congruence. Qed.

Definition mu_clause (crit : pc -> bool) (mu : option tid) (s : lstate) : Prop :=
  forall u, mu = Some u <-> crit (get_pc s u) = true.

(* a step of thread t from pc p to pc p' that leaves the mutex alone, acquires it, or releases it *)
Lemma mu_step crit mu mu' s s0 t p p' :
  (t < length (l_pcs s0))%nat -> (forall u, get_pc s0 u = get_pc s u) -> get_pc s t = p ->
  mu_clause crit mu s ->
  (mu' = mu /\ crit p' = crit p) \/
  (mu = None /\ mu' = Some t /\ crit p' = true) \/
  (crit p = true /\ mu' = None /\ crit p' = false) ->
  mu_clause crit mu' (upd s0 t p').
Proof.
  intros Hlt Hpcs Hpc Hmu Hk u. rewrite get_pc_upd by exact Hlt. rewrite Hpcs.
  pose proof (Hmu u) as [Hu1 Hu2]. pose proof (Hmu t) as [Ht1 Ht2]. rewrite Hpc in Ht1, Ht2.
  destruct (Nat.eqb_spec u t) as [->|Hne].
  - destruct Hk as [[-> Hc]|[(-> & -> & Hc)|(Hc & -> & Hc')]]; rewrite ?Hc, ?Hc'; split; auto; try congruence.
  - destruct Hk as [[-> Hc]|[(-> & -> & Hc)|(Hc & -> & Hc')]]; split; auto; intros HH; try congruence.
    + apply Hu2 in HH. congruence.
    + apply Hu2 in HH. specialize (Ht2 Hc). congruence.
Qed.

Lemma pend_c_upd s s0 t p p' :
  (t < length (l_pcs s0))%nat -> (forall u, get_pc s0 u = get_pc s u) -> get_pc s t = p ->
  (pending_c p = true -> pending_c p' = true) -> pend_c s -> pend_c (upd s0 t p').
Proof.
  intros Hlt Hpcs Hpc Hpp [v Hv]. destruct (Nat.eq_dec v t) as [->|Hne].
  - exists t. rewrite get_pc_upd_same by exact Hlt. rewrite Hpc in Hv. auto.
  - exists v. rewrite get_pc_upd_other by exact Hne. rewrite Hpcs. exact Hv.
Qed.

Lemma pend_p_upd s s0 t p p' :
  (t < length (l_pcs s0))%nat -> (forall u, get_pc s0 u = get_pc s u) -> get_pc s t = p ->
  (pending_p p = true -> pending_p p' = true) -> pend_p s -> pend_p (upd s0 t p').
Proof.
  intros Hlt Hpcs Hpc Hpp [v Hv]. destruct (Nat.eq_dec v t) as [->|Hne].
  - exists t. rewrite get_pc_upd_same by exact Hlt. rewrite Hpc in Hv. auto.
  - exists v. rewrite get_pc_upd_other by exact Hne. rewrite Hpcs. exact Hv.
Qed.

Lemma pend_c_new s0 t p' : (t < length (l_pcs s0))%nat -> pending_c p' = true -> pend_c (upd s0 t p').
Proof. intros Hlt Hp. exists t. rewrite get_pc_upd_same by exact Hlt. exact Hp. Qed.

Lemma pend_p_new s0 t p' : (t < length (l_pcs s0))%nat -> pending_p p' = true -> pend_p (upd s0 t p').
Proof. intros Hlt Hp. exists t. rewrite get_pc_upd_same by exact Hlt. exact Hp. Qed.

(* the clause of a thread that does not move: the facts it relies on are kept, or a pending
   thread has appeared *)
Lemma cw_frame s s' u p :
  cw_at s u p ->
  (l_pseq s' = l_pseq s /\ l_done s' = l_done s /\ (pend_c s -> pend_c s')) \/ pend_c s' ->
  (mem_t u (l_csig s') = false -> mem_t u (l_csig s) = false) ->
  cw_at s' u p.
Proof.
  intros Hat Hk Hm.
  destruct p; cbn [cw_at] in *; auto;
    destruct Hk as [(Hp & Hd & Hpe)|Hpe]; try rewrite Hp; try rewrite Hd; intuition.
Qed.

Lemma pw_frame s s' u p :
  pw_at s u p -> l_size s' = l_size s ->
  (l_cseq s' = l_cseq s /\ l_done s' = l_done s /\ (pend_p s -> pend_p s')) \/ pend_p s' ->
  (mem_t u (l_psig s') = false -> mem_t u (l_psig s) = false) ->
  pw_at s' u p.
Proof.
  intros Hat Hsz Hk Hm.
  destruct p; cbn [pw_at] in *; auto; rewrite Hsz;
    destruct Hk as [(Hp & Hd & Hpe)|Hpe]; try rewrite Hp; try rewrite Hd; intuition.
Qed.

(* a broadcast: nobody else is inside the critical section, every parked thread is signalled *)
Lemma cw_bcast s s' u p :
  cw_at s u p -> crit_c p = false -> (parked_c p = true -> mem_t u (l_csig s') = true) -> cw_at s' u p.
Proof.
  intros Hat Hc Hm. destruct p; cbn [cw_at] in *; auto; cbn in Hc; try discriminate Hc.
  intros HH. rewrite Hm in HH by reflexivity. discriminate.
Qed.

Lemma pw_bcast s s' u p :
  pw_at s u p -> crit_p p = false -> (parked_p p = true -> mem_t u (l_psig s') = true) -> pw_at s' u p.
Proof.
  intros Hat Hc Hm. destruct p; cbn [pw_at] in *; auto; cbn in Hc; try discriminate Hc.
  intros HH. rewrite Hm in HH by reflexivity. discriminate.
Qed.

(* the wake-up clauses of all threads after a step of thread t from p to p' *)
Lemma cw_step s s0 t p p' :
  Inv s -> (t < length (l_pcs s0))%nat -> (forall u, get_pc s0 u = get_pc s u) -> get_pc s t = p ->
  cw_at (upd s0 t p') t p' ->
  ( ((l_pseq s0 = l_pseq s /\ l_done s0 = l_done s /\ (pending_c p = true -> pending_c p' = true))
     \/ pending_c p' = true) /\
    (l_csig s0 = l_csig s \/ l_csig s0 = rem_t t (l_csig s)) ) \/
  ( crit_c p = true /\ l_csig s0 = parked_ids parked_c (l_pcs s) 0 ) ->
  forall u, cw_at (upd s0 t p') u (get_pc (upd s0 t p') u).
Proof.
  intros HI Hlt Hpcs Hpc Hown Hk u. rewrite get_pc_upd by exact Hlt.
  destruct (Nat.eqb_spec u t) as [->|Hne]; [exact Hown|]. rewrite Hpcs.
  destruct Hk as [[Hf Hs]|[Hc Hs]].
  - apply (cw_frame s); [apply (inv_cw _ HI)| |].
    + destruct Hf as [(H1 & H2 & H3)|H3].
      * left. repeat split; auto. apply (pend_c_upd s s0 t p p'); auto.
      * right. apply pend_c_new; auto.
    + change (l_csig (upd s0 t p')) with (l_csig s0).
      destruct Hs as [-> | ->]; auto. rewrite mem_rem_other by exact Hne. auto.
  - apply (cw_bcast s); [apply (inv_cw _ HI)| |].
    + destruct (crit_c (get_pc s u)) eqn:Ec; auto.
      apply (inv_cmu _ HI) in Ec. rewrite <- Hpc in Hc. apply (inv_cmu _ HI) in Hc. congruence.
    + intros Hp. change (l_csig (upd s0 t p')) with (l_csig s0). rewrite Hs.
      rewrite mem_parked_ids by reflexivity. exact Hp.
Qed.

Lemma pw_step s s0 t p p' :
  Inv s -> (t < length (l_pcs s0))%nat -> (forall u, get_pc s0 u = get_pc s u) -> get_pc s t = p ->
  l_size s0 = l_size s ->
  pw_at (upd s0 t p') t p' ->
  ( ((l_cseq s0 = l_cseq s /\ l_done s0 = l_done s /\ (pending_p p = true -> pending_p p' = true))
     \/ pending_p p' = true) /\
    (l_psig s0 = l_psig s \/ l_psig s0 = rem_t t (l_psig s)) ) \/
  ( crit_p p = true /\ l_psig s0 = parked_ids parked_p (l_pcs s) 0 ) ->
  forall u, pw_at (upd s0 t p') u (get_pc (upd s0 t p') u).
Proof.
  intros HI Hlt Hpcs Hpc Hsz Hown Hk u. rewrite get_pc_upd by exact Hlt.
  destruct (Nat.eqb_spec u t) as [->|Hne]; [exact Hown|]. rewrite Hpcs.
  destruct Hk as [[Hf Hs]|[Hc Hs]].
  - apply (pw_frame s); [apply (inv_pw _ HI)|exact Hsz| |].
    + destruct Hf as [(H1 & H2 & H3)|H3].
      * left. repeat split; auto. apply (pend_p_upd s s0 t p p'); auto.
      * right. apply pend_p_new; auto.
    + change (l_psig (upd s0 t p')) with (l_psig s0).
      destruct Hs as [-> | ->]; auto. rewrite mem_rem_other by exact Hne. auto.
  - apply (pw_bcast s); [apply (inv_pw _ HI)| |].
    + destruct (crit_p (get_pc s u)) eqn:Ec; auto.
      apply (inv_pmu _ HI) in Ec. rewrite <- Hpc in Hc. apply (inv_pmu _ HI) in Hc. congruence.
    + intros Hp. change (l_psig (upd s0 t p')) with (l_psig s0). rewrite Hs.
      rewrite mem_parked_ids by reflexivity. exact Hp.
Qed.

(* ---------- preservation by a step ---------- *)

Ltac triv_imp := cbn; intros; first [assumption | reflexivity | discriminate].

Ltac mu_side :=
  cbn; first
  [ left; split; reflexivity
  | right; left; split; [apply is_free_true; assumption | split; reflexivity]
  | right; right; repeat split; reflexivity ].

Ltac wake_side :=
  first
  [ left; split;
    [ first [ left; split; [reflexivity | split; [reflexivity | triv_imp]] | right; reflexivity ]
    | first [ left; reflexivity | right; reflexivity ] ]
  | right; split; reflexivity ].

Ltac own_clause s t HI Hpc Hlt inv_x pend_upd :=
  first
  [ exact I
  | let Hc := fresh "Hc" in
    pose proof (inv_x _ HI t) as Hc; rewrite Hpc in Hc; cbn [cw_at pw_at] in Hc |- *;
    change (l_size (upd _ _ _)) with (l_size s);
    intros;
    repeat match goal with
           | H : ?A -> _ \/ _ |- _ => specialize (H ltac:(lia))
           end;
    try match goal with
        | H : _ \/ _ |- _ =>
            destruct H as [H|H];
            [ | right; eapply (pend_upd s); [exact Hlt | intros; reflexivity | exact Hpc | triv_imp | exact H] ]
        end;
    repeat match goal with H : _ /\ _ |- _ => destruct H end;
    left; first [assumption | split; assumption] ].

Lemma inv_step s t s' lab : Inv s -> fstep s t = Some (s', lab) -> Inv s'.
Proof.
  intros HI H. pose proof (fstep_lt _ _ _ H) as Hlt.
  unfold fstep, go_park_c, go_park_p in H.
  destruct (get_pc s t) eqn:Hpc; try discriminate H;
  repeat (let E := fresh "E" in match type of H with
     | context [if ?c then _ else _] => destruct c eqn:E
     | context [match ?k with KRead _ => _ | _ => _ end] => destruct k
     | context [match ?k with KWrite => _ | _ => _ end] => destruct k end);
  try discriminate H; injection H as Hs Hl; subst s' lab;
  try match goal with E : (_ && _)%bool = true |- _ => apply andb_true_iff in E; destruct E end.
  all: constructor.
  all: try (match goal with |- forall u, _ <-> crit_p (get_pc ?S u) = true => change (mu_clause crit_p (l_pmu S) S) end;
       eapply (mu_step crit_p (l_pmu s) _ s); [exact Hlt | intros; reflexivity | exact Hpc | exact (inv_pmu _ HI) | mu_side]).
  all: try (match goal with |- forall u, _ <-> crit_c (get_pc ?S u) = true => change (mu_clause crit_c (l_cmu S) S) end;
       eapply (mu_step crit_c (l_cmu s) _ s); [exact Hlt | intros; reflexivity | exact Hpc | exact (inv_cmu _ HI) | mu_side]).
  all: try (match goal with |- forall u, cw_at _ u _ => idtac end;
       eapply (cw_step s _ t _ _ HI); [exact Hlt | intros; reflexivity | exact Hpc | own_clause s t HI Hpc Hlt inv_cw pend_c_upd | wake_side]).
  all: try (match goal with |- forall u, pw_at _ u _ => idtac end;
       eapply (pw_step s _ t _ _ HI); [exact Hlt | intros; reflexivity | exact Hpc | reflexivity | own_clause s t HI Hpc Hlt inv_pw pend_p_upd | wake_side]).
Qed.

Ltac inv_move s t HI Hpc Hlt :=
  constructor;
  [ match goal with |- forall u, _ <-> crit_p (get_pc ?S u) = true => change (mu_clause crit_p (l_pmu S) S) end;
    eapply (mu_step crit_p (l_pmu s) _ s); [exact Hlt | intros; reflexivity | exact Hpc | exact (inv_pmu _ HI) | mu_side]
  | match goal with |- forall u, _ <-> crit_c (get_pc ?S u) = true => change (mu_clause crit_c (l_cmu S) S) end;
    eapply (mu_step crit_c (l_cmu s) _ s); [exact Hlt | intros; reflexivity | exact Hpc | exact (inv_cmu _ HI) | mu_side]
  | eapply (cw_step s _ t _ _ HI); [exact Hlt | intros; reflexivity | exact Hpc | exact I | wake_side]
  | eapply (pw_step s _ t _ _ HI); [exact Hlt | intros; reflexivity | exact Hpc | reflexivity | exact I | wake_side] ].

Lemma inv_call s t o : Inv s -> (t < length (l_pcs s))%nat -> get_pc s t = Idle -> Inv (upd s t (start_of o)).
Proof. intros HI Hlt Hpc. destruct o; cbn [start_of]; inv_move s t HI Hpc Hlt. Qed.

Lemma inv_ret s t r : Inv s -> get_pc s t = Returned r -> Inv (upd s t Idle).
Proof.
  intros HI Hpc. assert (Hlt : (t < length (l_pcs s))%nat) by (apply get_pc_lt; congruence).
  inv_move s t HI Hpc Hlt.
Qed.

Lemma get_pc_linit size n u : get_pc (linit size n) u = Idle.
Proof.
  unfold get_pc, linit; cbn [l_pcs]. revert u; induction n as [|n IH]; intros [|u]; cbn; auto.
Qed.

Lemma inv_init size n : Inv (linit size n).
Proof.
  constructor; intros u; rewrite get_pc_linit; cbn; try exact I; split; discriminate.
Qed.

Lemma inv_lmove s s' : Inv s -> lmove s s' -> Inv s'.
Proof.
  intros HI Hm. destruct Hm as [s t s' lab H | s t o Hlt Hpc _ | s t r Hpc].
  - eapply inv_step; eauto.
  - apply inv_call; auto.
  - eapply inv_ret; eauto.
Qed.

Theorem reachable_inv size n s : reachable size n s -> Inv s.
Proof.
  unfold reachable. intros H. apply clos_rt_rtn1 in H.
  induction H as [|s1 s2 Hm _ IH]; [apply inv_init | eapply inv_lmove; eauto].
Qed.

Print Assumptions reachable_inv.
