(* Proofs of Ring/SeqFifo.v: the invariant of the ghost-augmented sequential ring and its preservation by every
   allowed call. *)
From Base Require Import Tactics Bytes.
From Ring Require Import Seq ConcSpec ProofsConcInv SeqFifo.
Open Scope Z_scope.

(* ---------- set_at / ring_copy / ring_get ---------- *)
Lemma set_at_length l : forall i v, length (set_at l i v) = length l.
Proof. induction l as [|x r IH]; intros [|j] v; cbn; auto. Qed.

Lemma nth_set_at_same l : forall i v d, (i < length l)%nat -> nth i (set_at l i v) d = v.
Proof.
  induction l as [|x r IH]; intros [|j] v d H; cbn in *; try lia; auto.
  apply IH; lia.
Qed.

Lemma nth_set_at_other l : forall i j v d, i <> j -> nth j (set_at l i v) d = nth j l d.
Proof.
  induction l as [|x r IH]; intros [|i] [|j] v d H; cbn; auto; try congruence;
  try (apply IH; congruence).
Qed.

Lemma rc_length sz : forall p b pos, length (ring_copy sz b p pos) = length b.
Proof. induction p as [|x p IH]; intros b pos; [reflexivity|]. cbn [ring_copy]. now rewrite IH, set_at_length. Qed.

Lemma rc_nth_out sz : forall p b pos k,
  (forall j, 0 <= j < Z.of_nat (length p) -> Z.to_nat ((pos + j) mod sz) <> k) ->
  nth k (ring_copy sz b p pos) 0%N = nth k b 0%N.
Proof.
  induction p as [|x p IH]; intros b pos k H; [reflexivity|]. cbn [ring_copy].
  rewrite IH.
  - apply nth_set_at_other. specialize (H 0). rewrite Z.add_0_r in H. apply H. cbn [length]. lia.
  - intros j Hj. replace (pos + 1 + j) with (pos + (j + 1)) by ring. apply H. cbn [length]. lia.
Qed.

Lemma rc_nth_in sz : 0 < sz -> forall p b pos j, Z.of_nat (length b) = sz -> Z.of_nat (length p) <= sz ->
  (j < length p)%nat ->
  nth (Z.to_nat ((pos + Z.of_nat j) mod sz)) (ring_copy sz b p pos) 0%N = nth j p 0%N.
Proof.
  intros Hs. induction p as [|x p IH]; intros b pos j Hl Hp Hj; [cbn in Hj; lia|].
  cbn [ring_copy]. cbn [length] in Hp, Hj. destruct j as [|j].
  - rewrite Z.add_0_r. cbn [nth]. rewrite rc_nth_out.
    + apply nth_set_at_same. pose proof (Z.mod_pos_bound pos sz Hs). lia.
    + intros j Hj' E. apply Z2Nat.inj in E; try (apply Z.mod_pos_bound; lia).
      revert E. apply mod_neq_sym; lia.
  - cbn [nth]. replace (pos + Z.of_nat (S j)) with (pos + 1 + Z.of_nat j) by lia.
    apply IH; [rewrite set_at_length; exact Hl|lia|lia].
Qed.

Lemma rg_length sz b : forall m pos, length (ring_get sz b pos m) = m.
Proof. induction m as [|m IH]; intro pos; cbn [ring_get length]; [reflexivity|now rewrite IH]. Qed.

Lemma rg_slice sz b stream : forall m cpos,
  0 <= cpos -> cpos + Z.of_nat m <= Z.of_nat (length stream) ->
  (forall i, cpos <= i < cpos + Z.of_nat m -> nth (Z.to_nat (i mod sz)) b 0%N = nth (Z.to_nat i) stream 0%N) ->
  ring_get sz b cpos m = slice stream cpos m.
Proof.
  induction m as [|m IH]; intros cpos H0 Hlen Hc.
  - reflexivity.
  - cbn [ring_get]. rewrite slice_cons by lia.
    rewrite Hc by lia. f_equal. apply IH; try lia.
    intros i Hi. apply Hc. lia.
Qed.

(* ---------- the invariant ---------- *)
Definition inv (sz : Z) (g : gst) : Prop :=
  let r := g_ring g in
  size r = sz /\ Z.of_nat (length (buf r)) = sz
  /\ Z.of_nat (length (g_stream g)) = pseq r /\ Z.of_nat (length (g_consumed g)) = cseq r
  /\ cseq r <= pseq r /\ pseq r <= cseq r + sz /\ gate r <= cseq r
  /\ g_consumed g = firstn (length (g_consumed g)) (g_stream g)
  /\ forall i, cseq r <= i < pseq r -> nth (Z.to_nat (i mod sz)) (buf r) 0%N = nth (Z.to_nat i) (g_stream g) 0%N.

Lemma zeros_length n : length (zeros n) = n.
Proof. induction n; cbn; auto. Qed.

Lemma inv_init sz : 0 < sz -> inv sz (ginit sz).
Proof.
  intros Hs. unfold inv, ginit, ring_new. cbn. rewrite zeros_length. repeat split; try lia.
Qed.

(* waitForWriteSpace under the invariant *)
Lemma wfs_ok sz g n r1 start : inv sz g -> 0 <= n -> wfs (g_ring g) n = (r1, ROk start) ->
  start = pseq (g_ring g) /\ exists g', r1 = mkRing (size (g_ring g)) (buf (g_ring g)) (pseq (g_ring g)) (cseq (g_ring g)) g' (done (g_ring g))
  /\ g' <= cseq (g_ring g) /\ pseq (g_ring g) + n <= g' + sz.
Proof.
  intros (Hsz & Hl & Hst & Hco & H1 & H2 & Hg & _) Hn. unfold wfs. destruct (g_ring g) as [s b ps cs gt d]. cbn in *. subst s.
  destruct d; [discriminate|].
  destruct ((gt <? ps + n - sz) || (ps <? gt)) eqn:E.
  - destruct (cs <? ps + n - sz) eqn:E2; [discriminate|]. intros H. injection H as Er Es. subst r1 start.
    split; [reflexivity|]. exists cs. repeat split; lia.
  - intros H. injection H as Er Es. subst r1 start. split; [reflexivity|]. exists gt. repeat split; lia.
Qed.

Lemma wfs_other sz g n r1 x : inv sz g -> wfs (g_ring g) n = (r1, x) -> (forall s, x <> ROk s) -> r1 = g_ring g.
Proof.
  intros _. unfold wfs. destruct (g_ring g) as [s b ps cs gt d]. cbn.
  destruct d; [intros H; injection H as Er Ex; now subst r1|].
  destruct ((gt <? ps + n - s) || (ps <? gt)).
  - destruct (cs <? ps + n - s); intros H Hx; injection H as Er Ex; subst r1 x; [reflexivity|now destruct (Hx ps)].
  - intros H Hx; injection H as Er Ex; subst r1 x. now destruct (Hx ps).
Qed.

(* committing p at the producer cursor *)
Lemma inv_commit sz g p g' : 0 < sz -> inv sz g -> g' <= cseq (g_ring g) ->
  pseq (g_ring g) + Z.of_nat (length p) <= g' + sz ->
  inv sz (mkG (mkRing (size (g_ring g)) (ring_copy (size (g_ring g)) (buf (g_ring g)) p (pseq (g_ring g)))
                      (pseq (g_ring g) + Z.of_nat (length p)) (cseq (g_ring g)) g' (done (g_ring g)))
              (g_stream g ++ p) (g_consumed g)).
Proof.
  intros Hs (Hsz & Hl & Hst & Hco & H1 & H2 & Hg & Hpre & Hbuf) Hg' Hroom.
  destruct g as [[s b ps cs gt d] st co]. cbn in *. subst s. unfold inv. cbn.
  rewrite rc_length, app_length.
  assert (Hcl : (length co <= length st)%nat) by lia.
  repeat split; try lia.
  - rewrite firstn_app. replace (length co - length st)%nat with 0%nat by lia.
    cbn [firstn]. now rewrite app_nil_r.
  - intros i Hi. destruct (Z_lt_dec i ps) as [Hlt|Hge].
    + rewrite rc_nth_out.
      * rewrite app_nth1 by lia. apply Hbuf. lia.
      * intros j Hj E. apply Z2Nat.inj in E; try (apply Z.mod_pos_bound; lia).
        revert E. apply mod_neq_sym; lia.
    + replace i with (ps + Z.of_nat (Z.to_nat (i - ps))) at 1 by lia.
      rewrite rc_nth_in; try lia.
      rewrite app_nth2 by lia. f_equal. lia.
Qed.

(* the consumer advancing by k bytes it was shown *)
Lemma inv_consume sz g k : 0 < sz -> inv sz g -> 0 <= k -> cseq (g_ring g) + k <= pseq (g_ring g) ->
  ring_get (size (g_ring g)) (buf (g_ring g)) (cseq (g_ring g)) (Z.to_nat k) = slice (g_stream g) (cseq (g_ring g)) (Z.to_nat k)
  /\ inv sz (mkG (mkRing (size (g_ring g)) (buf (g_ring g)) (pseq (g_ring g)) (cseq (g_ring g) + k) (gate (g_ring g)) (done (g_ring g)))
                 (g_stream g) (g_consumed g ++ ring_get (size (g_ring g)) (buf (g_ring g)) (cseq (g_ring g)) (Z.to_nat k))).
Proof.
  intros Hs (Hsz & Hl & Hst & Hco & H1 & H2 & Hg & Hpre & Hbuf) Hk Hle.
  destruct g as [[s b ps cs gt d] st co]. cbn in *. subst s.
  assert (Hget : ring_get sz b cs (Z.to_nat k) = slice st cs (Z.to_nat k)).
  { apply rg_slice; try lia. intros i Hi. apply Hbuf. lia. }
  split; [exact Hget|]. unfold inv. cbn. rewrite app_length, rg_length.
  repeat split; try lia.
  - rewrite Hget. rewrite Hpre at 1. replace (length co) with (Z.to_nat cs) by lia.
    rewrite firstn_slice by lia. reflexivity.
  - intros i Hi. apply Hbuf. lia.
Qed.

(* the window a reservation covers may be filled without disturbing committed bytes *)
Lemma inv_fill sz g p : 0 < sz -> inv sz g -> pseq (g_ring g) + Z.of_nat (length p) <= gate (g_ring g) + sz ->
  inv sz (mkG (r_fill (g_ring g) p) (g_stream g) (g_consumed g)).
Proof.
  intros Hs (Hsz & Hl & Hst & Hco & H1 & H2 & Hg & Hpre & Hbuf) Hroom.
  destruct g as [[s b ps cs gt d] st co]. cbn in *. subst s. unfold inv, r_fill. cbn.
  rewrite rc_length. repeat split; try lia; try assumption.
  intros i Hi. rewrite rc_nth_out; [apply Hbuf; lia|].
  intros j Hj E. apply Z2Nat.inj in E; try (apply Z.mod_pos_bound; lia).
  revert E. apply mod_neq_sym; [exact Hs|]. clear - Hi Hj Hroom Hg. lia.
Qed.

Lemma inv_gate sz g g' : inv sz g -> g' <= cseq (g_ring g) ->
  inv sz (mkG (mkRing (size (g_ring g)) (buf (g_ring g)) (pseq (g_ring g)) (cseq (g_ring g)) g' (done (g_ring g))) (g_stream g) (g_consumed g)).
Proof. intros (Hsz & Hl & Hst & Hco & H1 & H2 & Hg & Hpre & Hbuf) Hg'. unfold inv. cbn. repeat split; try lia; assumption. Qed.

Lemma inv_done sz g d : inv sz g ->
  inv sz (mkG (mkRing (size (g_ring g)) (buf (g_ring g)) (pseq (g_ring g)) (cseq (g_ring g)) (gate (g_ring g)) d) (g_stream g) (g_consumed g)).
Proof. intros (Hsz & Hl & Hst & Hco & H1 & H2 & Hg & Hpre & Hbuf). unfold inv. cbn. repeat split; try lia; assumption. Qed.

Lemma g_eta g : mkG (g_ring g) (g_stream g) (g_consumed g) = g.
Proof. now destruct g. Qed.

Lemma r_eta r : mkRing (size r) (buf r) (pseq r) (cseq r) (gate r) (done r) = r.
Proof. now destruct r. Qed.

(* Write(p) on a ghost state *)
Lemma write_inv sz g p : 0 < sz -> inv sz g ->
  match r_write (g_ring g) p with
  | (r', ROk _) => inv sz (mkG r' (g_stream g ++ p) (g_consumed g))
  | (r', _) => inv sz (mkG r' (g_stream g) (g_consumed g))
  end.
Proof.
  intros Hs Hi. unfold r_write. destruct (done (g_ring g)); [now rewrite g_eta|].
  destruct (wfs (g_ring g) (Z.of_nat (length p))) as [r1 x] eqn:Ew.
  destruct x as [start| | | |];
    try (rewrite (wfs_other sz g _ r1 _ Hi Ew) by discriminate; now rewrite g_eta).
  destruct (wfs_ok sz g (Z.of_nat (length p)) r1 start Hi (Zle_0_nat _) Ew) as (-> & g' & -> & Hg' & Hroom). cbn [size buf pseq cseq gate done].
  apply inv_commit; assumption.
Qed.

(* the writeMessage path on a ghost state *)
Lemma write_message_inv sz g p : 0 < sz -> inv sz g ->
  match r_write_message (g_ring g) p with
  | (r', ROk _) => inv sz (mkG r' (g_stream g ++ p) (g_consumed g))
  | (r', _) => inv sz (mkG r' (g_stream g) (g_consumed g))
  end.
Proof.
  intros Hs Hi. unfold r_write_message, r_write_wait.
  destruct (wfs (g_ring g) (Z.of_nat (length p))) as [r1 x] eqn:Ew.
  destruct x as [start| | | |];
    try (rewrite (wfs_other sz g _ r1 _ Hi Ew) by discriminate; now rewrite g_eta).
  destruct (wfs_ok sz g (Z.of_nat (length p)) r1 start Hi (Zle_0_nat _) Ew) as (-> & g' & -> & Hg' & Hroom).
  set (r1 := mkRing (size (g_ring g)) (buf (g_ring g)) (pseq (g_ring g)) (cseq (g_ring g)) g' (done (g_ring g))).
  set (g1 := mkG r1 (g_stream g) (g_consumed g)).
  assert (Hi1 : inv sz g1) by (apply inv_gate; assumption).
  destruct (size r1 <? pseq (g_ring g) mod size r1 + Z.of_nat (length p)).
  - (* the window wraps: Write *)
    pose proof (write_inv sz g1 p Hs Hi1) as Hw. cbn [g_ring g_stream g_consumed g1] in Hw.
    destruct (r_write r1 p) as [r2 y]. destruct y; exact Hw.
  - (* fill the window, then commit *)
    assert (Hif : inv sz (mkG (r_fill r1 p) (g_stream g) (g_consumed g))) by (apply (inv_fill sz g1 p Hs Hi1); cbn; lia).
    unfold r_write_commit.
    destruct (wfs (r_fill r1 p) (Z.of_nat (length p))) as [r2 y] eqn:Ew2.
    set (gf := mkG (r_fill r1 p) (g_stream g) (g_consumed g)) in *.
    change (r_fill r1 p) with (g_ring gf) in Ew2.
    destruct y as [start2| | | |];
      try (rewrite (wfs_other sz gf _ r2 _ Hif Ew2) by discriminate; exact Hif).
    destruct (wfs_ok sz gf (Z.of_nat (length p)) r2 start2 Hif (Zle_0_nat _) Ew2) as (-> & g'' & -> & Hg'' & Hroom2).
    cbn [size buf pseq cseq gate done gf g_ring r_fill r1] in *.
    apply (inv_commit sz g1 p g'' Hs Hi1); cbn; assumption.
Qed.

(* a round of ReadFrom on a ghost state *)
Lemma read_from_inv sz g blk p : 0 < sz -> inv sz g -> 0 <= blk ->
  match r_read_from_round (g_ring g) blk p with
  | (r', ROk p') => inv sz (mkG r' (g_stream g ++ p') (g_consumed g))
  | (r', _) => inv sz (mkG r' (g_stream g) (g_consumed g))
  end.
Proof.
  intros Hs Hi Hblk. unfold r_read_from_round, r_write_wait.
  destruct (wfs (g_ring g) blk) as [r1 x] eqn:Ew.
  destruct x as [start| | | |];
    try (rewrite (wfs_other sz g _ r1 _ Hi Ew) by discriminate; now rewrite g_eta).
  destruct (wfs_ok sz g blk r1 start Hi Hblk Ew) as (-> & g' & -> & Hg' & Hroom).
  set (r1 := mkRing (size (g_ring g)) (buf (g_ring g)) (pseq (g_ring g)) (cseq (g_ring g)) g' (done (g_ring g))).
  set (g1 := mkG r1 (g_stream g) (g_consumed g)).
  assert (Hi1 : inv sz g1) by (apply inv_gate; assumption).
  pose proof Hi as (Hsz & _).
  pose proof (Z.mod_pos_bound (pseq (g_ring g)) sz Hs) as Hb.
  (* the window is at most blk bytes long *)
  set (l := if size r1 <? pseq (g_ring g) mod size r1 + blk then size r1 - pseq (g_ring g) mod size r1 else blk).
  assert (Hl : l <= blk). { unfold l, r1; cbn [size]; rewrite Hsz; generalize (pseq (g_ring g) mod sz); intro m. destruct (sz <? m + blk) eqn:E; clear - E; lia. }
  assert (Hshape : (if size r1 <? pseq (g_ring g) mod size r1 + blk
                    then (r1, ROk (pseq (g_ring g) mod size r1, size r1 - pseq (g_ring g) mod size r1, true))
                    else (r1, ROk (pseq (g_ring g) mod size r1, blk, false)))
                   = (r1, ROk (pseq (g_ring g) mod size r1, l, size r1 <? pseq (g_ring g) mod size r1 + blk)))
    by (unfold l; destruct (_ <? _); reflexivity).
  rewrite Hshape. set (p' := firstn (Z.to_nat l) p).
  assert (Hp' : Z.of_nat (length p') <= blk) by (unfold p'; rewrite firstn_length; lia).
  assert (Hif : inv sz (mkG (r_fill r1 p') (g_stream g) (g_consumed g))) by (apply (inv_fill sz g1 p' Hs Hi1); cbn; lia).
  unfold r_write_commit.
  destruct (wfs (r_fill r1 p') (Z.of_nat (length p'))) as [r2 y] eqn:Ew2.
  set (gf := mkG (r_fill r1 p') (g_stream g) (g_consumed g)) in *.
  change (r_fill r1 p') with (g_ring gf) in Ew2.
  destruct y as [start2| | | |];
    try (rewrite (wfs_other sz gf _ r2 _ Hif Ew2) by discriminate; exact Hif).
  destruct (wfs_ok sz gf (Z.of_nat (length p')) r2 start2 Hif (Zle_0_nat _) Ew2) as (-> & g'' & -> & Hg'' & Hroom2).
  cbn [size buf pseq cseq gate done gf g_ring r_fill r1] in *.
  apply (inv_commit sz g1 p' g'' Hs Hi1); cbn; assumption.
Qed.

(* the bytes at the consumer cursor are the next bytes of the stream *)
Lemma peek_slice sz g k : 0 < sz -> inv sz g -> 0 <= k -> cseq (g_ring g) + k <= pseq (g_ring g) ->
  ring_get (size (g_ring g)) (buf (g_ring g)) (cseq (g_ring g)) (Z.to_nat k) = slice (g_stream g) (cseq (g_ring g)) (Z.to_nat k).
Proof. intros Hs Hi Hk Hle. now destruct (inv_consume sz g k Hs Hi Hk Hle). Qed.

Lemma consume_inv sz g k : 0 < sz -> inv sz g -> 0 <= k -> cseq (g_ring g) + k <= pseq (g_ring g) ->
  inv sz (mkG (mkRing (size (g_ring g)) (buf (g_ring g)) (pseq (g_ring g)) (cseq (g_ring g) + k) (gate (g_ring g)) (done (g_ring g)))
              (g_stream g) (g_consumed g ++ ring_get (size (g_ring g)) (buf (g_ring g)) (cseq (g_ring g)) (Z.to_nat k))).
Proof. intros Hs Hi Hk Hle. now destruct (inv_consume sz g k Hs Hi Hk Hle). Qed.

Definition shows (g : gst) (o : option (list N)) : Prop :=
  forall l, o = Some l -> l = slice (g_stream g) (cseq (g_ring g)) (length l).

Lemma allowed_cases op : allowed op = true ->
  (exists p, op = 1%N :: p) \/ (exists p, op = 11%N :: p) \/ (exists n, op = [5%N; n]) \/ (exists n, op = [6%N; n])
  \/ (exists n, op = [7%N; n]) \/ (exists n, op = [8%N; n]) \/ op = [9%N] \/ op = [10%N]
  \/ (exists blk p, op = 12%N :: blk :: p).
Proof.
  unfold allowed. intros Ha.
  destruct op as [|c rest]; [discriminate|].
  destruct c as [|c]; [discriminate|].
  destruct c as [c|c|]; try destruct c as [c|c|]; try destruct c as [c|c|]; try destruct c as [c|c|]; try discriminate;
    try (left; eexists; reflexivity); try (right; left; eexists; reflexivity);
    destruct rest as [|n [|? ?]]; try discriminate; eauto 14.
Qed.

Lemma gstep_ok sz g op : 0 < sz -> inv sz g -> allowed op = true ->
  inv sz (fst (gstep g op)) /\ shows g (snd (gstep g op)).
Proof.
  intros Hs Hi Ha. pose proof Hi as (Hsz & Hl & Hst & Hco & H1 & H2 & Hg & Hpre & Hbuf).
  pose proof (Z.mod_pos_bound (cseq (g_ring g)) sz Hs) as Hb.
  destruct (allowed_cases op Ha) as [(p & ->)|[(p & ->)|[(n & ->)|[(n & ->)|[(n & ->)|[(n & ->)|[->|[->|(blk & p & ->)]]]]]]]];
    unfold gstep, shows.
  - (* 1: Write *) pose proof (write_inv sz g p Hs Hi) as H.
    destruct (r_write (g_ring g) p) as [r' y]. destruct y; cbn [fst snd]; (split; [exact H|discriminate]).
  - (* 11 *) pose proof (write_message_inv sz g p Hs Hi) as H.
    destruct (r_write_message (g_ring g) p) as [r' y]. destruct y; cbn [fst snd]; (split; [exact H|discriminate]).
  - (* 5: Read *) unfold r_read, rlen.
    destruct (done (g_ring g) && (pseq (g_ring g) - cseq (g_ring g) =? 0)); cbn [fst snd]; [rewrite g_eta; split; [exact Hi|discriminate]|].
    destruct (cseq (g_ring g) + Z.of_N n <? pseq (g_ring g)) eqn:E1; cbn [fst snd].
    + set (k := Z.min (Z.of_N n) (size (g_ring g) - cseq (g_ring g) mod size (g_ring g))).
      assert (Hk : 0 <= k /\ cseq (g_ring g) + k <= pseq (g_ring g)) by (unfold k; rewrite Hsz; lia).
      split; [apply consume_inv; try assumption; lia|].
      intros l Hl'. injection Hl' as <-. rewrite rg_length. apply (peek_slice sz g k); try assumption; lia.
    + destruct (cseq (g_ring g) <? pseq (g_ring g)) eqn:E2; cbn [fst snd].
      * set (k := if cseq (g_ring g) mod size (g_ring g) + (pseq (g_ring g) - cseq (g_ring g)) <? size (g_ring g)
                  then Z.min (Z.of_N n) (pseq (g_ring g) - cseq (g_ring g)) else Z.min (Z.of_N n) (size (g_ring g) - cseq (g_ring g) mod size (g_ring g))).
        assert (Hk : 0 <= k /\ cseq (g_ring g) + k <= pseq (g_ring g)) by (unfold k; rewrite Hsz; destruct (_ <? sz) eqn:E3; lia).
        split; [apply consume_inv; try assumption; lia|].
        intros l Hl'. injection Hl' as <-. rewrite rg_length. apply (peek_slice sz g k); try assumption; lia.
      * destruct (done (g_ring g)); cbn [fst snd]; rewrite g_eta; (split; [exact Hi|discriminate]).
  - (* 6: ReadPeek *) unfold r_read_peek. destruct (size (g_ring g) <? Z.of_N n); cbn [fst snd]; [split; [exact Hi|discriminate]|].
    destruct (pseq (g_ring g) <=? cseq (g_ring g)) eqn:E.
    + destruct (done (g_ring g)); cbn [fst snd]; (split; [exact Hi|discriminate]).
    + cbn [fst snd]. split; [exact Hi|]. intros l Hl'. injection Hl' as <-. rewrite rg_length.
      apply (peek_slice sz g); try assumption; destruct (Z.of_N n <=? pseq (g_ring g) - cseq (g_ring g)) eqn:E2; lia.
  - (* 7: ReadWait *) unfold r_read_wait. destruct (size (g_ring g) <? Z.of_N n); cbn [fst snd]; [split; [exact Hi|discriminate]|].
    destruct (pseq (g_ring g) <? cseq (g_ring g) + Z.of_N n) eqn:E.
    + destruct (done (g_ring g)); cbn [fst snd]; (split; [exact Hi|discriminate]).
    + cbn [fst snd]. split; [exact Hi|]. intros l Hl'. injection Hl' as <-. rewrite rg_length.
      apply (peek_slice sz g (Z.of_N n)); try assumption; lia.
  - (* 8: ReadCommit *) unfold r_read_commit. destruct (size (g_ring g) <? Z.of_N n); cbn [fst snd]; [rewrite g_eta; split; [exact Hi|discriminate]|].
    destruct (cseq (g_ring g) + Z.of_N n <=? pseq (g_ring g)) eqn:E; cbn [fst snd].
    + split; [|discriminate]. apply consume_inv; try assumption; lia.
    + rewrite g_eta. split; [exact Hi|discriminate].
  - (* 9: Close *) cbn [r_step fst snd]. split; [|discriminate]. unfold r_close. apply inv_done. exact Hi.
  - (* 10: state *) cbn [r_step fst snd]. rewrite g_eta. split; [exact Hi|discriminate].
  - (* 12: a round of ReadFrom *) pose proof (read_from_inv sz g (Z.of_N blk) p Hs Hi ltac:(lia)) as H.
    destruct (r_read_from_round (g_ring g) (Z.of_N blk) p) as [r' y]. destruct y; cbn [fst snd]; (split; [exact H|discriminate]).
Qed.

Lemma grun_inv sz : 0 < sz -> forall ops g, inv sz g -> forallb allowed ops = true -> inv sz (grun g ops).
Proof.
  intros Hs. induction ops as [|op ops IH]; intros g Hi Ha; [exact Hi|].
  cbn [forallb] in Ha. apply andb_prop in Ha as [Ha1 Ha2]. cbn [grun]. apply IH; [|exact Ha2].
  now destruct (gstep_ok sz g op Hs Hi Ha1).
Qed.

Theorem seq_fifo_holds : seq_fifo.
Proof.
  intros sz ops Hs Ha g.
  pose proof (grun_inv sz Hs ops (ginit sz) (inv_init sz Hs) Ha) as (Hsz & Hl & Hst & Hco & H1 & H2 & Hg & Hpre & Hbuf).
  fold g in Hsz, Hl, Hst, Hco, H1, H2, Hg, Hpre, Hbuf. repeat split; try assumption; lia.
Qed.

Theorem seq_shows_next_holds : seq_shows_next.
Proof.
  intros sz ops op l Hs Ha Hop g Hl.
  pose proof (grun_inv sz Hs ops (ginit sz) (inv_init sz Hs) Ha) as Hi. fold g in Hi.
  destruct (gstep_ok sz g op Hs Hi Hop) as [_ Hsh]. now apply Hsh.
Qed.

Theorem gstep_ring_holds : gstep_ring.
Proof.
  intros g op Ha Hn12.
  destruct (allowed_cases op Ha) as [(p & ->)|[(p & ->)|[(n & ->)|[(n & ->)|[(n & ->)|[(n & ->)|[->|[->|(blk & p & ->)]]]]]]]];
    [| | | | | | | |now destruct (Hn12 blk p)]; unfold gstep; cbn [r_step].
  - destruct (r_write (g_ring g) p) as [r' y]; destruct y; reflexivity.
  - destruct (r_write_message (g_ring g) p) as [r' y]; destruct y; reflexivity.
  - destruct (r_read (g_ring g) (Z.of_N n)) as [r' y]; destruct y; reflexivity.
  - destruct (r_read_peek (g_ring g) (Z.of_N n)) as [[l s]| | | |]; reflexivity.
  - destruct (r_read_wait (g_ring g) (Z.of_N n)); reflexivity.
  - destruct (r_read_commit (g_ring g) (Z.of_N n)) as [r' y]; destruct y; reflexivity.
  - reflexivity.
  - reflexivity.
Qed.

(* non-vacuity: a history that wraps, on a 16-byte ring *)
Example seq_fifo_instance :
  let g := grun (ginit 16) [1 :: [1;2;3;4;5;6;7;8;9;10;11;12]; [5; 10]; 11 :: [13;14;15;16;17;18;19;20]; [6; 20]; [8; 6]; [7; 4]]%N in
  g_consumed g = [1;2;3;4;5;6;7;8;9;10;11;12;13;14;15;16]%N /\ cseq (g_ring g) = 16 /\ pseq (g_ring g) = 20.
Proof. vm_compute. repeat split. Qed.
