(* Lock / condition-variable model of service/buffer.go (after the fix: commit): every method cut
   into atomic actions - loads and stores of the two cursors and of the done flag, mutex acquire
   and release, Cond.Wait (release + park), wake-up (re-acquire), Broadcast - for any number of
   threads.  Bytes are not modelled here (Ring/Conc.v does that); this model carries the blocking
   protocol: properties C15 and, through it, C16.

   The steps that pass a verification hook point of the real code (vpoint(bf, k)) carry that
   point's number as a label: the controlled-schedule correspondence (tie T3) replays the hook
   events recorded from the real goroutines against this model, event by event. *)
From Base Require Import Tactics Bytes.
From Gen Require Import Tables.
Open Scope Z_scope.

(* hook point numbers: service/verif_on.go *)
Definition vpLoaded := 1%N.   Definition vpPreLockC := 2%N.  Definition vpPreLockP := 3%N.
Definition vpLockedC := 4%N.  Definition vpLockedP := 5%N.   Definition vpUnlockedC := 6%N.
Definition vpUnlockedP := 7%N. Definition vpPreWaitC := 8%N. Definition vpPreWaitP := 9%N.
Definition vpWokeC := 10%N.   Definition vpWokeP := 11%N.    Definition vpStoredC := 12%N.
Definition vpStoredP := 13%N. Definition vpCopied := 14%N.   Definition vpDone := 15%N.
Definition vpBcastC := 18%N.  Definition vpBcastP := 19%N.

Inductive opk :=
| OpRead (pl : Z) | OpPeek (n : Z) | OpWaitR (n : Z) | OpCommitR (n : Z)
| OpWrite (n : Z) | OpWriteWait (n : Z) | OpWriteCommit (n : Z)
| OpClose.

(* result of a finished call: code (0 ok, 1 EOF, 2 buffer full, 3 insufficient data) and count *)
Definition result := (N * Z)%type.

Inductive pc :=
| Idle
| Returned (r : result)
(* consumer: Read *)
| R_start (pl : Z) | R_lenchk (pl : Z) | R_load (pl : Z) | R_loaded (pl cpos ppos : Z)
| R_copied (cpos n : Z) | R_store (cpos n : Z)
(* consumer: ReadPeek / ReadWait: tgt = position pseq has to reach; m = count to report *)
| K_start (peek : bool) (n : Z) | K_loaded (peek : bool) (n cpos : Z)
(* consumer: ReadCommit *)
| M_start (n : Z) | M_loaded (n cpos ppos : Z) | M_copied (cpos n : Z) | M_store (cpos n : Z)
(* after a consumer cursor store: broadcast pcond under pcond.L, then return n *)
| CB_prelock (n : Z) | CB_acq (n : Z) | CB_bcast (n : Z) | CB_unlock (n : Z)
(* consumer wait loop; k says what to do afterwards *)
| CW_prelock (k : cwk) (cpos tgt : Z) | CW_load (k : cwk) (cpos tgt : Z)
| CW_test (k : cwk) (cpos tgt ppos : Z) | CW_done (k : cwk) (cpos tgt : Z)
| CW_wait (k : cwk) (cpos tgt : Z) | CW_parked (k : cwk) (cpos tgt : Z)
| CW_unlock_ok (k : cwk) (cpos tgt ppos : Z) | CW_unlock_eof (k : cwk)
(* producer: waitForWriteSpace(n) with continuation *)
| W_start (k : pwk) (n : Z) | W_start2 (k : pwk) (n : Z) | W_load (k : pwk) (n : Z) | W_loaded (k : pwk) (n ppos : Z)
| PW_prelock (k : pwk) (n ppos : Z) | PW_load (k : pwk) (n ppos : Z)
| PW_test (k : pwk) (n ppos cpos : Z) | PW_done (k : pwk) (n ppos : Z)
| PW_wait (k : pwk) (n ppos : Z) | PW_parked (k : pwk) (n ppos : Z)
| PW_unlock_ok (k : pwk) (n ppos cpos : Z) | PW_unlock_eof
| W_after (k : pwk) (n ppos : Z) | W_copied (n ppos : Z) | W_store (n ppos : Z)
(* after a producer cursor store: broadcast ccond under ccond.L, then return n *)
| PB_prelock (n : Z) | PB_acq (n : Z) | PB_bcast (n : Z) | PB_unlock (n : Z)
(* Close *)
| X_start | X_plock | X_pacq | X_pbcast | X_punlock | X_clock | X_cacq | X_cbcast | X_cunlock
with cwk := KRead (pl : Z) | KPeek (n : Z) | KWaitR (n : Z)
with pwk := KWrite | KWriteWait | KWriteCommit.

Definition tid := nat.

Record lstate := mkL {
  l_size : Z;
  l_pseq : Z; l_cseq : Z; l_gate : Z; l_done : bool;
  l_pmu : option tid; l_cmu : option tid;           (* holders of pcond.L / ccond.L *)
  l_psig : list tid; l_csig : list tid;             (* parked threads that have been broadcast to *)
  l_pcs : list pc                                   (* program counter of thread i *)
}.

Definition get_pc (s : lstate) (t : tid) : pc := nth t (l_pcs s) Idle.
Fixpoint set_nth_pc (l : list pc) (t : nat) (p : pc) : list pc :=
  match l, t with
  | [], _ => []
  | _ :: r, O => p :: r
  | x :: r, S j => x :: set_nth_pc r j p
  end.

Definition upd (s : lstate) (t : tid) (p : pc) : lstate :=
  mkL (l_size s) (l_pseq s) (l_cseq s) (l_gate s) (l_done s) (l_pmu s) (l_cmu s) (l_psig s) (l_csig s)
      (set_nth_pc (l_pcs s) t p).
Definition with_cseq (s : lstate) (v : Z) :=
  mkL (l_size s) (l_pseq s) v (l_gate s) (l_done s) (l_pmu s) (l_cmu s) (l_psig s) (l_csig s) (l_pcs s).
Definition with_pseq (s : lstate) (v : Z) :=
  mkL (l_size s) v (l_cseq s) (l_gate s) (l_done s) (l_pmu s) (l_cmu s) (l_psig s) (l_csig s) (l_pcs s).
Definition with_gate (s : lstate) (v : Z) :=
  mkL (l_size s) (l_pseq s) (l_cseq s) v (l_done s) (l_pmu s) (l_cmu s) (l_psig s) (l_csig s) (l_pcs s).
Definition with_done (s : lstate) :=
  mkL (l_size s) (l_pseq s) (l_cseq s) (l_gate s) true (l_pmu s) (l_cmu s) (l_psig s) (l_csig s) (l_pcs s).
Definition with_pmu (s : lstate) (h : option tid) :=
  mkL (l_size s) (l_pseq s) (l_cseq s) (l_gate s) (l_done s) h (l_cmu s) (l_psig s) (l_csig s) (l_pcs s).
Definition with_cmu (s : lstate) (h : option tid) :=
  mkL (l_size s) (l_pseq s) (l_cseq s) (l_gate s) (l_done s) (l_pmu s) h (l_psig s) (l_csig s) (l_pcs s).
Definition with_psig (s : lstate) (l : list tid) :=
  mkL (l_size s) (l_pseq s) (l_cseq s) (l_gate s) (l_done s) (l_pmu s) (l_cmu s) l (l_csig s) (l_pcs s).
Definition with_csig (s : lstate) (l : list tid) :=
  mkL (l_size s) (l_pseq s) (l_cseq s) (l_gate s) (l_done s) (l_pmu s) (l_cmu s) (l_psig s) l (l_pcs s).

Definition is_free (h : option tid) : bool := match h with None => true | Some _ => false end.
Definition mem_t (t : tid) (l : list tid) : bool := existsb (Nat.eqb t) l.
Definition rem_t (t : tid) (l : list tid) : list tid := filter (fun x => negb (Nat.eqb t x)) l.

(* threads parked on the consumer / producer condition *)
Definition parked_c (p : pc) : bool := match p with CW_parked _ _ _ => true | _ => false end.
Definition parked_p (p : pc) : bool := match p with PW_parked _ _ _ => true | _ => false end.
Fixpoint parked_ids (f : pc -> bool) (l : list pc) (i : nat) : list tid :=
  match l with
  | [] => []
  | p :: r => (if f p then [i] else []) ++ parked_ids f r (S i)
  end.

(* Read's copy count (bytes are not modelled, the count is) *)
Definition read_count (size pl cpos ppos : Z) : Z :=
  let cindex := cpos mod size in
  if cpos + pl <? ppos then Z.min pl (size - cindex)
  else let b := ppos - cpos in
       if cindex + b <? size then Z.min pl b else Z.min pl (size - cindex).

Definition cw_tgt (k : cwk) (cpos : Z) : Z :=
  match k with KRead _ => cpos + 1 | KPeek _ => cpos + 1 | KWaitR n => cpos + n end.

(* Cond.Wait: register as waiter (a stale signal does not count), release the mutex, park *)
Definition go_park_c (s : lstate) (t : tid) (k : cwk) (cpos tgt : Z) : option (lstate * option N) :=
  Some (upd (with_cmu (with_csig s (rem_t t (l_csig s))) None) t (CW_parked k cpos tgt), None).
Definition go_park_p (s : lstate) (t : tid) (k : pwk) (n ppos : Z) : option (lstate * option N) :=
  Some (upd (with_pmu (with_psig s (rem_t t (l_psig s))) None) t (PW_parked k n ppos), None).

(* one atomic action of thread t: new state and the hook point passed, if any.
   None = the thread cannot move now (idle, waiting for a mutex, parked). *)
Definition fstep (s : lstate) (t : tid) : option (lstate * option N) :=
  let go p := Some (upd s t p, None) in
  let lab p k := Some (upd s t p, Some k) in
  match get_pc s t with
  | Idle | Returned _ => None
  (* ---- Read ---- *)
  | R_start pl => if l_done s then go (R_lenchk pl) else go (R_load pl)
  | R_lenchk pl => if l_pseq s - l_cseq s =? 0 then go (Returned (1%N, 0)) else go (R_load pl)
  | R_load pl => lab (R_loaded pl (l_cseq s) (l_pseq s)) vpLoaded
  | R_loaded pl cpos ppos =>
      if cpos <? ppos then lab (R_copied cpos (read_count (l_size s) pl cpos ppos)) vpCopied
      else lab (CW_prelock (KRead pl) cpos (cpos + 1)) vpPreLockC
  | R_copied cpos n => Some (upd (with_cseq s (cpos + n)) t (R_store cpos n), Some vpStoredC)
  | R_store cpos n => lab (CB_prelock n) vpPreLockP
  (* ---- ReadPeek / ReadWait ---- *)
  | K_start peek n =>
      if l_size s <? n then go (Returned (2%N, 0)) else lab (K_loaded peek n (l_cseq s)) vpLoaded
  | K_loaded peek n cpos =>
      lab (CW_prelock (if peek then KPeek n else KWaitR n) cpos (if peek then cpos + 1 else cpos + n)) vpPreLockC
  (* ---- ReadCommit ---- *)
  | M_start n => if l_size s <? n then go (Returned (2%N, 0)) else lab (M_loaded n (l_cseq s) (l_pseq s)) vpLoaded
  | M_loaded n cpos ppos => if cpos + n <=? ppos then lab (M_copied cpos n) vpCopied else go (Returned (3%N, 0))
  | M_copied cpos n => Some (upd (with_cseq s (cpos + n)) t (M_store cpos n), Some vpStoredC)
  | M_store cpos n => lab (CB_prelock n) vpPreLockP
  (* ---- broadcast pcond after a consumer store ---- *)
  | CB_prelock n => if is_free (l_pmu s) then Some (upd (with_pmu s (Some t)) t (CB_acq n), Some vpLockedP) else None
  | CB_acq n => Some (upd (with_psig s (parked_ids parked_p (l_pcs s) 0)) t (CB_bcast n), Some vpBcastP)
  | CB_bcast n => Some (upd (with_pmu s None) t (CB_unlock n), Some vpUnlockedP)
  | CB_unlock n => go (Returned (0%N, n))
  (* ---- consumer wait loop ---- *)
  | CW_prelock k cpos tgt => if is_free (l_cmu s) then Some (upd (with_cmu s (Some t)) t (CW_load k cpos tgt), Some vpLockedC) else None
  | CW_load k cpos tgt => go (CW_test k cpos tgt (l_pseq s))
  | CW_test k cpos tgt ppos => if tgt <=? ppos then go (CW_unlock_ok k cpos tgt ppos) else go (CW_done k cpos tgt)
  | CW_done k cpos tgt => if l_done s then go (CW_unlock_eof k) else lab (CW_wait k cpos tgt) vpPreWaitC
  | CW_wait k cpos tgt => go_park_c s t k cpos tgt
  | CW_parked k cpos tgt =>
      if mem_t t (l_csig s) && is_free (l_cmu s)
      then Some (upd (with_cmu (with_csig s (rem_t t (l_csig s))) (Some t)) t (CW_load k cpos tgt), Some vpWokeC)
      else None
  | CW_unlock_ok k cpos tgt ppos =>
      let s' := with_cmu s None in
      match k with
      | KRead pl => Some (upd s' t (R_load pl), Some vpUnlockedC)
      | KPeek n => Some (upd s' t (Returned (if n <=? ppos - cpos then 0%N else 3%N, Z.min n (ppos - cpos))), Some vpUnlockedC)
      | KWaitR n => Some (upd s' t (Returned (0%N, n)), Some vpUnlockedC)
      end
  | CW_unlock_eof k => Some (upd (with_cmu s None) t (Returned (1%N, 0)), Some vpUnlockedC)
  (* ---- producer: waitForWriteSpace ---- *)
  | W_start k n =>
      if l_done s then go (Returned (1%N, 0))
      else match k with KWrite => go (W_start2 k n) | _ => go (W_load k n) end
  | W_start2 k n => if l_done s then go (Returned (1%N, 0)) else go (W_load k n)
  | W_load k n => lab (W_loaded k n (l_pseq s)) vpLoaded
  | W_loaded k n ppos =>
      let wrap := ppos + n - l_size s in
      if (l_gate s <? wrap) || (ppos <? l_gate s) then lab (PW_prelock k n ppos) vpPreLockP
      else go (W_after k n ppos)
  | PW_prelock k n ppos => if is_free (l_pmu s) then Some (upd (with_pmu s (Some t)) t (PW_load k n ppos), Some vpLockedP) else None
  | PW_load k n ppos => go (PW_test k n ppos (l_cseq s))
  | PW_test k n ppos cpos =>
      if ppos + n - l_size s <=? cpos then go (PW_unlock_ok k n ppos cpos) else go (PW_done k n ppos)
  | PW_done k n ppos => if l_done s then go PW_unlock_eof else lab (PW_wait k n ppos) vpPreWaitP
  | PW_wait k n ppos => go_park_p s t k n ppos
  | PW_parked k n ppos =>
      if mem_t t (l_psig s) && is_free (l_pmu s)
      then Some (upd (with_pmu (with_psig s (rem_t t (l_psig s))) (Some t)) t (PW_load k n ppos), Some vpWokeP)
      else None
  | PW_unlock_ok k n ppos cpos => Some (upd (with_pmu (with_gate s cpos) None) t (W_after k n ppos), Some vpUnlockedP)
  | PW_unlock_eof => Some (upd (with_pmu s None) t (Returned (1%N, 0)), Some vpUnlockedP)
  | W_after k n ppos =>
      match k with
      | KWriteWait => go (Returned (0%N, n))
      | _ => lab (W_copied n ppos) vpCopied
      end
  | W_copied n ppos => Some (upd (with_pseq s (ppos + n)) t (W_store n ppos), Some vpStoredP)
  | W_store n ppos => lab (PB_prelock n) vpPreLockC
  (* ---- broadcast ccond after a producer store ---- *)
  | PB_prelock n => if is_free (l_cmu s) then Some (upd (with_cmu s (Some t)) t (PB_acq n), Some vpLockedC) else None
  | PB_acq n => Some (upd (with_csig s (parked_ids parked_c (l_pcs s) 0)) t (PB_bcast n), Some vpBcastC)
  | PB_bcast n => Some (upd (with_cmu s None) t (PB_unlock n), Some vpUnlockedC)
  | PB_unlock n => go (Returned (0%N, n))
  (* ---- Close ---- *)
  | X_start => Some (upd (with_done s) t X_plock, Some vpDone)
  | X_plock => lab X_pacq vpPreLockP
  | X_pacq => if is_free (l_pmu s) then Some (upd (with_pmu s (Some t)) t X_pbcast, Some vpLockedP) else None
  | X_pbcast => Some (upd (with_psig s (parked_ids parked_p (l_pcs s) 0)) t X_punlock, Some vpBcastP)
  | X_punlock => Some (upd (with_pmu s None) t X_clock, Some vpUnlockedP)
  | X_clock => lab X_cacq vpPreLockC
  | X_cacq => if is_free (l_cmu s) then Some (upd (with_cmu s (Some t)) t X_cbcast, Some vpLockedC) else None
  | X_cbcast => Some (upd (with_csig s (parked_ids parked_c (l_pcs s) 0)) t X_cunlock, Some vpBcastC)
  | X_cunlock => Some (upd (with_cmu s None) t (Returned (0%N, 0)), Some vpUnlockedC)
  end.
