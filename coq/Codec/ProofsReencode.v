(* C03: re-encoding what a decoder accepted reproduces the bytes of the packet.  A decoded
   message is not dirty, so Len and Encode answer from the decode buffer, which the
   decoder specifications (ProofsTotal.v) identify with the packet at the start of src. *)
From Base Require Import Tactics Bytes.
From Gen Require Import Tables.
From Codec Require Import Wire Impl Statements ProofsHeader ProofsTotal.
Open Scope N_scope.

Lemma reencode_pub : C03_reencode_pub.
Proof.
  intros src m n c H.
  pose proof (dec_spec_ok _ _ _ _ _ (pub_decode_spec pub_new src) H) as (P & N1 & _).
  destruct P as (P1 & P2 & P3 & P4).
  unfold pub_len. rewrite P1. cbn [negb].
  split; [exact N1|]. split; [exact P4|].
  unfold pub_encode. rewrite P1. cbn [negb]. rewrite Nat.ltb_irrefl.
  rewrite <- P3. reflexivity.
Qed.

Lemma reencode_ack : C03_reencode_ack.
Proof.
  intros ty src h n H.
  pose proof (dec_spec_ok _ _ _ _ _ (ack_decode_spec (ack_new ty) src) H) as (P & N1 & _).
  destruct P as (P1 & P2 & P3 & P4).
  unfold ack_len. rewrite P1. cbn [negb].
  split; [exact N1|]. split; [exact P4|].
  unfold ack_encode. rewrite P1. cbn [negb]. rewrite Nat.ltb_irrefl.
  rewrite <- P3. reflexivity.
Qed.

Lemma reencode_empty : C03_reencode_empty.
Proof.
  intros ty src h n H.
  pose proof (dec_spec_ok _ _ _ _ _ (empty_decode_spec (empty_new ty) src) H) as (P & N1 & _).
  destruct P as (P1 & P2 & P3 & P4).
  unfold empty_len. rewrite P1. cbn [negb].
  split; [exact N1|]. split; [lia|].
  unfold empty_encode. rewrite P1. cbn [negb]. rewrite N1, Nat.ltb_irrefl.
  rewrite <- P3. reflexivity.
Qed.

Lemma reencode_connack : C03_reencode_connack.
Proof.
  intros src m n H.
  pose proof (dec_spec_ok _ _ _ _ _ (connack_decode_spec connack_new src) H) as (P & N1).
  destruct P as (P1 & P2 & P3 & P4).
  unfold connack_len. rewrite P1. cbn [negb].
  split; [exact N1|]. split; [exact P4|].
  unfold connack_encode. rewrite P1. cbn [negb]. rewrite Nat.ltb_irrefl.
  rewrite <- P3. reflexivity.
Qed.

Lemma reencode_suback : C03_reencode_suback.
Proof.
  intros src m n H.
  pose proof (dec_spec_ok _ _ _ _ _ (suback_decode_spec suback_new src) H) as (P & N1 & _).
  destruct P as (P1 & P2 & P3 & P4).
  unfold suback_len. rewrite P1. cbn [negb].
  split; [exact N1|]. split; [exact P4|].
  unfold suback_encode. rewrite P1. cbn [negb]. rewrite Nat.ltb_irrefl.
  rewrite <- P3. reflexivity.
Qed.

Lemma reencode_sub : C03_reencode_sub.
Proof.
  intros src m n c H.
  pose proof (dec_spec_ok _ _ _ _ _ (sub_decode_spec sub_new src) H) as (P & N1 & _).
  destruct P as (P1 & P2 & P3 & P4).
  unfold sub_len. rewrite P1. cbn [negb].
  split; [exact N1|]. split; [exact P4|].
  unfold sub_encode. rewrite P1. cbn [negb]. rewrite Nat.ltb_irrefl.
  rewrite <- P3. reflexivity.
Qed.

Lemma reencode_unsub : C03_reencode_unsub.
Proof.
  intros src m n c H.
  pose proof (dec_spec_ok _ _ _ _ _ (unsub_decode_spec unsub_new src) H) as (P & N1 & _).
  destruct P as (P1 & P2 & P3 & P4).
  unfold unsub_len. rewrite P1. cbn [negb].
  split; [exact N1|]. split; [exact P4|].
  unfold unsub_encode. rewrite P1. cbn [negb]. rewrite Nat.ltb_irrefl.
  rewrite <- P3. reflexivity.
Qed.

Lemma reencode_conn : C03_reencode_conn.
Proof.
  intros src m n H.
  pose proof (dec_spec_ok _ _ _ _ _ (conn_decode_spec conn_new src) H) as (P & _).
  destruct P as (P1 & P2 & P3 & P4).
  unfold conn_len. rewrite P1. cbn [negb].
  split; [exact P2|]. split; [exact P4|].
  unfold conn_encode. rewrite P1. cbn [negb]. rewrite Nat.ltb_irrefl.
  rewrite <- P3. reflexivity.
Qed.

Print Assumptions reencode_pub.
Print Assumptions reencode_ack.
Print Assumptions reencode_empty.
Print Assumptions reencode_connack.
Print Assumptions reencode_suback.
Print Assumptions reencode_sub.
Print Assumptions reencode_unsub.
Print Assumptions reencode_conn.
