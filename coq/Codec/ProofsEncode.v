(* C03: Encode writes exactly Len() bytes and they are the wire encoding of the packet the
   message stands for. *)
From Base Require Import Tactics Bytes.
From Gen Require Import Tables.
From Codec Require Import Wire Impl Statements ProofsIds ProofsHeader.
Open Scope N_scope.

(* ---------- setters on headers ---------- *)

Lemma set_pid_tf h v : tf (set_pid h v) = tf h.
Proof. unfold set_pid. destruct (v =? 0); [reflexivity|]. destruct (pid h); reflexivity. Qed.

Lemma set_pid_remlen h v : remlen (set_pid h v) = remlen h.
Proof. unfold set_pid. destruct (v =? 0); [reflexivity|]. destruct (pid h); reflexivity. Qed.

Lemma set_pid_dirty h v : dirty h = true -> dirty (set_pid h v) = true.
Proof.
  intros H. unfold set_pid. destruct (v =? 0); [exact H|]. destruct (pid h); [exact H|reflexivity].
Qed.

Lemma set_pid_packet_id h v : packet_id (set_pid h v) = if v =? 0 then packet_id h else v.
Proof.
  unfold set_pid. destruct (v =? 0); [reflexivity|]. destruct (pid h); reflexivity.
Qed.

Lemma set_remlen_ok h r : r <= maxRemainingLength ->
  set_remlen h r = Some (mkHdr r (tf h) (pid h) (dbuf h) true (hal h) (pal h)).
Proof.
  intros H. unfold set_remlen. destruct (maxRemainingLength <? r) eqn:E; [lia|reflexivity].
Qed.

Lemma hdr_msglen_of_2 : hdr_msglen_of 2 = 2%nat.
Proof. reflexivity. Qed.

Lemma hdr_msglen_of_0 : hdr_msglen_of 0 = 2%nat.
Proof. reflexivity. Qed.

(* invariant of an id-carrying header built through the API *)
Definition hdr_inv (ty : N) (h : hdr) : Prop :=
  tf h = ty * 16 + default_flags ty /\ dirty h = true /\ packet_id h < 65536.

Lemma hdr_inv_new ty : hdr_inv ty (new_hdr ty).
Proof.
  unfold hdr_inv. split; [apply new_hdr_tf|]. split; [reflexivity|].
  unfold new_hdr, packet_id. cbn [pid]. lia.
Qed.

Lemma hdr_inv_set_pid ty h v : hdr_inv ty h -> u16 v -> hdr_inv ty (set_pid h v).
Proof.
  unfold hdr_inv, u16. intros (H1 & H2 & H3) HV.
  rewrite set_pid_tf, set_pid_packet_id. split; [exact H1|]. split; [apply set_pid_dirty; exact H2|].
  destruct (v =? 0); assumption.
Qed.

Lemma hdr_inv_remlen ty h r : hdr_inv ty h ->
  hdr_inv ty (mkHdr r (tf h) (pid h) (dbuf h) true (hal h) (pal h)).
Proof. unfold hdr_inv, packet_id. cbn [tf dirty pid]. intros (H1 & H2 & H3). repeat split; assumption. Qed.

Lemma hdr_inv_type ty h : hdr_inv ty h -> h_type h = ty.
Proof.
  intros (H1 & _). unfold h_type. rewrite H1. apply div16. apply default_flags_lt16.
Qed.

(* ---------- ack ---------- *)

Lemma built_ack_inv h : built_ack h -> exists ty, is_ack_type ty = true /\ hdr_inv ty h.
Proof.
  induction 1 as [ty HT|h v B [ty [HT I]] HV|h B [ty [HT I]]].
  - exists ty. split; [exact HT|apply hdr_inv_new].
  - exists ty. split; [exact HT|apply hdr_inv_set_pid; assumption].
  - exists ty. split; [exact HT|].
    unfold ack_len. destruct I as (I1 & I2 & I3). rewrite I2. cbn [negb].
    rewrite set_remlen_ok by exact max_ge_2.
    cbn [fst]. apply hdr_inv_remlen. repeat split; assumption.
Qed.

Lemma encode_ack : C03_encode_ack.
Proof.
  intros h dl B. destruct (built_ack_inv h B) as [ty [HT I]].
  pose proof (hdr_inv_type _ _ I) as TY.
  destruct I as (I1 & I2 & I3).
  pose proof (ack_type_cases ty HT) as TC.
  pose proof (default_flags_lt16 ty) as FL.
  unfold ack_len. rewrite I2. cbn [negb].
  rewrite set_remlen_ok by exact max_ge_2.
  unfold hdr_msglen. cbn [remlen]. rewrite ?hdr_msglen_of_2.
  unfold abs_ack. rewrite TY. cbn [wire].
  split; [reflexivity|].
  intros HL. unfold ack_encode. cbn [dirty negb].
  unfold hdr_msglen. cbn [remlen]. rewrite ?hdr_msglen_of_2.
  destruct (dl <? 2 + 2)%nat eqn:E1; [lia|].
  rewrite set_remlen_ok by exact max_ge_2. cbn [tf pid dbuf hal pal].
  rewrite hdr_encode_ok.
  2: { unfold hdr_msglen. cbn [remlen]. rewrite hdr_msglen_of_2. lia. }
  2: { cbn [remlen]. exact max_ge_2. }
  2: { unfold h_type. cbn [tf]. fold (h_type h). rewrite TY. apply type_valid_iff. lia. }
  cbn [bind tf remlen].
  eexists. split.
  - unfold packet_id at 1. cbn [pid]. fold (packet_id h). rewrite I1. reflexivity.
  - unfold h_type, packet_id. cbn [tf pid]. rewrite ?I1. rewrite div16 by exact FL. reflexivity.
Qed.

(* ---------- empty ---------- *)

Lemma encode_empty : C03_encode_empty.
Proof.
  intros ty dl HT h. subst h.
  pose proof (empty_type_cases ty HT) as TC.
  pose proof (default_flags_lt16 ty) as FL.
  unfold empty_len, empty_new, abs_empty. rewrite new_hdr_type.
  change (dirty (new_hdr ty)) with true. cbn [negb wire].
  unfold hdr_msglen. change (remlen (new_hdr ty)) with 0. rewrite hdr_msglen_of_0.
  split; [reflexivity|].
  intros HL. unfold empty_encode. change (dirty (new_hdr ty)) with true. cbn [negb].
  rewrite hdr_encode_ok.
  2: { unfold hdr_msglen. change (remlen (new_hdr ty)) with 0. rewrite hdr_msglen_of_0. exact HL. }
  2: { change (remlen (new_hdr ty)) with 0. lia. }
  2: { rewrite new_hdr_type. apply type_valid_iff. lia. }
  rewrite new_hdr_tf. reflexivity.
Qed.

(* ---------- connack ---------- *)

Lemma built_connack_inv m : built_connack m -> hdr_inv T_CONNACK (k_h m).
Proof.
  induction 1 as [|m v B I|m v B I HV|m B I].
  - apply hdr_inv_new.
  - cbn [connack_set_sp k_h]. unfold h_dirty. apply hdr_inv_remlen. exact I.
  - cbn [connack_set_code k_h]. unfold h_dirty. apply hdr_inv_remlen. exact I.
  - unfold connack_len. destruct I as (I1 & I2 & I3). rewrite I2. cbn [negb].
    rewrite set_remlen_ok by exact max_ge_2.
    cbn [fst k_h]. apply hdr_inv_remlen. repeat split; assumption.
Qed.

Lemma encode_connack : C03_encode_connack.
Proof.
  intros m dl B OK. pose proof (built_connack_inv m B) as I.
  pose proof (hdr_inv_type _ _ I) as TY.
  destruct I as (I1 & I2 & I3).
  cbn [abs_connack packet_ok] in OK.
  unfold connack_len. rewrite I2. cbn [negb].
  rewrite set_remlen_ok by exact max_ge_2.
  unfold hdr_msglen. cbn [remlen]. rewrite ?hdr_msglen_of_2.
  unfold abs_connack. cbn [wire].
  split; [reflexivity|].
  intros HL. unfold connack_encode. cbn [k_h k_sp k_code dirty negb].
  unfold hdr_msglen. cbn [remlen]. rewrite ?hdr_msglen_of_2.
  destruct (dl <? 2 + 2)%nat eqn:E1; [lia|].
  rewrite set_remlen_ok by exact max_ge_2. cbn [tf pid dbuf hal pal].
  rewrite hdr_encode_ok.
  2: { unfold hdr_msglen. cbn [remlen]. rewrite hdr_msglen_of_2. lia. }
  2: { cbn [remlen]. exact max_ge_2. }
  2: { unfold h_type. cbn [tf]. fold (h_type (k_h m)). rewrite TY. reflexivity. }
  cbn [bind tf remlen].
  destruct (connack_max_code <? k_code m) eqn:E2; [lia|].
  eexists. split.
  - rewrite I1. reflexivity.
  - reflexivity.
Qed.

(* ---------- suback ---------- *)

Lemma built_suback_inv m : built_suback m -> hdr_inv T_SUBACK (sa_h m).
Proof.
  induction 1 as [|m cs B I HC|m v B I HV|m B I].
  - apply hdr_inv_new.
  - unfold suback_add_codes. destruct (add_codes (sa_codes m) cs) as [cs' ok].
    cbn [fst sa_h]. destruct ok; [|exact I].
    unfold h_dirty. apply hdr_inv_remlen. exact I.
  - cbn [suback_set_pid sa_h]. apply hdr_inv_set_pid; assumption.
  - unfold suback_len. destruct I as (I1 & I2 & I3). rewrite I2. cbn [negb].
    unfold set_remlen. destruct (maxRemainingLength <? suback_msglen m).
    + cbn [fst]. repeat split; assumption.
    + cbn [fst sa_h]. apply hdr_inv_remlen. repeat split; assumption.
Qed.

Lemma encode_suback : C03_encode_suback.
Proof.
  intros m dl B OK. pose proof (built_suback_inv m B) as I.
  pose proof (hdr_inv_type _ _ I) as TY.
  destruct I as (I1 & I2 & I3).
  cbn [abs_suback packet_ok] in OK.
  apply andb_true_iff in OK as [OK HBL]. apply body_len_ok_le in HBL.
  apply andb_true_iff in OK as [HP HC].
  assert (HC' : forallb code_ok (sa_codes m) = true) by exact HC.
  assert (ML : 2 + len (sa_codes m) = len (be16 (packet_id (sa_h m)) ++ sa_codes m)).
  { rewrite len_app. reflexivity. }
  remember (be16 (packet_id (sa_h m)) ++ sa_codes m) as body eqn:Ebody.
  unfold suback_len, suback_encode, suback_msglen, hdr_msglen. rewrite I2. cbn [negb].
  rewrite ML.
  rewrite set_remlen_ok by exact HBL.
  cbn [sa_h sa_codes dirty negb remlen].
  rewrite HC', ML. cbn [negb].
  rewrite set_remlen_ok by exact HBL.
  cbn [tf pid dbuf hal pal].
  unfold abs_suback. cbn [wire]. change (default_flags T_SUBACK) with 0. rewrite <- Ebody.
  rewrite fixed_length. rewrite hdr_msglen_of_varint by exact HBL.
  rewrite to_nat_len.
  split; [reflexivity|].
  intros HL.
  match goal with |- context [if ?c then Err 0 0 else _] => destruct c eqn:E1 end; [lia|].
  rewrite hdr_encode_ok.
  2: { unfold hdr_msglen. cbn [remlen]. rewrite hdr_msglen_of_varint by exact HBL. lia. }
  2: { cbn [remlen]. exact HBL. }
  2: { unfold h_type. cbn [tf]. fold (h_type (sa_h m)). rewrite TY. reflexivity. }
  cbn [bind tf remlen].
  eexists. split.
  - unfold packet_id at 1. cbn [pid]. fold (packet_id (sa_h m)). rewrite I1, Ebody. reflexivity.
  - unfold packet_id. cbn [sa_h sa_codes pid]. reflexivity.
Qed.

(* ---------- publish ---------- *)

Lemma tf_range_forall (P : N -> bool) :
  forallb P (map N.of_nat (seq 48 16)) = true -> forall t, 48 <= t < 64 -> P t = true.
Proof.
  intros H t Ht. rewrite forallb_forall in H. apply H. apply in_map_iff.
  exists (N.to_nat t). split; [lia|apply in_seq; lia].
Qed.

Definition in_pub_range (t : N) : bool := (48 <=? t) && (t <? 64).

Lemma pub_tf_setters t : 48 <= t < 64 ->
  in_pub_range (N.lor t 8) && in_pub_range (N.land t 247) &&
  in_pub_range (N.lor t 1) && in_pub_range (N.land t 254) &&
  in_pub_range (N.lor (N.land t 249) (0 * 2)) && in_pub_range (N.lor (N.land t 249) (1 * 2)) &&
  in_pub_range (N.lor (N.land t 249) (2 * 2)) = true.
Proof.
  apply (tf_range_forall (fun t =>
    in_pub_range (N.lor t 8) && in_pub_range (N.land t 247) &&
    in_pub_range (N.lor t 1) && in_pub_range (N.land t 254) &&
    in_pub_range (N.lor (N.land t 249) (0 * 2)) && in_pub_range (N.lor (N.land t 249) (1 * 2)) &&
    in_pub_range (N.lor (N.land t 249) (2 * 2)))).
  vm_compute. reflexivity.
Qed.

Lemma pub_tf_decomp t : 48 <= t < 64 ->
  t = T_PUBLISH * 16 + (b2n (N.testbit t 3) * 8 + publish_qos_of_flags (t mod 16) * 2 + b2n (N.testbit t 0)).
Proof.
  intros H. apply N.eqb_eq. revert t H.
  apply (tf_range_forall (fun t =>
    t =? T_PUBLISH * 16 + (b2n (N.testbit t 3) * 8 + publish_qos_of_flags (t mod 16) * 2 + b2n (N.testbit t 0)))).
  vm_compute. reflexivity.
Qed.

Definition pub_inv (m : pubmsg) : Prop := dirty (p_h m) = true /\ 48 <= tf (p_h m) < 64.

Lemma in_pub_range_iff t : in_pub_range t = true <-> 48 <= t < 64.
Proof. unfold in_pub_range. lia. Qed.

Lemma built_pub_inv m : built_pub m -> pub_inv m.
Proof.
  induction 1 as [|m v B [ID IT]|m v B [ID IT]|m v m' B [ID IT] E|m t m' B [ID IT] HB E
                 |m t B [ID IT] HB|m v B [ID IT] HV|m B [ID IT]]; unfold pub_inv.
  - split; [reflexivity|]. change (tf (p_h pub_new)) with 48. lia.
  - pose proof (pub_tf_setters _ IT) as S. do 6 (apply andb_true_iff in S as [S ?]).
    unfold pub_set_dup. cbn [with_h p_h set_tf dirty tf]. split; [exact ID|].
    destruct v; cbv beta iota; apply in_pub_range_iff; assumption.
  - pose proof (pub_tf_setters _ IT) as S. do 6 (apply andb_true_iff in S as [S ?]).
    unfold pub_set_retain. cbn [with_h p_h set_tf dirty tf]. split; [exact ID|].
    destruct v; cbv beta iota; apply in_pub_range_iff; assumption.
  - pose proof (pub_tf_setters _ IT) as S. do 6 (apply andb_true_iff in S as [S ?]).
    unfold pub_set_qos in E. destruct (negb (v <? 3)) eqn:EV; [discriminate E|]. inv E.
    assert (C : v = 0 \/ v = 1 \/ v = 2) by lia.
    destruct (Bool.eqb (0 <? pub_qos m) (0 <? v)); cbn [with_h p_h h_dirty set_tf dirty tf];
      (split; [try exact ID; try reflexivity|]);
      destruct C as [ -> | [ -> | -> ] ]; apply in_pub_range_iff; assumption.
  - unfold pub_set_topic in E. destruct (valid_topic t); [|discriminate E]. inv E.
    cbn [p_h h_dirty dirty tf]. split; [reflexivity|exact IT].
  - unfold pub_set_payload. cbn [p_h h_dirty dirty tf]. split; [reflexivity|exact IT].
  - unfold pub_set_pid. cbn [with_h p_h]. rewrite set_pid_tf. split; [apply set_pid_dirty; exact ID|exact IT].
  - unfold pub_len. rewrite ID. cbn [negb]. unfold set_remlen.
    destruct (maxRemainingLength <? pub_msglen m); cbn [fst]; [split; assumption|].
    cbn [with_h p_h dirty tf]. split; [reflexivity|exact IT].
Qed.

Lemma pub_qos_with_h m h' : tf h' = tf (p_h m) -> pub_qos (with_h m h') = pub_qos m.
Proof. unfold pub_qos, h_flags. cbn [with_h p_h]. intros ->. reflexivity. Qed.

Lemma pub_msglen_with_h m h' : tf h' = tf (p_h m) -> pub_msglen (with_h m h') = pub_msglen m.
Proof.
  intros H. unfold pub_msglen. rewrite (pub_qos_with_h m h' H). reflexivity.
Qed.

Lemma abs_pub_with_h m h' : tf h' = tf (p_h m) ->
  abs_pub (with_h m h') =
  PPublish (pub_dup m) (pub_qos m) (pub_retain m) (p_topic m)
           (if pub_qos m =? 0 then 0 else packet_id h') (p_payload m).
Proof.
  intros H. unfold abs_pub, pub_dup, pub_qos, pub_retain, h_flags.
  cbn [with_h p_h p_topic p_payload]. rewrite H. reflexivity.
Qed.

Lemma auto_id_facts c : auto_id c <> 0 /\ auto_id c < 65536.
Proof. destruct (packet_ids c) as (H1 & H2 & _). split; assumption. Qed.

Lemma encode_pub : C03_encode_pub.
Proof.
  intros m c dl B OK. destruct (built_pub_inv m B) as [ID IT].
  pose proof (pub_tf_decomp _ IT) as DEC.
  unfold abs_pub_c in *. cbn [packet_ok wire] in *.
  remember (pub_qos m) as q eqn:Eq.
  remember (if q =? 0 then 0 else pid_or_auto (p_h m) c) as pidv eqn:Epidv.
  remember (if q =? 0 then [] else be16 pidv) as pidb eqn:Epidb.
  remember (lp (p_topic m) ++ pidb ++ p_payload m) as body eqn:Ebody.
  apply andb_true_iff in OK as [OK HBL]. apply body_len_ok_le in HBL.
  apply andb_true_iff in OK as [OK HQ2].
  apply andb_true_iff in OK as [OK HQ1].
  apply andb_true_iff in OK as [OK HPID]. apply N.ltb_lt in HPID.
  apply andb_true_iff in OK as [OK HPAY].
  apply andb_true_iff in OK as [OK HVT].
  apply andb_true_iff in OK as [HQ HSO]. apply N.ltb_lt in HQ.
  pose proof (str_ok_le _ HSO) as HTL.
  assert (ML : pub_msglen m = len body).
  { unfold pub_msglen. rewrite <- Eq, Ebody, Epidb, !len_app, len_lp.
    destruct (q =? 0); [rewrite len_nil|rewrite len_be16]; lia. }
  assert (TY : type_valid (h_type (p_h m)) = true).
  { unfold h_type. apply type_valid_iff. lia. }
  unfold pub_len. rewrite ID. cbn [negb]. rewrite ML.
  rewrite set_remlen_ok by exact HBL.
  set (h1 := {| remlen := len body; tf := tf (p_h m); pid := pid (p_h m); dbuf := dbuf (p_h m);
               dirty := true; hal := hal (p_h m); pal := pal (p_h m) |}).
  assert (HM1 : hdr_msglen h1 = S (length (varint (len body)))).
  { unfold hdr_msglen, h1. cbn [remlen]. apply hdr_msglen_of_varint. exact HBL. }
  rewrite HM1, to_nat_len, fixed_length.
  split; [reflexivity|].
  intros HL. unfold pub_encode.
  cbn [with_h p_h p_topic p_payload].
  change (dirty h1) with true. cbn [negb].
  destruct (len (p_topic m) =? 0) eqn:ET.
  { unfold valid_topic in HVT. rewrite ET in HVT. discriminate HVT. }
  rewrite (pub_msglen_with_h m h1 eq_refl), ML.
  rewrite set_remlen_ok by exact HBL.
  change {| remlen := len body; tf := tf h1; pid := pid h1; dbuf := dbuf h1; dirty := true;
            hal := hal h1; pal := pal h1 |} with h1.
  rewrite HM1, to_nat_len.
  match goal with |- context [if ?c then Err 0 0 else _] => destruct c eqn:E1 end; [lia|].
  rewrite hdr_encode_ok; [|rewrite HM1; lia|exact HBL|exact TY].
  cbn [bind].
  unfold write_lp. destruct (maxLPString <? len (p_topic m)) eqn:E2; [lia|].
  rewrite (pub_qos_with_h m h1 eq_refl), <- Eq.
  change (tf h1) with (tf (p_h m)). change (remlen h1) with (len body).
  assert (TFE : tf (p_h m) = T_PUBLISH * 16 + (b2n (pub_dup m) * 8 + q * 2 + b2n (pub_retain m))).
  { rewrite Eq. exact DEC. }
  destruct (q =? 0) eqn:EQ.
  - subst pidb. eexists. split.
    + unfold fixed. rewrite <- TFE, Ebody. reflexivity.
    + etransitivity; [apply (abs_pub_with_h m h1 eq_refl)|].
      rewrite <- Eq, EQ, Epidv. reflexivity.
  - change (packet_id h1) with (packet_id (p_h m)).
    unfold pid_or_auto, counter_after in *.
    destruct (packet_id (p_h m) =? 0) eqn:EP.
    + destruct (auto_id_facts c) as [A1 A2].
      unfold auto_id in *.
      destruct (next_pid c) as [c' id] eqn:ENP. cbn [fst snd] in *.
      rewrite set_pid_packet_id.
      destruct (id =? 0) eqn:EI; [lia|].
      subst pidb pidv. eexists. split.
      * unfold fixed. rewrite <- TFE, Ebody. reflexivity.
      * etransitivity; [apply (abs_pub_with_h m (set_pid h1 id)); exact (set_pid_tf h1 id)|].
        rewrite set_pid_packet_id, EI, <- Eq, EQ. reflexivity.
    + subst pidb pidv. eexists. split.
      * unfold fixed. rewrite <- TFE, Ebody. reflexivity.
      * etransitivity; [apply (abs_pub_with_h m h1 eq_refl)|].
        rewrite <- Eq, EQ. reflexivity.
Qed.

(* ---------- subscribe ---------- *)

Lemma set_nth_length {A} (l : list A) i v : length (set_nth l i v) = length l.
Proof.
  revert i. induction l as [|x l IH]; intros i; [reflexivity|].
  destruct i; cbn [set_nth length]; [reflexivity|]. rewrite IH. reflexivity.
Qed.

Lemma del_nth_length {A} (l : list A) i :
  length (del_nth l i) = if (i <? length l)%nat then (length l - 1)%nat else length l.
Proof.
  revert i. induction l as [|x l IH]; intros i; [reflexivity|].
  destruct i; cbn [del_nth length].
  - destruct (0 <? S (length l))%nat eqn:E; lia.
  - rewrite IH. destruct (i <? length l)%nat eqn:E1; destruct (S i <? S (length l))%nat eqn:E2; lia.
Qed.

Lemma write_lp_ok t : len t <= maxLPString -> write_lp t = Some (lp t).
Proof. intros H. unfold write_lp. destruct (maxLPString <? len t) eqn:E; [lia|reflexivity]. Qed.

Definition sub_entry (tq : bytes * N) : bytes := lp (fst tq) ++ [snd tq].

Definition sub_inv (m : submsg) : Prop :=
  hdr_inv T_SUBSCRIBE (s_h m) /\ length (s_topics m) = length (s_qos m).

Lemma built_sub_inv m : built_sub m -> sub_inv m.
Proof.
  induction 1 as [|m t q m' B [I L] HB E|m t B [I L]|m v B [I L] HV|m B [I L]]; unfold sub_inv.
  - split; [apply hdr_inv_new|reflexivity].
  - unfold sub_add_topic in E. destruct (negb (q <? 3)); [discriminate E|].
    destruct (find_topic (s_topics m) t 0) as [i|]; inv E; cbn [s_h s_topics s_qos].
    + split; [exact I|]. rewrite set_nth_length. exact L.
    + split; [unfold h_dirty; apply hdr_inv_remlen; exact I|]. rewrite !app_length, L. reflexivity.
  - unfold sub_remove_topic. destruct (find_topic (s_topics m) t 0) as [i|]; cbn [s_h s_topics s_qos].
    + split; [unfold h_dirty; apply hdr_inv_remlen; exact I|]. rewrite !del_nth_length, L. reflexivity.
    + split; [unfold h_dirty; apply hdr_inv_remlen; exact I|exact L].
  - cbn [sub_set_pid s_h s_topics s_qos]. split; [apply hdr_inv_set_pid; assumption|exact L].
  - unfold sub_len. destruct I as (I1 & I2 & I3). rewrite I2. cbn [negb]. unfold set_remlen.
    destruct (maxRemainingLength <? sub_msglen m); cbn [fst].
    + split; [repeat split; assumption|exact L].
    + cbn [s_h s_topics s_qos]. split; [apply hdr_inv_remlen; repeat split; assumption|exact L].
Qed.

Lemma sub_fold_len ts : forall qs, length ts = length qs ->
  fold_right (fun t acc => 2 + len t + 1 + acc) 0 ts = len (flat_map sub_entry (combine ts qs)).
Proof.
  induction ts as [|t ts IH]; intros qs L; [reflexivity|].
  destruct qs as [|q qs]; [discriminate L|]. cbn [length] in L.
  cbn [fold_right combine flat_map]. rewrite (IH qs) by lia.
  unfold sub_entry at 2. cbn [fst snd]. rewrite !len_app, len_lp, len_cons, len_nil. lia.
Qed.

Lemma sub_fold_ok l : forall acc : list N,
  forallb (fun tq : bytes * N => str_ok (fst tq) && (snd tq <? 3)) l = true ->
  fold_left (fun (acc : option (list N)) (tq : bytes * N) =>
               match acc with
               | None => None
               | Some b => match write_lp (fst tq) with
                           | None => None
                           | Some tb => Some (b ++ tb ++ [snd tq])
                           end
               end) l (Some acc) = Some (acc ++ flat_map sub_entry l).
Proof.
  induction l as [|[t q] l IH]; intros acc H.
  - cbn [fold_left flat_map]. rewrite app_nil_r. reflexivity.
  - cbn [forallb fst snd] in H. apply andb_true_iff in H as [H1 H2].
    apply andb_true_iff in H1 as [HS HQ]. pose proof (str_ok_le _ HS) as HL.
    cbn [fold_left fst snd]. rewrite (write_lp_ok t HL). cbv beta iota.
    rewrite IH by exact H2. cbn [flat_map]. unfold sub_entry at 2. cbn [fst snd].
    rewrite <- !app_assoc. reflexivity.
Qed.

Lemma encode_sub : C03_encode_sub.
Proof.
  intros m c dl B OK. destruct (built_sub_inv m B) as [I L].
  pose proof (hdr_inv_type _ _ I) as TY.
  destruct I as (I1 & I2 & I3).
  unfold abs_sub_c in *. cbn [packet_ok wire] in *. change (default_flags T_SUBSCRIBE) with 2.
  fold sub_entry in *.
  remember (pid_or_auto (s_h m) c) as pidv eqn:Epidv.
  remember (flat_map sub_entry (combine (s_topics m) (s_qos m))) as flat eqn:Eflat.
  remember (be16 pidv ++ flat) as body eqn:Ebody.
  apply andb_true_iff in OK as [OK HBL]. apply body_len_ok_le in HBL.
  apply andb_true_iff in OK as [OK HF].
  apply andb_true_iff in OK as [OK HNE].
  apply andb_true_iff in OK as [HP HP0]. apply N.ltb_lt in HP.
  assert (ML : sub_msglen m = len body).
  { unfold sub_msglen. rewrite (sub_fold_len _ _ L), <- Eflat, Ebody, len_app, len_be16. reflexivity. }
  unfold sub_len. rewrite I2. cbn [negb]. rewrite ML.
  rewrite set_remlen_ok by exact HBL.
  set (h1 := {| remlen := len body; tf := tf (s_h m); pid := pid (s_h m); dbuf := dbuf (s_h m);
               dirty := true; hal := hal (s_h m); pal := pal (s_h m) |}).
  assert (HM1 : hdr_msglen h1 = S (length (varint (len body)))).
  { unfold hdr_msglen, h1. cbn [remlen]. apply hdr_msglen_of_varint. exact HBL. }
  rewrite HM1, to_nat_len, fixed_length.
  split; [reflexivity|].
  intros HL. unfold sub_encode.
  cbn [s_h s_topics s_qos].
  change (dirty h1) with true. cbn [negb].
  change (sub_msglen {| s_h := h1; s_topics := s_topics m; s_qos := s_qos m |}) with (sub_msglen m).
  rewrite ML.
  rewrite HM1, to_nat_len.
  match goal with |- context [if ?c then Err 0 0 else _] => destruct c eqn:E1 end; [lia|].
  rewrite set_remlen_ok by exact HBL.
  change {| remlen := len body; tf := tf h1; pid := pid h1; dbuf := dbuf h1; dirty := true;
            hal := hal h1; pal := pal h1 |} with h1.
  rewrite hdr_encode_ok; [|rewrite HM1; lia|exact HBL|].
  2: { change (h_type h1) with (h_type (s_h m)). rewrite TY. reflexivity. }
  cbn [bind].
  change (tf h1) with (tf (s_h m)). change (remlen h1) with (len body).
  change (packet_id h1) with (packet_id (s_h m)).
  rewrite (sub_fold_ok _ [] HF). cbn [app]. rewrite <- Eflat.
  unfold pid_or_auto, counter_after in *.
  destruct (packet_id (s_h m) =? 0) eqn:EP.
  - destruct (auto_id_facts c) as [A1 A2].
    unfold auto_id in *.
    destruct (next_pid c) as [c' id] eqn:ENP. cbn [fst snd] in *.
    rewrite set_pid_packet_id.
    destruct (id =? 0) eqn:EI; [lia|].
    subst pidv. eexists. split.
    + unfold fixed. rewrite I1, Ebody. reflexivity.
    + unfold abs_sub. cbn [s_h s_topics s_qos]. rewrite set_pid_packet_id, EI. reflexivity.
  - subst pidv. eexists. split.
    + unfold fixed. rewrite I1, Ebody. reflexivity.
    + unfold abs_sub. cbn [s_h s_topics s_qos]. reflexivity.
Qed.

(* ---------- unsubscribe ---------- *)

Lemma built_unsub_inv m : built_unsub m -> hdr_inv T_UNSUBSCRIBE (u_h m).
Proof.
  induction 1 as [|m t B I HB|m t B I|m v B I HV|m B I].
  - apply hdr_inv_new.
  - unfold unsub_add_topic. destruct (find_topic (u_topics m) t 0) as [i|]; [exact I|].
    cbn [u_h]. unfold h_dirty. apply hdr_inv_remlen. exact I.
  - unfold unsub_remove_topic. destruct (find_topic (u_topics m) t 0) as [i|]; cbn [u_h];
      unfold h_dirty; apply hdr_inv_remlen; exact I.
  - cbn [unsub_set_pid u_h]. apply hdr_inv_set_pid; assumption.
  - unfold unsub_len. destruct I as (I1 & I2 & I3). rewrite I2. cbn [negb]. unfold set_remlen.
    destruct (maxRemainingLength <? unsub_msglen m); cbn [fst].
    + repeat split; assumption.
    + cbn [u_h]. apply hdr_inv_remlen; repeat split; assumption.
Qed.

Lemma unsub_fold_len ts :
  fold_right (fun t acc => 2 + len t + acc) 0 ts = len (flat_map lp ts).
Proof.
  induction ts as [|t ts IH]; [reflexivity|].
  cbn [fold_right flat_map]. rewrite IH, len_app, len_lp. lia.
Qed.

Lemma unsub_fold_ok l : forall acc : list N,
  forallb str_ok l = true ->
  fold_left (fun (acc : option (list N)) (t : bytes) =>
               match acc with
               | None => None
               | Some b => match write_lp t with
                           | None => None
                           | Some tb => Some (b ++ tb)
                           end
               end) l (Some acc) = Some (acc ++ flat_map lp l).
Proof.
  induction l as [|t l IH]; intros acc H.
  - cbn [fold_left flat_map]. rewrite app_nil_r. reflexivity.
  - cbn [forallb] in H. apply andb_true_iff in H as [HS H2].
    pose proof (str_ok_le _ HS) as HL.
    cbn [fold_left]. rewrite (write_lp_ok t HL). cbv beta iota.
    rewrite IH by exact H2. cbn [flat_map]. rewrite <- !app_assoc. reflexivity.
Qed.

Lemma encode_unsub : C03_encode_unsub.
Proof.
  intros m c dl B OK. pose proof (built_unsub_inv m B) as I.
  pose proof (hdr_inv_type _ _ I) as TY.
  destruct I as (I1 & I2 & I3).
  unfold abs_unsub_c in *. cbn [packet_ok wire] in *. change (default_flags T_UNSUBSCRIBE) with 2.
  remember (pid_or_auto (u_h m) c) as pidv eqn:Epidv.
  remember (flat_map lp (u_topics m)) as flat eqn:Eflat.
  remember (be16 pidv ++ flat) as body eqn:Ebody.
  apply andb_true_iff in OK as [OK HBL]. apply body_len_ok_le in HBL.
  apply andb_true_iff in OK as [OK HF].
  apply andb_true_iff in OK as [OK HNE].
  apply andb_true_iff in OK as [HP HP0]. apply N.ltb_lt in HP.
  assert (ML : unsub_msglen m = len body).
  { unfold unsub_msglen. rewrite unsub_fold_len, <- Eflat, Ebody, len_app, len_be16. reflexivity. }
  unfold unsub_len. rewrite I2. cbn [negb]. rewrite ML.
  rewrite set_remlen_ok by exact HBL.
  set (h1 := {| remlen := len body; tf := tf (u_h m); pid := pid (u_h m); dbuf := dbuf (u_h m);
               dirty := true; hal := hal (u_h m); pal := pal (u_h m) |}).
  assert (HM1 : hdr_msglen h1 = S (length (varint (len body)))).
  { unfold hdr_msglen, h1. cbn [remlen]. apply hdr_msglen_of_varint. exact HBL. }
  rewrite HM1, to_nat_len, fixed_length.
  split; [reflexivity|].
  intros HL. unfold unsub_encode.
  cbn [u_h u_topics].
  change (dirty h1) with true. cbn [negb].
  change (unsub_msglen {| u_h := h1; u_topics := u_topics m |}) with (unsub_msglen m).
  rewrite ML.
  rewrite HM1, to_nat_len.
  match goal with |- context [if ?c then Err 0 0 else _] => destruct c eqn:E1 end; [lia|].
  rewrite set_remlen_ok by exact HBL.
  change {| remlen := len body; tf := tf h1; pid := pid h1; dbuf := dbuf h1; dirty := true;
            hal := hal h1; pal := pal h1 |} with h1.
  rewrite hdr_encode_ok; [|rewrite HM1; lia|exact HBL|].
  2: { change (h_type h1) with (h_type (u_h m)). rewrite TY. reflexivity. }
  cbn [bind].
  change (tf h1) with (tf (u_h m)). change (remlen h1) with (len body).
  change (packet_id h1) with (packet_id (u_h m)).
  rewrite (unsub_fold_ok _ [] HF). cbn [app]. rewrite <- Eflat.
  unfold pid_or_auto, counter_after in *.
  destruct (packet_id (u_h m) =? 0) eqn:EP.
  - destruct (auto_id_facts c) as [A1 A2].
    unfold auto_id in *.
    destruct (next_pid c) as [c' id] eqn:ENP. cbn [fst snd] in *.
    rewrite set_pid_packet_id.
    destruct (id =? 0) eqn:EI; [lia|].
    subst pidv. eexists. split.
    + unfold fixed. rewrite I1, Ebody. reflexivity.
    + unfold abs_unsub. cbn [u_h u_topics]. rewrite set_pid_packet_id, EI. reflexivity.
  - subst pidv. eexists. split.
    + unfold fixed. rewrite I1, Ebody. reflexivity.
    + unfold abs_unsub. cbn [u_h u_topics]. reflexivity.
Qed.

(* ---------- connect ---------- *)

Definition conn_inv (m : connmsg) : Prop :=
  tf (c_h m) = T_CONNECT * 16 + 0 /\ dirty (c_h m) = true.

Lemma conn_inv_cw m f : conn_inv m -> conn_inv (cw m f).
Proof. unfold conn_inv, cw, h_dirty. cbn [c_h tf dirty]. intros [H1 H2]. split; [exact H1|reflexivity]. Qed.

Lemma built_conn_inv m : built_conn m -> conn_inv m.
Proof.
  induction 1 as [|m v m' B I E|m v B I|m v B I|m v m' B I E|m v B I|m v B I|m v B I|m v B I HV
                 |m t m' B I HB E|m t B I HB|m t B I HB|m t B I HB|m t B I HB|m B I].
  - split; reflexivity.
  - unfold conn_set_version in E. destruct (version_ok v); [|discriminate E]. inv E.
    destruct I as [I1 I2]. split; [exact I1|reflexivity].
  - apply conn_inv_cw. exact I.
  - apply conn_inv_cw. exact I.
  - unfold conn_set_willqos in E. destruct (v <? 3); [|discriminate E]. inv E.
    apply conn_inv_cw. exact I.
  - apply conn_inv_cw. exact I.
  - apply conn_inv_cw. exact I.
  - apply conn_inv_cw. exact I.
  - destruct I as [I1 I2]. split; [exact I1|reflexivity].
  - unfold conn_set_cid in E.
    destruct (negb (length t =? 0)%nat && negb (valid_clientid t)); [discriminate E|]. inv E.
    destruct I as [I1 I2]. split; [exact I1|reflexivity].
  - unfold conn_set_wt. cbv zeta. apply conn_inv_cw.
    destruct (negb (length t =? 0)%nat); [|destruct (length (c_wm m) =? 0)%nat];
      try (unfold conn_set_willflag; apply conn_inv_cw); exact I.
  - unfold conn_set_wm. cbv zeta. apply conn_inv_cw.
    destruct (negb (length t =? 0)%nat); [|destruct (length (c_wt m) =? 0)%nat];
      try (unfold conn_set_willflag; apply conn_inv_cw); exact I.
  - unfold conn_set_user, conn_set_userflag. cbv zeta. apply conn_inv_cw. exact I.
  - unfold conn_set_pass, conn_set_passflag. cbv zeta. apply conn_inv_cw. exact I.
  - unfold conn_len. destruct I as [I1 I2]. rewrite I2. cbn [negb]. unfold set_remlen.
    destruct (maxRemainingLength <? conn_msglen m); cbn [fst].
    + split; assumption.
    + split; [exact I1|reflexivity].
Qed.

Lemma version_cases v : version_ok v = true -> v = 3 \/ v = 4.
Proof. unfold version_ok, supported_versions. cbn [existsb fst]. lia. Qed.

Lemma proto_name_len v : version_ok v = true -> len (proto_name v) <= 6.
Proof.
  intros H. destruct (version_cases v H) as [ -> | -> ]; vm_compute; discriminate.
Qed.

Lemma if_some {A} (c : bool) (a b : A) : (if c then Some a else Some b) = Some (if c then a else b).
Proof. destruct c; reflexivity. Qed.

Lemma encode_conn : C03_encode_conn.
Proof.
  intros m dl B OK. destruct (built_conn_inv m B) as [I1 I2].
  unfold abs_conn in *. cbn [packet_ok wire] in *. change (default_flags T_CONNECT) with 0.
  unfold connect_ok, connect_body in *.
  cbn [cp_version cp_flags cp_keepalive cp_clientid cp_willtopic cp_willmsg cp_username cp_password] in *.
  do 17 (apply andb_true_iff in OK as [OK ?H]).
  assert (HV : version_ok (c_version m) = true) by exact OK.
  pose proof (proto_name_len _ HV) as HPN.
  pose proof (str_ok_le _ H10) as L1. pose proof (str_ok_le _ H7) as L2.
  pose proof (str_ok_le _ H6) as L3. pose proof (str_ok_le _ H5) as L4.
  pose proof (str_ok_le _ H4) as L5.
  unfold flag in *.
  match goal with |- context [lp (c_cid m) ++ ?w ++ ?u ++ ?p] =>
    remember w as W eqn:EW; remember u as U eqn:EU; remember p as P eqn:EP
  end.
  remember (lp (proto_name (c_version m)) ++ [c_version m; c_flags m] ++ be16 (c_keepalive m)
            ++ lp (c_cid m) ++ W ++ U ++ P) as body eqn:Ebody.
  assert (ML : conn_msglen m = len body).
  { unfold conn_msglen, conn_willflag, conn_userflag, conn_passflag. rewrite HV. cbn [negb].
    rewrite !length_eqb_len.
    rewrite Ebody, !len_app, !len_lp, len_be16, !len_cons, len_nil, EW, EU, EP.
    destruct (N.testbit (c_flags m) 2);
      destruct (N.testbit (c_flags m) 7 && negb (len (c_user m) =? 0));
      destruct (N.testbit (c_flags m) 6 && negb (len (c_pass m) =? 0));
      rewrite ?len_app, ?len_lp, ?len_nil; lia. }
  assert (HBL : len body <= maxRemainingLength).
  { rewrite Ebody, !len_app, !len_lp, len_be16, !len_cons, len_nil, EW, EU, EP.
    unfold maxLPString in *. unfold maxRemainingLength.
    destruct (N.testbit (c_flags m) 2);
      destruct (N.testbit (c_flags m) 7 && negb (len (c_user m) =? 0));
      destruct (N.testbit (c_flags m) 6 && negb (len (c_pass m) =? 0));
      rewrite ?len_app, ?len_lp, ?len_nil; lia. }
  assert (EB : conn_encode_body m = Some body).
  { unfold conn_encode_body, conn_willflag, conn_userflag, conn_passflag.
    rewrite !length_eqb_len.
    rewrite (write_lp_ok (proto_name (c_version m))) by (unfold maxLPString; lia).
    rewrite (write_lp_ok _ L1), (write_lp_ok _ L2), (write_lp_ok _ L3), (write_lp_ok _ L4),
      (write_lp_ok _ L5).
    cbv zeta. rewrite !if_some.
    rewrite Ebody, EW, EU, EP. rewrite <- !app_assoc. reflexivity. }
  unfold conn_len. rewrite I2. cbn [negb]. rewrite ML.
  rewrite set_remlen_ok by exact HBL.
  set (h1 := {| remlen := len body; tf := tf (c_h m); pid := pid (c_h m); dbuf := dbuf (c_h m);
               dirty := true; hal := hal (c_h m); pal := pal (c_h m) |}).
  assert (HM1 : hdr_msglen h1 = S (length (varint (len body)))).
  { unfold hdr_msglen, h1. cbn [remlen]. apply hdr_msglen_of_varint. exact HBL. }
  rewrite HM1, to_nat_len, fixed_length.
  split; [reflexivity|].
  intros HL. unfold conn_encode.
  cbn [cwh c_h c_version].
  change (dirty h1) with true. cbn [negb].
  assert (TY : h_type h1 = T_CONNECT).
  { unfold h_type. change (tf h1) with (tf (c_h m)). rewrite I1. reflexivity. }
  rewrite TY, N.eqb_refl, HV. cbn [negb].
  change (conn_msglen _) with (conn_msglen m).
  rewrite ML, HM1, to_nat_len.
  match goal with |- context [if ?c then Err 0 0 else _] => destruct c eqn:E1 end; [lia|].
  rewrite set_remlen_ok by exact HBL.
  change {| remlen := len body; tf := tf h1; pid := pid h1; dbuf := dbuf h1; dirty := true;
            hal := hal h1; pal := pal h1 |} with h1.
  rewrite hdr_encode_ok; [|rewrite HM1; lia|exact HBL|rewrite TY; reflexivity].
  cbn [bind].
  change (conn_encode_body _) with (conn_encode_body m). rewrite EB.
  change (tf h1) with (tf (c_h m)). change (remlen h1) with (len body).
  eexists. split.
  - unfold fixed. rewrite I1. reflexivity.
  - reflexivity.
Qed.

Print Assumptions encode_pub.
Print Assumptions encode_ack.
Print Assumptions encode_empty.
Print Assumptions encode_connack.
Print Assumptions encode_suback.
Print Assumptions encode_sub.
Print Assumptions encode_unsub.
Print Assumptions encode_conn.
