(* Executable model of package message (after the fix: commits): header, length-prefixed
   strings, and Len / Encode / Decode and the setters of every message type, following
   the Go source statement by statement.  Slice accesses are partial (Bytes.sl / idx /
   from): a Go panic is the outcome Panic, so "the decoders never panic" is a theorem
   about the bounds checks and not a by-product of totalisation.

   Aliasing: after Decode the type/flags byte and the packet id of a message are
   sub-slices of the decode buffer; setters that write through them change what an
   unchanged (not dirty) message re-encodes to.  [hal] and [pal] record that aliasing and
   the setters patch [dbuf] accordingly. *)
From Base Require Import Tactics Bytes.
From Gen Require Import Tables.
From Codec Require Import Wire.
Open Scope N_scope.

(* ---------- header ---------- *)

Record hdr := mkHdr {
  remlen : N;
  tf : N;                 (* mtypeflags[0] *)
  pid : option N;         (* Some v when len(packetID) == 2 *)
  dbuf : bytes;
  dirty : bool;
  hal : bool;             (* mtypeflags aliases dbuf[0:1] *)
  pal : option nat        (* packetID aliases dbuf[off:off+2] *)
}.

Definition type_valid (t : N) : bool := (valid_lo <? t) && (t <? valid_hi).
Definition h_type (h : hdr) : N := tf h / 16.
Definition h_flags (h : hdr) : N := tf h mod 16.

Definition new_hdr (t : N) : hdr :=
  mkHdr 0 (t * 16 + default_flags t mod 16) None [] true false None.

Fixpoint patch (l : bytes) (i : nat) (v : N) : bytes :=
  match l, i with
  | [], _ => []
  | _ :: r, O => v :: r
  | x :: r, S j => x :: patch r j v
  end.

Definition set_tf (h : hdr) (v : N) : hdr :=
  mkHdr (remlen h) v (pid h) (if hal h then patch (dbuf h) 0 v else dbuf h) (dirty h) (hal h) (pal h).

Definition packet_id (h : hdr) : N := match pid h with Some v => v | None => 0 end.

(* SetPacketID(v uint16) *)
Definition set_pid (h : hdr) (v : N) : hdr :=
  if v =? 0 then h else
  match pid h with
  | None => mkHdr (remlen h) (tf h) (Some v) (dbuf h) true (hal h) None
  | Some _ =>
      let d := match pal h with
               | Some off => patch (patch (dbuf h) off (v / 256 mod 256)) (S off) (v mod 256)
               | None => dbuf h
               end in
      mkHdr (remlen h) (tf h) (Some v) d (dirty h) (hal h) (pal h)
  end.

Definition hdr_msglen_of (r : N) : nat :=
  S (S (length (filter (fun t => t <? r) msglen_thresholds))).
Definition hdr_msglen (h : hdr) : nat := hdr_msglen_of (remlen h).

(* SetRemainingLength; None = error *)
Definition set_remlen (h : hdr) (r : N) : option hdr :=
  if maxRemainingLength <? r then None
  else Some (mkHdr r (tf h) (pid h) (dbuf h) true (hal h) (pal h)).

(* header.encode(dst): bytes written *)
Definition hdr_encode (h : hdr) (dstlen : nat) : outcome bytes :=
  if (dstlen <? hdr_msglen h)%nat then Err 0 0
  else if maxRemainingLength <? remlen h then Err 0 0
  else if negb (type_valid (h_type h)) then Err 0 0
  else Ok (tf h :: varint (remlen h)).

(* binary.Uvarint restricted by the caller to 1..4 bytes: value and bytes used *)
Fixpoint uvarint_fuel (fuel : nat) (l : bytes) (shift : N) (acc : N) (used : nat) : option (N * nat) :=
  match fuel with
  | O => None
  | S f =>
      match l with
      | [] => None
      | b :: r =>
          if b <? 128 then Some (acc + b * shift, S used)
          else uvarint_fuel f r (shift * 128) (acc + (b mod 128) * shift) (S used)
      end
  end.
Definition uvarint4 (l : bytes) : option (N * nat) := uvarint_fuel 4 l 1 0 0%nat.

Definition publish_qos_of_flags (f : N) : N := (f / 2) mod 4.

(* header.decode(src): new header and bytes consumed *)
Definition hdr_decode (h : hdr) (src : bytes) : outcome (hdr * nat) :=
  if (length src <? 2)%nat then Err 0 0 else
  let mtype := h_type h in
  do b0 <- idx src 0;
  let ty := b0 / 16 in
  let fl := b0 mod 16 in
  if negb (type_valid ty) then Err 0 0 else
  if negb (mtype =? ty) then Err 0 0 else
  if negb (ty =? T_PUBLISH) && negb (fl =? default_flags ty) then Err 0 0 else
  if (ty =? T_PUBLISH) && negb (publish_qos_of_flags fl <? 3) then Err 0 0 else
  do rest <- from src 1;
  match uvarint4 rest with
  | None => Err 0 1
  | Some (rl, m) =>
      let total := S m in
      if maxRemainingLength <? rl then Err 0 total else
      if N.of_nat (length src - total) <? rl then Err 0 total else
      do d <- sl src 0 (total + N.to_nat rl);
      Ok (mkHdr rl b0 (pid h) d (dirty h) true (pal h), total)
  end.

(* ---------- length-prefixed strings ---------- *)

Definition read_lp (buf : bytes) : outcome (bytes * nat) :=
  if (length buf <? 2)%nat then Err 0 0 else
  do hi <- idx buf 0;
  do lo <- idx buf 1;
  if N.of_nat (length buf) <? 2 + rd16 hi lo then Err 0 2 else
  let n := N.to_nat (rd16 hi lo) in
  do s <- sl buf 2 (2 + n);
  Ok (s, (2 + n)%nat).

(* writeLPBytes: None = error (string too long); the destination size is checked by the
   callers' total-length test *)
Definition write_lp (b : bytes) : option bytes :=
  if maxLPString <? len b then None else Some (lp b).

(* add a local offset to the count carried by an error *)
Definition at_off {A} (off : nat) (x : outcome A) : outcome A :=
  match x with Err c n => Err c (off + n) | o => o end.

(* the process-wide packet id counter: nextPacketID *)
Definition next_pid (c : N) : N * N :=
  let c1 := c + 1 in
  if c1 mod 65536 =? 0 then (c1 + 1, (c1 + 1) mod 65536) else (c1, c1 mod 65536).

(* ---------- PUBLISH ---------- *)

Record pubmsg := mkPub { p_h : hdr; p_topic : bytes; p_payload : bytes }.

Definition pub_new : pubmsg := mkPub (new_hdr T_PUBLISH) [] [].
Definition pub_qos (m : pubmsg) : N := publish_qos_of_flags (h_flags (p_h m)).
Definition pub_dup (m : pubmsg) : bool := N.testbit (tf (p_h m)) 3.
Definition pub_retain (m : pubmsg) : bool := N.testbit (tf (p_h m)) 0.

Definition with_h (m : pubmsg) (h : hdr) : pubmsg := mkPub h (p_topic m) (p_payload m).
Definition h_dirty (h : hdr) : hdr := mkHdr (remlen h) (tf h) (pid h) (dbuf h) true (hal h) (pal h).
Definition h_clean (h : hdr) : hdr := mkHdr (remlen h) (tf h) (pid h) (dbuf h) false (hal h) (pal h).

Definition pub_set_dup (m : pubmsg) (v : bool) : pubmsg :=
  with_h m (set_tf (p_h m) (if v then N.lor (tf (p_h m)) 8 else N.land (tf (p_h m)) 247)).
Definition pub_set_retain (m : pubmsg) (v : bool) : pubmsg :=
  with_h m (set_tf (p_h m) (if v then N.lor (tf (p_h m)) 1 else N.land (tf (p_h m)) 254)).
(* SetQoS: None = error, message unchanged *)
Definition pub_set_qos (m : pubmsg) (v : N) : option pubmsg :=
  if negb (v <? 3) then None else
  let p := pub_qos m in
  let h1 := set_tf (p_h m) (N.lor (N.land (tf (p_h m)) 249) (v * 2)) in
  let h2 := if Bool.eqb (0 <? p) (0 <? v) then h1 else h_dirty h1 in
  Some (with_h m h2).
Definition pub_set_topic (m : pubmsg) (v : bytes) : option pubmsg :=
  if valid_topic v then Some (mkPub (h_dirty (p_h m)) v (p_payload m)) else None.
Definition pub_set_payload (m : pubmsg) (v : bytes) : pubmsg :=
  mkPub (h_dirty (p_h m)) (p_topic m) v.
Definition pub_set_pid (m : pubmsg) (v : N) : pubmsg := with_h m (set_pid (p_h m) v).

Definition pub_msglen (m : pubmsg) : N :=
  2 + len (p_topic m) + len (p_payload m) + (if pub_qos m =? 0 then 0 else 2).

Definition pub_len (m : pubmsg) : pubmsg * nat :=
  if negb (dirty (p_h m)) then (m, length (dbuf (p_h m))) else
  match set_remlen (p_h m) (pub_msglen m) with
  | None => (m, 0%nat)
  | Some h => (with_h m h, (hdr_msglen h + N.to_nat (pub_msglen m))%nat)
  end.

Definition pub_decode (m : pubmsg) (src : bytes) : outcome (pubmsg * nat) :=
  do hr <- hdr_decode (p_h m) src;
  let '(h, hn) := hr in
  let src := dbuf h in
  let total := hn in
  do rest <- from src total;
  do tr <- at_off total (read_lp rest);
  let '(topic, n) := tr in
  let total := (total + n)%nat in
  if negb (valid_topic topic) then Err 0 total else
  let qos := publish_qos_of_flags (tf h mod 16) in
  do hp <- (if qos =? 0 then Ok (h, total)
            else if (length src <? total + 2)%nat then Err 0 total
            else do p <- sl src total (total + 2);
                 do hi <- idx p 0; do lo <- idx p 1;
                 Ok (mkHdr (remlen h) (tf h) (Some (rd16 hi lo)) (dbuf h) (dirty h) (hal h) (Some total),
                     (total + 2)%nat));
  let '(h, total) := hp in
  let l := (N.to_nat (remlen h) - (total - hn))%nat in
  if (N.to_nat (remlen h) <? total - hn)%nat then Panic else
  do payload <- sl src total (total + l);
  Ok (mkPub (h_clean h) topic payload, (total + length payload)%nat).

(* Encode: new message, new counter, bytes written (count = length) *)
Definition pub_encode (m : pubmsg) (c : N) (dstlen : nat) : outcome (pubmsg * N * bytes) :=
  if negb (dirty (p_h m)) then
    if (dstlen <? length (dbuf (p_h m)))%nat then Err 0 0 else Ok (m, c, dbuf (p_h m))
  else if len (p_topic m) =? 0 then Err 0 0
  else match set_remlen (p_h m) (pub_msglen m) with
  | None => Err 0 0
  | Some h =>
      let hl := hdr_msglen h in
      if (dstlen <? hl + N.to_nat (pub_msglen m))%nat then Err 0 0 else
      do hb <- hdr_encode h dstlen;
      match write_lp (p_topic m) with
      | None => Err 0 (length hb)
      | Some tb =>
          let '(h, c, pb) :=
            if pub_qos m =? 0 then (h, c, [])
            else if packet_id h =? 0 then
                   let '(c', id) := next_pid c in
                   let h' := set_pid h id in (h', c', be16 (packet_id h'))
                 else (h, c, be16 (packet_id h)) in
          Ok (with_h m h, c, hb ++ tb ++ pb ++ p_payload m)
      end
  end.

(* ---------- PUBACK PUBREC PUBREL PUBCOMP UNSUBACK ---------- *)

Definition ack_new (ty : N) : hdr := new_hdr ty.

Definition ack_len (h : hdr) : hdr * nat :=
  if negb (dirty h) then (h, length (dbuf h)) else
  match set_remlen h 2 with
  | None => (h, 0%nat)
  | Some h' => (h', (hdr_msglen h' + 2)%nat)
  end.

Definition ack_decode (h : hdr) (src : bytes) : outcome (hdr * nat) :=
  do hr <- hdr_decode h src;
  let '(h, total) := hr in
  if negb (remlen h =? 2) then Err 0 total else
  do p <- sl src total (total + 2);
  do hi <- idx p 0; do lo <- idx p 1;
  Ok (mkHdr (remlen h) (tf h) (Some (rd16 hi lo)) (dbuf h) false (hal h) (Some total), (total + 2)%nat).

Definition ack_encode (h : hdr) (dstlen : nat) : outcome (hdr * bytes) :=
  if negb (dirty h) then
    if (dstlen <? length (dbuf h))%nat then Err 0 0 else Ok (h, dbuf h)
  else
    let hl := hdr_msglen h in
    if (dstlen <? hl + 2)%nat then Err 0 0 else
    match set_remlen h 2 with
    | None => Err 0 0
    | Some h' =>
        do hb <- hdr_encode h' dstlen;
        Ok (h', hb ++ be16 (packet_id h'))
    end.

(* ---------- PINGREQ PINGRESP DISCONNECT ---------- *)

Definition empty_new (ty : N) : hdr := new_hdr ty.
Definition empty_len (h : hdr) : nat := if negb (dirty h) then length (dbuf h) else hdr_msglen h.
Definition empty_decode (h : hdr) (src : bytes) : outcome (hdr * nat) :=
  do hr <- hdr_decode h src;
  let '(h, n) := hr in
  if negb (remlen h =? 0) then Err 0 n else Ok (h_clean h, n).
Definition empty_encode (h : hdr) (dstlen : nat) : outcome bytes :=
  if negb (dirty h) then
    if (dstlen <? length (dbuf h))%nat then Err 0 0 else Ok (dbuf h)
  else hdr_encode h dstlen.

(* ---------- CONNACK ---------- *)

Record connackmsg := mkConnack { k_h : hdr; k_sp : bool; k_code : N }.
Definition connack_new : connackmsg := mkConnack (new_hdr T_CONNACK) false 0.
Definition connack_set_sp (m : connackmsg) (v : bool) := mkConnack (h_dirty (k_h m)) v (k_code m).
Definition connack_set_code (m : connackmsg) (v : N) := mkConnack (h_dirty (k_h m)) (k_sp m) v.

Definition connack_len (m : connackmsg) : connackmsg * nat :=
  if negb (dirty (k_h m)) then (m, length (dbuf (k_h m))) else
  match set_remlen (k_h m) 2 with
  | None => (m, 0%nat)
  | Some h => (mkConnack h (k_sp m) (k_code m), (hdr_msglen h + 2)%nat)
  end.

Definition connack_decode (m : connackmsg) (src : bytes) : outcome (connackmsg * nat) :=
  do hr <- hdr_decode (k_h m) src;
  let '(h, total) := hr in
  if negb (remlen h =? 2) then Err 0 total else
  do b <- idx src total;
  if negb (N.land b 254 =? 0) then Err 0 0 else
  let sp := N.land b 1 =? 1 in
  let total := S total in
  do b <- idx src total;
  if 5 <? b then Err 0 0 else
  Ok (mkConnack (h_clean h) sp b, S total).

Definition connack_encode (m : connackmsg) (dstlen : nat) : outcome (connackmsg * bytes) :=
  if negb (dirty (k_h m)) then
    if (dstlen <? length (dbuf (k_h m)))%nat then Err 0 0 else Ok (m, dbuf (k_h m))
  else
    let hl := hdr_msglen (k_h m) in
    if (dstlen <? hl + 2)%nat then Err 0 0 else
    match set_remlen (k_h m) 2 with
    | None => Err 0 0
    | Some h =>
        do hb <- hdr_encode h dstlen;
        if connack_max_code <? k_code m then Err 0 (S (length hb)) else
        Ok (mkConnack h (k_sp m) (k_code m), hb ++ [b2n (k_sp m); k_code m])
    end.

(* ---------- SUBACK ---------- *)

Record subackmsg := mkSuback { sa_h : hdr; sa_codes : list N }.
Definition suback_new : subackmsg := mkSuback (new_hdr T_SUBACK) [].
Definition code_ok (c : N) : bool := existsb (N.eqb c) suback_codes.

(* AddReturnCodes appends code by code and stops at the first invalid one (error) *)
Fixpoint add_codes (cur : list N) (ret : list N) : list N * bool :=
  match ret with
  | [] => (cur, true)
  | c :: r => if code_ok c then add_codes (cur ++ [c]) r else (cur, false)
  end.
Definition suback_add_codes (m : subackmsg) (ret : list N) : subackmsg * bool :=
  let '(cs, ok) := add_codes (sa_codes m) ret in
  (mkSuback (if ok then h_dirty (sa_h m) else sa_h m) cs, ok).
Definition suback_set_pid (m : subackmsg) (v : N) := mkSuback (set_pid (sa_h m) v) (sa_codes m).

Definition suback_msglen (m : subackmsg) : N := 2 + len (sa_codes m).
Definition suback_len (m : subackmsg) : subackmsg * nat :=
  if negb (dirty (sa_h m)) then (m, length (dbuf (sa_h m))) else
  match set_remlen (sa_h m) (suback_msglen m) with
  | None => (m, 0%nat)
  | Some h => (mkSuback h (sa_codes m), (hdr_msglen h + N.to_nat (suback_msglen m))%nat)
  end.

Definition suback_decode (m : subackmsg) (src : bytes) : outcome (subackmsg * nat) :=
  do hr <- hdr_decode (sa_h m) src;
  let '(h, hn) := hr in
  let total := hn in
  if remlen h <? 2 then Err 0 total else
  do p <- sl src total (total + 2);
  do hi <- idx p 0; do lo <- idx p 1;
  let h := mkHdr (remlen h) (tf h) (Some (rd16 hi lo)) (dbuf h) (dirty h) (hal h) (Some total) in
  let total := (total + 2)%nat in
  let l := (N.to_nat (remlen h) - (total - hn))%nat in
  do codes <- sl src total (total + l);
  let total := (total + length codes)%nat in
  if negb (forallb code_ok codes) then Err 0 total else
  Ok (mkSuback (h_clean h) codes, total).

Definition suback_encode (m : subackmsg) (dstlen : nat) : outcome (subackmsg * bytes) :=
  if negb (dirty (sa_h m)) then
    if (dstlen <? length (dbuf (sa_h m)))%nat then Err 0 0 else Ok (m, dbuf (sa_h m))
  else if negb (forallb code_ok (sa_codes m)) then Err 0 0
  else
    let hl := hdr_msglen (sa_h m) in
    if (dstlen <? hl + N.to_nat (suback_msglen m))%nat then Err 0 0 else
    match set_remlen (sa_h m) (suback_msglen m) with
    | None => Err 0 0
    | Some h =>
        do hb <- hdr_encode h dstlen;
        Ok (mkSuback h (sa_codes m), hb ++ be16 (packet_id h) ++ sa_codes m)
    end.

(* ---------- SUBSCRIBE ---------- *)

Record submsg := mkSub { s_h : hdr; s_topics : list bytes; s_qos : list N }.
Definition sub_new : submsg := mkSub (new_hdr T_SUBSCRIBE) [] [].

Fixpoint find_topic (ts : list bytes) (t : bytes) (i : nat) : option nat :=
  match ts with
  | [] => None
  | x :: r => if beq_bytes x t then Some i else find_topic r t (S i)
  end.
Fixpoint set_nth {A} (l : list A) (i : nat) (v : A) : list A :=
  match l, i with
  | [], _ => []
  | _ :: r, O => v :: r
  | x :: r, S j => x :: set_nth r j v
  end.
Fixpoint del_nth {A} (l : list A) (i : nat) : list A :=
  match l, i with
  | [], _ => []
  | _ :: r, O => r
  | x :: r, S j => x :: del_nth r j
  end.

(* AddTopic: None = error (invalid QoS) *)
Definition sub_add_topic (m : submsg) (t : bytes) (q : N) : option submsg :=
  if negb (q <? 3) then None else
  match find_topic (s_topics m) t 0 with
  | Some i => Some (mkSub (s_h m) (s_topics m) (set_nth (s_qos m) i q))
  | None => Some (mkSub (h_dirty (s_h m)) (s_topics m ++ [t]) (s_qos m ++ [q]))
  end.
Definition sub_remove_topic (m : submsg) (t : bytes) : submsg :=
  match find_topic (s_topics m) t 0 with
  | Some i => mkSub (h_dirty (s_h m)) (del_nth (s_topics m) i) (del_nth (s_qos m) i)
  | None => mkSub (h_dirty (s_h m)) (s_topics m) (s_qos m)
  end.
Definition sub_set_pid (m : submsg) (v : N) := mkSub (set_pid (s_h m) v) (s_topics m) (s_qos m).

Definition sub_msglen (m : submsg) : N :=
  2 + fold_right (fun t acc => 2 + len t + 1 + acc) 0 (s_topics m).
Definition sub_len (m : submsg) : submsg * nat :=
  if negb (dirty (s_h m)) then (m, length (dbuf (s_h m))) else
  match set_remlen (s_h m) (sub_msglen m) with
  | None => (m, 0%nat)
  | Some h => (mkSub h (s_topics m) (s_qos m), (hdr_msglen h + N.to_nat (sub_msglen m))%nat)
  end.

(* the topic loop of SubscribeMessage.Decode: fuel = number of bytes left + 1 *)
Fixpoint sub_loop (fuel : nat) (src : bytes) (total : nat) (rem : Z)
         (ts : list bytes) (qs : list N) : outcome (list bytes * list N * nat) :=
  if (rem <=? 0)%Z then Ok (ts, qs, total) else
  match fuel with
  | O => Panic
  | S f =>
      do rest <- from src total;
      do tr <- at_off total (read_lp rest);
      let '(t, n) := tr in
      let total := (total + n)%nat in
      if (length src <? total + 1)%nat then Err 0 total else
      do q <- idx src total;
      sub_loop f src (S total) (rem - Z.of_nat n - 1)%Z (ts ++ [t]) (qs ++ [q])
  end.

Definition sub_decode (m : submsg) (src : bytes) : outcome (submsg * nat) :=
  do hr <- hdr_decode (s_h m) src;
  let '(h, hn) := hr in
  let src := dbuf h in
  let total := hn in
  if remlen h <? 2 then Err 0 total else
  do p <- sl src total (total + 2);
  do hi <- idx p 0; do lo <- idx p 1;
  let h := mkHdr (remlen h) (tf h) (Some (rd16 hi lo)) (dbuf h) (dirty h) (hal h) (Some total) in
  let total := (total + 2)%nat in
  let rem := (Z.of_N (remlen h) - Z.of_nat (total - hn))%Z in
  do r <- sub_loop (S (length src)) src total rem (s_topics m) (s_qos m);
  let '(ts, qs, total) := r in
  if (length ts =? 0)%nat then Err 0 0 else
  Ok (mkSub (h_clean h) ts qs, total).

Definition sub_encode (m : submsg) (c : N) (dstlen : nat) : outcome (submsg * N * bytes) :=
  if negb (dirty (s_h m)) then
    if (dstlen <? length (dbuf (s_h m)))%nat then Err 0 0 else Ok (m, c, dbuf (s_h m))
  else
    let hl := hdr_msglen (s_h m) in
    if (dstlen <? hl + N.to_nat (sub_msglen m))%nat then Err 0 0 else
    match set_remlen (s_h m) (sub_msglen m) with
    | None => Err 0 0
    | Some h =>
        do hb <- hdr_encode h dstlen;
        let '(h, c) := if packet_id h =? 0 then
                         let '(c', id) := next_pid c in (set_pid h id, c')
                       else (h, c) in
        let body := fold_left (fun acc tq =>
                       match acc with
                       | None => None
                       | Some b => match write_lp (fst tq) with
                                   | None => None
                                   | Some tb => Some (b ++ tb ++ [snd tq])
                                   end
                       end) (combine (s_topics m) (s_qos m)) (Some []) in
        match body with
        | None => Err 0 (length hb)
        | Some b => Ok (mkSub h (s_topics m) (s_qos m), c, hb ++ be16 (packet_id h) ++ b)
        end
    end.

(* ---------- UNSUBSCRIBE ---------- *)

Record unsubmsg := mkUnsub { u_h : hdr; u_topics : list bytes }.
Definition unsub_new : unsubmsg := mkUnsub (new_hdr T_UNSUBSCRIBE) [].
Definition unsub_add_topic (m : unsubmsg) (t : bytes) : unsubmsg :=
  match find_topic (u_topics m) t 0 with
  | Some _ => m
  | None => mkUnsub (h_dirty (u_h m)) (u_topics m ++ [t])
  end.
Definition unsub_remove_topic (m : unsubmsg) (t : bytes) : unsubmsg :=
  match find_topic (u_topics m) t 0 with
  | Some i => mkUnsub (h_dirty (u_h m)) (del_nth (u_topics m) i)
  | None => mkUnsub (h_dirty (u_h m)) (u_topics m)
  end.
Definition unsub_set_pid (m : unsubmsg) (v : N) := mkUnsub (set_pid (u_h m) v) (u_topics m).

Definition unsub_msglen (m : unsubmsg) : N :=
  2 + fold_right (fun t acc => 2 + len t + acc) 0 (u_topics m).
Definition unsub_len (m : unsubmsg) : unsubmsg * nat :=
  if negb (dirty (u_h m)) then (m, length (dbuf (u_h m))) else
  match set_remlen (u_h m) (unsub_msglen m) with
  | None => (m, 0%nat)
  | Some h => (mkUnsub h (u_topics m), (hdr_msglen h + N.to_nat (unsub_msglen m))%nat)
  end.

Fixpoint unsub_loop (fuel : nat) (src : bytes) (total : nat) (rem : Z)
         (ts : list bytes) : outcome (list bytes * nat) :=
  if (rem <=? 0)%Z then Ok (ts, total) else
  match fuel with
  | O => Panic
  | S f =>
      do rest <- from src total;
      do tr <- at_off total (read_lp rest);
      let '(t, n) := tr in
      unsub_loop f src (total + n)%nat (rem - Z.of_nat n)%Z (ts ++ [t])
  end.

Definition unsub_decode (m : unsubmsg) (src : bytes) : outcome (unsubmsg * nat) :=
  do hr <- hdr_decode (u_h m) src;
  let '(h, hn) := hr in
  let src := dbuf h in
  let total := hn in
  if remlen h <? 2 then Err 0 total else
  do p <- sl src total (total + 2);
  do hi <- idx p 0; do lo <- idx p 1;
  let h := mkHdr (remlen h) (tf h) (Some (rd16 hi lo)) (dbuf h) (dirty h) (hal h) (Some total) in
  let total := (total + 2)%nat in
  let rem := (Z.of_N (remlen h) - Z.of_nat (total - hn))%Z in
  do r <- unsub_loop (S (length src)) src total rem (u_topics m);
  let '(ts, total) := r in
  if (length ts =? 0)%nat then Err 0 0 else
  Ok (mkUnsub (h_clean h) ts, total).

Definition unsub_encode (m : unsubmsg) (c : N) (dstlen : nat) : outcome (unsubmsg * N * bytes) :=
  if negb (dirty (u_h m)) then
    if (dstlen <? length (dbuf (u_h m)))%nat then Err 0 0 else Ok (m, c, dbuf (u_h m))
  else
    let hl := hdr_msglen (u_h m) in
    if (dstlen <? hl + N.to_nat (unsub_msglen m))%nat then Err 0 0 else
    match set_remlen (u_h m) (unsub_msglen m) with
    | None => Err 0 0
    | Some h =>
        do hb <- hdr_encode h dstlen;
        let '(h, c) := if packet_id h =? 0 then
                         let '(c', id) := next_pid c in (set_pid h id, c')
                       else (h, c) in
        let body := fold_left (fun acc t =>
                       match acc with
                       | None => None
                       | Some b => match write_lp t with
                                   | None => None
                                   | Some tb => Some (b ++ tb)
                                   end
                       end) (u_topics m) (Some []) in
        match body with
        | None => Err 0 (length hb)
        | Some b => Ok (mkUnsub h (u_topics m), c, hb ++ be16 (packet_id h) ++ b)
        end
    end.

(* ---------- CONNECT ---------- *)

Record connmsg := mkConn {
  c_h : hdr; c_flags : N; c_version : N; c_keepalive : N;
  c_proto : bytes; c_cid : bytes; c_wt : bytes; c_wm : bytes; c_user : bytes; c_pass : bytes
}.
Definition conn_new : connmsg := mkConn (new_hdr T_CONNECT) 0 0 0 [] [] [] [] [] [].

Definition cw (m : connmsg) (f : N) : connmsg :=
  mkConn (h_dirty (c_h m)) f (c_version m) (c_keepalive m) (c_proto m) (c_cid m) (c_wt m) (c_wm m) (c_user m) (c_pass m).
Definition setbit (f : N) (mask : N) (v : bool) : N :=
  if v then N.lor f mask else N.land f (255 - mask).
Definition version_ok (v : N) : bool := existsb (fun e => fst e =? v) supported_versions.

Definition conn_set_version (m : connmsg) (v : N) : option connmsg :=
  if version_ok v then
    Some (mkConn (h_dirty (c_h m)) (c_flags m) v (c_keepalive m) (c_proto m) (c_cid m) (c_wt m) (c_wm m) (c_user m) (c_pass m))
  else None.
Definition conn_set_clean (m : connmsg) (v : bool) := cw m (setbit (c_flags m) 2 v).
Definition conn_set_willflag (m : connmsg) (v : bool) := cw m (setbit (c_flags m) 4 v).
Definition conn_set_willqos (m : connmsg) (q : N) : option connmsg :=
  if q <? 3 then Some (cw m (N.lor (N.land (c_flags m) 231) (q * 8))) else None.
Definition conn_set_willretain (m : connmsg) (v : bool) := cw m (setbit (c_flags m) 32 v).
Definition conn_set_userflag (m : connmsg) (v : bool) := cw m (setbit (c_flags m) 128 v).
Definition conn_set_passflag (m : connmsg) (v : bool) := cw m (setbit (c_flags m) 64 v).
Definition conn_set_keepalive (m : connmsg) (v : N) :=
  mkConn (h_dirty (c_h m)) (c_flags m) (c_version m) v (c_proto m) (c_cid m) (c_wt m) (c_wm m) (c_user m) (c_pass m).
Definition conn_set_cid (m : connmsg) (v : bytes) : option connmsg :=
  if negb (length v =? 0)%nat && negb (valid_clientid v) then None else
  Some (mkConn (h_dirty (c_h m)) (c_flags m) (c_version m) (c_keepalive m) (c_proto m) v (c_wt m) (c_wm m) (c_user m) (c_pass m)).
Definition conn_set_wt (m : connmsg) (v : bytes) : connmsg :=
  let m1 := mkConn (c_h m) (c_flags m) (c_version m) (c_keepalive m) (c_proto m) (c_cid m) v (c_wm m) (c_user m) (c_pass m) in
  let m2 := if negb (length v =? 0)%nat then conn_set_willflag m1 true
            else if (length (c_wm m) =? 0)%nat then conn_set_willflag m1 false else m1 in
  cw m2 (c_flags m2).
Definition conn_set_wm (m : connmsg) (v : bytes) : connmsg :=
  let m1 := mkConn (c_h m) (c_flags m) (c_version m) (c_keepalive m) (c_proto m) (c_cid m) (c_wt m) v (c_user m) (c_pass m) in
  let m2 := if negb (length v =? 0)%nat then conn_set_willflag m1 true
            else if (length (c_wt m) =? 0)%nat then conn_set_willflag m1 false else m1 in
  cw m2 (c_flags m2).
Definition conn_set_user (m : connmsg) (v : bytes) : connmsg :=
  let m1 := mkConn (c_h m) (c_flags m) (c_version m) (c_keepalive m) (c_proto m) (c_cid m) (c_wt m) (c_wm m) v (c_pass m) in
  conn_set_userflag m1 (negb (length v =? 0)%nat).
Definition conn_set_pass (m : connmsg) (v : bytes) : connmsg :=
  let m1 := mkConn (c_h m) (c_flags m) (c_version m) (c_keepalive m) (c_proto m) (c_cid m) (c_wt m) (c_wm m) (c_user m) v in
  conn_set_passflag m1 (negb (length v =? 0)%nat).

Definition conn_willflag (m : connmsg) := N.testbit (c_flags m) 2.
Definition conn_userflag (m : connmsg) := N.testbit (c_flags m) 7.
Definition conn_passflag (m : connmsg) := N.testbit (c_flags m) 6.
Definition conn_clean (m : connmsg) := N.testbit (c_flags m) 1.
Definition conn_willqos (m : connmsg) := (c_flags m / 8) mod 4.
Definition conn_willretain (m : connmsg) := N.testbit (c_flags m) 5.

Definition conn_msglen (m : connmsg) : N :=
  if negb (version_ok (c_version m)) then 0 else
  2 + len (proto_name (c_version m)) + 1 + 1 + 2
  + (2 + len (c_cid m))
  + (if conn_willflag m then 2 + len (c_wt m) + 2 + len (c_wm m) else 0)
  + (if conn_userflag m && negb (length (c_user m) =? 0)%nat then 2 + len (c_user m) else 0)
  + (if conn_passflag m && negb (length (c_pass m) =? 0)%nat then 2 + len (c_pass m) else 0).

Definition cwh (m : connmsg) (h : hdr) : connmsg :=
  mkConn h (c_flags m) (c_version m) (c_keepalive m) (c_proto m) (c_cid m) (c_wt m) (c_wm m) (c_user m) (c_pass m).

Definition conn_len (m : connmsg) : connmsg * nat :=
  if negb (dirty (c_h m)) then (m, length (dbuf (c_h m))) else
  match set_remlen (c_h m) (conn_msglen m) with
  | None => (m, 0%nat)
  | Some h => (cwh m h, (hdr_msglen h + N.to_nat (conn_msglen m))%nat)
  end.

(* decodeMessage(src): error classes 1 = ErrInvalidProtocolVersion, 2 = ErrIdentifierRejected *)
Definition conn_decode_body (m : connmsg) (src : bytes) : outcome (connmsg * nat) :=
  do tr <- read_lp src;
  let '(proto, n) := tr in
  let total := n in
  do rest <- from src total;
  if (length rest <? 2)%nat then Err 0 total else
  do version <- idx src total;
  let total := S total in
  if negb (version_ok version) then Err 1 total else
  if negb (beq_bytes (proto_name version) proto) then Err 1 total else
  do flags <- idx src total;
  let total := S total in
  if negb (N.land flags 1 =? 0) then Err 0 total else
  let wq := (flags / 8) mod 4 in
  if 2 <? wq then Err 0 total else
  let wf := N.testbit flags 2 in
  if negb wf && (N.testbit flags 5 || negb (wq =? 0)) then Err 0 total else
  do rest <- from src total;
  if (length rest <? 2)%nat then Err 0 0 else
  do k1 <- idx src total; do k2 <- idx src (S total);
  let keepalive := rd16 k1 k2 in
  let total := (total + 2)%nat in
  do rest <- from src total;
  do tr <- at_off total (read_lp rest);
  let '(cid, n) := tr in
  let total := (total + n)%nat in
  if (length cid =? 0)%nat && negb (N.testbit flags 1) then Err 2 total else
  if negb (length cid =? 0)%nat && negb (valid_clientid cid) then Err 2 total else
  do w <- (if wf then
             do rest <- from src total;
             do tr <- at_off total (read_lp rest);
             let '(wt, n) := tr in
             let total := (total + n)%nat in
             do rest <- from src total;
             do tr <- at_off total (read_lp rest);
             let '(wm, n) := tr in
             Ok (wt, wm, (total + n)%nat)
           else Ok (c_wt m, c_wm m, total));
  let '(wt, wm, total) := w in
  do u <- (do rest <- from src total;
           if N.testbit flags 7 && negb (length rest =? 0)%nat then
             do tr <- at_off total (read_lp rest);
             let '(s, n) := tr in Ok (s, (total + n)%nat)
           else Ok (c_user m, total));
  let '(user, total) := u in
  do pw <- (do rest <- from src total;
            if N.testbit flags 6 && negb (length rest =? 0)%nat then
              do tr <- at_off total (read_lp rest);
              let '(s, n) := tr in Ok (s, (total + n)%nat)
            else Ok (c_pass m, total));
  let '(pass, total) := pw in
  Ok (mkConn (c_h m) flags version keepalive proto cid wt wm user pass, total).

Definition conn_decode (m : connmsg) (src : bytes) : outcome (connmsg * nat) :=
  do hr <- hdr_decode (c_h m) src;
  let '(h, hn) := hr in
  let src := dbuf h in
  do rest <- from src hn;
  do r <- at_off hn (conn_decode_body (cwh m h) rest);
  let '(m', n) := r in
  Ok (cwh m' (h_clean (c_h m')), (hn + n)%nat).

Definition conn_encode_body (m : connmsg) : option bytes :=
  match write_lp (proto_name (c_version m)), write_lp (c_cid m) with
  | Some pb, Some cb =>
      let pre := pb ++ [c_version m; c_flags m] ++ be16 (c_keepalive m) ++ cb in
      let will := if conn_willflag m then
                    match write_lp (c_wt m), write_lp (c_wm m) with
                    | Some a, Some b => Some (a ++ b)
                    | _, _ => None
                    end
                  else Some [] in
      let user := if conn_userflag m && negb (length (c_user m) =? 0)%nat then write_lp (c_user m) else Some [] in
      let pass := if conn_passflag m && negb (length (c_pass m) =? 0)%nat then write_lp (c_pass m) else Some [] in
      match will, user, pass with
      | Some w, Some u, Some p => Some (pre ++ w ++ u ++ p)
      | _, _, _ => None
      end
  | _, _ => None
  end.

Definition conn_encode (m : connmsg) (dstlen : nat) : outcome (connmsg * bytes) :=
  if negb (dirty (c_h m)) then
    if (dstlen <? length (dbuf (c_h m)))%nat then Err 0 0 else Ok (m, dbuf (c_h m))
  else if negb (h_type (c_h m) =? T_CONNECT) then Err 0 0
  else if negb (version_ok (c_version m)) then Err 1 0
  else
    let hl := hdr_msglen (c_h m) in
    if (dstlen <? hl + N.to_nat (conn_msglen m))%nat then Err 0 0 else
    match set_remlen (c_h m) (conn_msglen m) with
    | None => Err 0 0
    | Some h =>
        do hb <- hdr_encode h dstlen;
        match conn_encode_body m with
        | None => Err 0 (length hb)
        | Some b => Ok (cwh m h, hb ++ b)
        end
    end.
