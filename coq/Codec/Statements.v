(* Statements of the codec properties C03 / C04 over the model of package message.
   Only definitions: the proofs are in Codec/Proofs*.v and the property files close the
   statements with [exact]. *)
From Base Require Import Tactics Bytes.
From Gen Require Import Tables.
From Codec Require Import Wire Impl.
Open Scope N_scope.

(* ---------- abstraction: the packet value a message stands for ---------- *)

Definition abs_pub (m : pubmsg) : packet :=
  PPublish (pub_dup m) (pub_qos m) (pub_retain m) (p_topic m)
           (if pub_qos m =? 0 then 0 else packet_id (p_h m)) (p_payload m).
Definition abs_ack (h : hdr) : packet := PAck (h_type h) (packet_id h).
Definition abs_empty (h : hdr) : packet := PEmpty (h_type h).
Definition abs_connack (m : connackmsg) : packet := PConnack (k_sp m) (k_code m).
Definition abs_suback (m : subackmsg) : packet := PSuback (packet_id (sa_h m)) (sa_codes m).
Definition abs_sub (m : submsg) : packet := PSubscribe (packet_id (s_h m)) (combine (s_topics m) (s_qos m)).
Definition abs_unsub (m : unsubmsg) : packet := PUnsubscribe (packet_id (u_h m)) (u_topics m).
Definition abs_conn (m : connmsg) : packet :=
  PConnect {| cp_version := c_version m; cp_flags := c_flags m; cp_keepalive := c_keepalive m;
              cp_clientid := c_cid m; cp_willtopic := c_wt m; cp_willmsg := c_wm m;
              cp_username := c_user m; cp_password := c_pass m |}.

(* the identifier an automatically numbered packet gets from counter value c *)
Definition auto_id (c : N) : N := snd (next_pid c).
Definition pid_or_auto (h : hdr) (c : N) : N := if packet_id h =? 0 then auto_id c else packet_id h.
Definition counter_after (h : hdr) (c : N) : N := if packet_id h =? 0 then fst (next_pid c) else c.

Definition abs_pub_c (m : pubmsg) (c : N) : packet :=
  PPublish (pub_dup m) (pub_qos m) (pub_retain m) (p_topic m)
           (if pub_qos m =? 0 then 0 else pid_or_auto (p_h m) c) (p_payload m).
Definition abs_sub_c (m : submsg) (c : N) : packet :=
  PSubscribe (pid_or_auto (s_h m) c) (combine (s_topics m) (s_qos m)).
Definition abs_unsub_c (m : unsubmsg) (c : N) : packet :=
  PUnsubscribe (pid_or_auto (u_h m) c) (u_topics m).

(* ---------- messages that can be built through the API ---------- *)

Definition u16 (v : N) : Prop := v < 65536.

Inductive built_hdr : hdr -> Prop :=
| bh_new ty : type_valid ty = true -> built_hdr (new_hdr ty)
| bh_pid h v : built_hdr h -> u16 v -> built_hdr (set_pid h v).

Inductive built_pub : pubmsg -> Prop :=
| bp_new : built_pub pub_new
| bp_dup m v : built_pub m -> built_pub (pub_set_dup m v)
| bp_retain m v : built_pub m -> built_pub (pub_set_retain m v)
| bp_qos m v m' : built_pub m -> pub_set_qos m v = Some m' -> built_pub m'
| bp_topic m t m' : built_pub m -> bytes_ok t = true -> pub_set_topic m t = Some m' -> built_pub m'
| bp_payload m t : built_pub m -> bytes_ok t = true -> built_pub (pub_set_payload m t)
| bp_pid m v : built_pub m -> u16 v -> built_pub (pub_set_pid m v)
| bp_len m : built_pub m -> built_pub (fst (pub_len m)).

Inductive built_ack : hdr -> Prop :=
| ba_new ty : is_ack_type ty = true -> built_ack (ack_new ty)
| ba_pid h v : built_ack h -> u16 v -> built_ack (set_pid h v)
| ba_len h : built_ack h -> built_ack (fst (ack_len h)).

Inductive built_connack : connackmsg -> Prop :=
| bk_new : built_connack connack_new
| bk_sp m v : built_connack m -> built_connack (connack_set_sp m v)
| bk_code m v : built_connack m -> v < 256 -> built_connack (connack_set_code m v)
| bk_len m : built_connack m -> built_connack (fst (connack_len m)).

Inductive built_suback : subackmsg -> Prop :=
| bsa_new : built_suback suback_new
| bsa_codes m cs : built_suback m -> bytes_ok cs = true -> built_suback (fst (suback_add_codes m cs))
| bsa_pid m v : built_suback m -> u16 v -> built_suback (suback_set_pid m v)
| bsa_len m : built_suback m -> built_suback (fst (suback_len m)).

Inductive built_sub : submsg -> Prop :=
| bs_new : built_sub sub_new
| bs_add m t q m' : built_sub m -> bytes_ok t = true -> sub_add_topic m t q = Some m' -> built_sub m'
| bs_rm m t : built_sub m -> built_sub (sub_remove_topic m t)
| bs_pid m v : built_sub m -> u16 v -> built_sub (sub_set_pid m v)
| bs_len m : built_sub m -> built_sub (fst (sub_len m)).

Inductive built_unsub : unsubmsg -> Prop :=
| bu_new : built_unsub unsub_new
| bu_add m t : built_unsub m -> bytes_ok t = true -> built_unsub (unsub_add_topic m t)
| bu_rm m t : built_unsub m -> built_unsub (unsub_remove_topic m t)
| bu_pid m v : built_unsub m -> u16 v -> built_unsub (unsub_set_pid m v)
| bu_len m : built_unsub m -> built_unsub (fst (unsub_len m)).

Inductive built_conn : connmsg -> Prop :=
| bc_new : built_conn conn_new
| bc_version m v m' : built_conn m -> conn_set_version m v = Some m' -> built_conn m'
| bc_clean m v : built_conn m -> built_conn (conn_set_clean m v)
| bc_willflag m v : built_conn m -> built_conn (conn_set_willflag m v)
| bc_willqos m v m' : built_conn m -> conn_set_willqos m v = Some m' -> built_conn m'
| bc_willretain m v : built_conn m -> built_conn (conn_set_willretain m v)
| bc_userflag m v : built_conn m -> built_conn (conn_set_userflag m v)
| bc_passflag m v : built_conn m -> built_conn (conn_set_passflag m v)
| bc_keepalive m v : built_conn m -> u16 v -> built_conn (conn_set_keepalive m v)
| bc_cid m t m' : built_conn m -> bytes_ok t = true -> conn_set_cid m t = Some m' -> built_conn m'
| bc_wt m t : built_conn m -> bytes_ok t = true -> built_conn (conn_set_wt m t)
| bc_wm m t : built_conn m -> bytes_ok t = true -> built_conn (conn_set_wm m t)
| bc_user m t : built_conn m -> bytes_ok t = true -> built_conn (conn_set_user m t)
| bc_pass m t : built_conn m -> bytes_ok t = true -> built_conn (conn_set_pass m t)
| bc_len m : built_conn m -> built_conn (fst (conn_len m)).

(* ---------- C03: Encode writes exactly Len() bytes and they are the wire encoding ---------- *)
(* In each statement: for every message built through the API whose fields form a well-formed
   packet, Len() = l, and Encode into any buffer of at least l bytes succeeds, writes exactly the
   wire encoding of the packet (l bytes), numbers an id-less packet with a non-zero identifier
   taken from the counter, and leaves a message that stands for the packet written. *)

Definition C03_encode_pub : Prop := forall m c dl,
  built_pub m -> packet_ok (abs_pub_c m c) = true ->
  let '(m1, l) := pub_len m in
  l = length (wire (abs_pub_c m c)) /\
  ((l <= dl)%nat -> exists m2,
     pub_encode m1 c dl = Ok (m2, (if pub_qos m =? 0 then c else counter_after (p_h m) c), wire (abs_pub_c m c))
     /\ abs_pub m2 = abs_pub_c m c).

Definition C03_encode_ack : Prop := forall h dl,
  built_ack h ->
  let '(h1, l) := ack_len h in
  l = length (wire (abs_ack h)) /\
  ((l <= dl)%nat -> exists h2, ack_encode h1 dl = Ok (h2, wire (abs_ack h)) /\ abs_ack h2 = abs_ack h).

Definition C03_encode_empty : Prop := forall ty dl,
  is_empty_type ty = true ->
  let h := empty_new ty in
  empty_len h = length (wire (abs_empty h)) /\
  ((empty_len h <= dl)%nat -> empty_encode h dl = Ok (wire (abs_empty h))).

Definition C03_encode_connack : Prop := forall m dl,
  built_connack m -> packet_ok (abs_connack m) = true ->
  let '(m1, l) := connack_len m in
  l = length (wire (abs_connack m)) /\
  ((l <= dl)%nat -> exists m2, connack_encode m1 dl = Ok (m2, wire (abs_connack m)) /\ abs_connack m2 = abs_connack m).

Definition C03_encode_suback : Prop := forall m dl,
  built_suback m -> packet_ok (abs_suback m) = true ->
  let '(m1, l) := suback_len m in
  l = length (wire (abs_suback m)) /\
  ((l <= dl)%nat -> exists m2, suback_encode m1 dl = Ok (m2, wire (abs_suback m)) /\ abs_suback m2 = abs_suback m).

Definition C03_encode_sub : Prop := forall m c dl,
  built_sub m -> packet_ok (abs_sub_c m c) = true ->
  let '(m1, l) := sub_len m in
  l = length (wire (abs_sub_c m c)) /\
  ((l <= dl)%nat -> exists m2,
     sub_encode m1 c dl = Ok (m2, counter_after (s_h m) c, wire (abs_sub_c m c)) /\ abs_sub m2 = abs_sub_c m c).

Definition C03_encode_unsub : Prop := forall m c dl,
  built_unsub m -> packet_ok (abs_unsub_c m c) = true ->
  let '(m1, l) := unsub_len m in
  l = length (wire (abs_unsub_c m c)) /\
  ((l <= dl)%nat -> exists m2,
     unsub_encode m1 c dl = Ok (m2, counter_after (u_h m) c, wire (abs_unsub_c m c)) /\ abs_unsub m2 = abs_unsub_c m c).

Definition C03_encode_conn : Prop := forall m dl,
  built_conn m -> packet_ok (abs_conn m) = true ->
  let '(m1, l) := conn_len m in
  l = length (wire (abs_conn m)) /\
  ((l <= dl)%nat -> exists m2, conn_encode m1 dl = Ok (m2, wire (abs_conn m)) /\ abs_conn m2 = abs_conn m).

(* automatically assigned identifiers: never zero, 16 bit, for every counter value *)
Definition C03_packet_ids : Prop := forall c,
  auto_id c <> 0 /\ auto_id c < 65536 /\
  (fst (next_pid c) = c + 1 \/ fst (next_pid c) = c + 2) /\
  (fst (next_pid c)) mod 65536 = auto_id c.

(* ---------- C03 / C04: every well-formed packet is accepted, also when followed by other
   bytes; exactly the packet is consumed; the decoded message stands for the packet ---------- *)

Definition C04_accepts_pub : Prop := forall dup qos retain topic pid payload rest,
  let p := PPublish dup qos retain topic pid payload in
  packet_ok p = true ->
  exists m, pub_decode pub_new (wire p ++ rest) = Ok (m, length (wire p)) /\ abs_pub m = p.
Definition C04_accepts_ack : Prop := forall ty pid rest,
  let p := PAck ty pid in
  packet_ok p = true ->
  exists h, ack_decode (ack_new ty) (wire p ++ rest) = Ok (h, length (wire p)) /\ abs_ack h = p.
Definition C04_accepts_empty : Prop := forall ty rest,
  let p := PEmpty ty in
  packet_ok p = true ->
  exists h, empty_decode (empty_new ty) (wire p ++ rest) = Ok (h, length (wire p)) /\ abs_empty h = p.
Definition C04_accepts_connack : Prop := forall sp code rest,
  let p := PConnack sp code in
  packet_ok p = true ->
  exists m, connack_decode connack_new (wire p ++ rest) = Ok (m, length (wire p)) /\ abs_connack m = p.
Definition C04_accepts_suback : Prop := forall pid codes rest,
  let p := PSuback pid codes in
  packet_ok p = true ->
  exists m, suback_decode suback_new (wire p ++ rest) = Ok (m, length (wire p)) /\ abs_suback m = p.
Definition C04_accepts_sub : Prop := forall pid topics rest,
  let p := PSubscribe pid topics in
  packet_ok p = true ->
  exists m, sub_decode sub_new (wire p ++ rest) = Ok (m, length (wire p)) /\ abs_sub m = p.
Definition C04_accepts_unsub : Prop := forall pid topics rest,
  let p := PUnsubscribe pid topics in
  packet_ok p = true ->
  exists m, unsub_decode unsub_new (wire p ++ rest) = Ok (m, length (wire p)) /\ abs_unsub m = p.
Definition C04_accepts_conn : Prop := forall c rest,
  let p := PConnect c in
  packet_ok p = true ->
  exists m, conn_decode conn_new (wire p ++ rest) = Ok (m, length (wire p)) /\ abs_conn m = p.

(* ---------- C03: re-encoding what a decoder accepted reproduces the packet's bytes ---------- *)
(* [l] is Len() of the decoded message = the length of the packet announced by its fixed header;
   the decoder consumed n <= l bytes (n = l except for a CONNECT with unused trailing bytes). *)

Definition C03_reencode_pub : Prop := forall src m n c,
  pub_decode pub_new src = Ok (m, n) ->
  let '(m1, l) := pub_len m in
  n = l /\ (l <= length src)%nat /\ pub_encode m1 c l = Ok (m1, c, firstn l src).
Definition C03_reencode_ack : Prop := forall ty src h n,
  ack_decode (ack_new ty) src = Ok (h, n) ->
  let '(h1, l) := ack_len h in
  n = l /\ (l <= length src)%nat /\ ack_encode h1 l = Ok (h1, firstn l src).
Definition C03_reencode_empty : Prop := forall ty src h n,
  empty_decode (empty_new ty) src = Ok (h, n) ->
  n = empty_len h /\ (n <= length src)%nat /\ empty_encode h n = Ok (firstn n src).
Definition C03_reencode_connack : Prop := forall src m n,
  connack_decode connack_new src = Ok (m, n) ->
  let '(m1, l) := connack_len m in
  n = l /\ (l <= length src)%nat /\ connack_encode m1 l = Ok (m1, firstn l src).
Definition C03_reencode_suback : Prop := forall src m n,
  suback_decode suback_new src = Ok (m, n) ->
  let '(m1, l) := suback_len m in
  n = l /\ (l <= length src)%nat /\ suback_encode m1 l = Ok (m1, firstn l src).
Definition C03_reencode_sub : Prop := forall src m n c,
  sub_decode sub_new src = Ok (m, n) ->
  let '(m1, l) := sub_len m in
  n = l /\ (l <= length src)%nat /\ sub_encode m1 c l = Ok (m1, c, firstn l src).
Definition C03_reencode_unsub : Prop := forall src m n c,
  unsub_decode unsub_new src = Ok (m, n) ->
  let '(m1, l) := unsub_len m in
  n = l /\ (l <= length src)%nat /\ unsub_encode m1 c l = Ok (m1, c, firstn l src).
Definition C03_reencode_conn : Prop := forall src m n,
  conn_decode conn_new src = Ok (m, n) ->
  let '(m1, l) := conn_len m in
  (n <= l)%nat /\ (l <= length src)%nat /\ conn_encode m1 l = Ok (m1, firstn l src).

(* ---------- C04: decoders are total and stay inside the packet ---------- *)

Definition count_ok {A} (src : bytes) (o : outcome (A * nat)) : Prop :=
  match o with
  | Ok (_, n) => (n <= length src)%nat
  | Err _ n => (n <= length src)%nat
  | Panic => False
  end.

Definition C04_total_pub : Prop := forall m src, count_ok src (pub_decode m src).
Definition C04_total_ack : Prop := forall h src, count_ok src (ack_decode h src).
Definition C04_total_empty : Prop := forall h src, count_ok src (empty_decode h src).
Definition C04_total_connack : Prop := forall m src, count_ok src (connack_decode m src).
Definition C04_total_suback : Prop := forall m src, count_ok src (suback_decode m src).
Definition C04_total_sub : Prop := forall m src, count_ok src (sub_decode m src).
Definition C04_total_unsub : Prop := forall m src, count_ok src (unsub_decode m src).
Definition C04_total_conn : Prop := forall m src, count_ok src (conn_decode m src).

(* a field is a contiguous part of the bytes d *)
Definition infix (f d : bytes) : Prop :=
  exists i, (i + length f <= length d)%nat /\ firstn (length f) (skipn i d) = f.
(* d is the packet at the start of src *)
Definition is_packet_of (d src : bytes) : Prop := d = firstn (length d) src /\ (length d <= length src)%nat.

Definition C04_inside_pub : Prop := forall src m n,
  pub_decode pub_new src = Ok (m, n) ->
  let d := dbuf (p_h m) in
  is_packet_of d src /\ (n <= length d)%nat /\ infix (p_topic m) d /\ infix (p_payload m) d.
Definition C04_inside_suback : Prop := forall src m n,
  suback_decode suback_new src = Ok (m, n) ->
  let d := dbuf (sa_h m) in
  is_packet_of d src /\ (n <= length d)%nat /\ infix (sa_codes m) d.
Definition C04_inside_sub : Prop := forall src m n,
  sub_decode sub_new src = Ok (m, n) ->
  let d := dbuf (s_h m) in
  is_packet_of d src /\ (n <= length d)%nat /\ Forall (fun t => infix t d) (s_topics m)
  /\ length (s_qos m) = length (s_topics m).
Definition C04_inside_unsub : Prop := forall src m n,
  unsub_decode unsub_new src = Ok (m, n) ->
  let d := dbuf (u_h m) in
  is_packet_of d src /\ (n <= length d)%nat /\ Forall (fun t => infix t d) (u_topics m).
Definition C04_inside_conn : Prop := forall src m n,
  conn_decode conn_new src = Ok (m, n) ->
  let d := dbuf (c_h m) in
  is_packet_of d src /\ (n <= length d)%nat /\ infix (c_cid m) d /\ infix (c_wt m) d /\ infix (c_wm m) d
  /\ infix (c_user m) d /\ infix (c_pass m) d.
