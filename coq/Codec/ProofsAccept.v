(* C03 / C04: every well-formed packet is accepted, also when followed by other bytes;
   exactly the packet is consumed and the decoded message stands for the packet. *)
From Base Require Import Tactics Bytes.
From Gen Require Import Tables.
From Codec Require Import Wire Impl Statements ProofsHeader.
Open Scope N_scope.


(* ---------- ack ---------- *)

Lemma accepts_ack : C04_accepts_ack.
Proof.
  intros ty pid rest p OK. subst p. cbn [packet_ok] in OK.
  apply andb_true_iff in OK as [HT HP]. apply N.ltb_lt in HP.
  pose proof (ack_type_cases ty HT) as TC.
  pose proof (default_flags_lt16 ty) as FL.
  cbn [wire]. unfold ack_decode, ack_new.
  rewrite (hdr_decode_fixed (new_hdr ty) ty (default_flags ty) (be16 pid) rest).
  2: { apply type_valid_iff. lia. }
  2: { exact FL. }
  2: { apply new_hdr_type. }
  2: { apply flags_cond_default. unfold T_PUBLISH. lia. }
  2: { exact max_ge_2. }
  cbn [bind remlen tf dbuf hal].
  change (len (be16 pid)) with 2. rewrite N.eqb_refl. cbn [negb].
  rewrite (varint_small 2) by lia.
  change (fixed ty (default_flags ty) (be16 pid) ++ rest)
    with ([ty * 16 + default_flags ty; 2] ++ be16 pid ++ rest).
  rewrite sl_app3 by reflexivity. cbn [bind].
  unfold be16 at 1 2. cbn [idx nth_error bind].
  eexists. split; [reflexivity|].
  unfold abs_ack, h_type, packet_id. cbn [tf Impl.pid].
  rewrite div16 by exact FL. rewrite rd16_be16 by exact HP. reflexivity.
Qed.

(* ---------- empty ---------- *)

Lemma accepts_empty : C04_accepts_empty.
Proof.
  intros ty rest p OK. subst p. cbn [packet_ok] in OK.
  pose proof (empty_type_cases ty OK) as TC.
  pose proof (default_flags_lt16 ty) as FL.
  cbn [wire]. unfold empty_decode, empty_new.
  rewrite (hdr_decode_fixed (new_hdr ty) ty (default_flags ty) [] rest).
  2: { apply type_valid_iff. lia. }
  2: { exact FL. }
  2: { apply new_hdr_type. }
  2: { apply flags_cond_default. unfold T_PUBLISH. lia. }
  2: { change (len []) with 0. lia. }
  cbn [bind remlen].
  change (len []) with 0. rewrite N.eqb_refl. cbn [negb].
  eexists. split; [reflexivity|].
  unfold abs_empty, h_type, h_clean. cbn [tf].
  rewrite div16 by exact FL. reflexivity.
Qed.

(* ---------- connack ---------- *)

Lemma accepts_connack : C04_accepts_connack.
Proof.
  intros sp code rest p OK. subst p. cbn [packet_ok] in OK.
  unfold connack_max_code in OK. apply N.leb_le in OK.
  cbn [wire]. change (default_flags T_CONNACK) with 0.
  unfold connack_decode, connack_new. cbn [k_h].
  rewrite (hdr_decode_fixed (new_hdr T_CONNACK) T_CONNACK 0 [b2n sp; code] rest).
  2: { reflexivity. }
  2: { lia. }
  2: { apply new_hdr_type. }
  2: { reflexivity. }
  2: { change (len [b2n sp; code]) with 2. exact max_ge_2. }
  cbn [bind remlen].
  change (len [b2n sp; code]) with 2. rewrite N.eqb_refl. cbn [negb].
  rewrite (varint_small 2) by lia.
  change (fixed T_CONNACK 0 [b2n sp; code] ++ rest)
    with ((T_CONNACK * 16 + 0) :: 2 :: b2n sp :: code :: rest).
  cbn [length idx nth_error bind].
  assert (E1 : negb (N.land (b2n sp) 254 =? 0) = false) by (destruct sp; reflexivity).
  rewrite E1.
  destruct (5 <? code) eqn:E2; [lia|].
  eexists. split; [reflexivity|].
  unfold abs_connack. cbn [k_sp k_code].
  f_equal. destruct sp; reflexivity.
Qed.

(* ---------- suback ---------- *)

Lemma accepts_suback : C04_accepts_suback.
Proof.
  intros pid codes rest p OK. subst p. cbn [packet_ok] in OK.
  apply andb_true_iff in OK as [OK HB]. apply andb_true_iff in OK as [HP HC].
  apply N.ltb_lt in HP. apply body_len_ok_le in HB.
  cbn [wire]. change (default_flags T_SUBACK) with 0.
  unfold suback_decode, suback_new. cbn [sa_h].
  set (body := be16 pid ++ codes) in *.
  assert (LB : len body = 2 + len codes) by (unfold body; rewrite len_app; reflexivity).
  rewrite (hdr_decode_fixed (new_hdr T_SUBACK) T_SUBACK 0 body rest).
  2: { reflexivity. }
  2: { lia. }
  2: { apply new_hdr_type. }
  2: { reflexivity. }
  2: { exact HB. }
  cbn [bind remlen].
  destruct (len body <? 2) eqn:E1; [lia|].
  set (hn := S (length (varint (len body)))).
  assert (ES : fixed T_SUBACK 0 body ++ rest =
               ((T_SUBACK * 16 + 0) :: varint (len body)) ++ be16 pid ++ (codes ++ rest)).
  { unfold body. apply fixed_app2. }
  rewrite ES.
  rewrite sl_app3 by reflexivity. cbn [bind].
  unfold be16 at 1 2. cbn [idx nth_error bind remlen].
  assert (ES2 : ((T_SUBACK * 16 + 0) :: varint (len body)) ++ be16 pid ++ (codes ++ rest) =
                (((T_SUBACK * 16 + 0) :: varint (len body)) ++ be16 pid) ++ codes ++ rest).
  { rewrite <- app_assoc. reflexivity. }
  rewrite ES2.
  pose proof (to_nat_len codes) as TL.
  rewrite (sl_app3 _ codes rest (hn + 2)%nat).
  2: { rewrite app_length. cbn [length be16]. unfold hn. lia. }
  2: { lia. }
  cbn [bind]. unfold code_ok. fold code_ok.
  assert (HC' : forallb code_ok codes = true) by exact HC.
  rewrite HC'. cbn [negb].
  eexists. split.
  - apply ok_pair_eq.
    unfold wire. change (default_flags T_SUBACK) with 0. fold body.
    rewrite fixed_length. fold hn. unfold body. rewrite app_length. cbn [length be16]. lia.
  - unfold abs_suback, h_clean, packet_id. cbn [sa_h sa_codes Impl.pid].
    rewrite rd16_be16 by exact HP. reflexivity.
Qed.

(* ---------- publish ---------- *)

Lemma pub_flags_bits dup qos retain : qos < 3 ->
  N.testbit (T_PUBLISH * 16 + (b2n dup * 8 + qos * 2 + b2n retain)) 3 = dup /\
  publish_qos_of_flags (b2n dup * 8 + qos * 2 + b2n retain) = qos /\
  N.testbit (T_PUBLISH * 16 + (b2n dup * 8 + qos * 2 + b2n retain)) 0 = retain /\
  b2n dup * 8 + qos * 2 + b2n retain < 16.
Proof.
  intros H. assert (C : qos = 0 \/ qos = 1 \/ qos = 2) by lia.
  destruct C as [ -> | [ -> | -> ] ]; destruct dup, retain; vm_compute; repeat split; reflexivity.
Qed.

Lemma accepts_pub : C04_accepts_pub.
Proof.
  intros dup qos retain topic pid payload rest p OK. subst p. cbn [packet_ok] in OK.
  apply andb_true_iff in OK as [OK HBL]. apply body_len_ok_le in HBL.
  apply andb_true_iff in OK as [OK HQ2].
  apply andb_true_iff in OK as [OK HQ1].
  apply andb_true_iff in OK as [OK HPID]. apply N.ltb_lt in HPID.
  apply andb_true_iff in OK as [OK HPAY].
  apply andb_true_iff in OK as [OK HVT].
  apply andb_true_iff in OK as [HQ HSO]. apply N.ltb_lt in HQ.
  pose proof (str_ok_le _ HSO) as HTL.
  destruct (pub_flags_bits dup qos retain HQ) as (B3 & BQ & B0 & FL).
  cbn [wire].
  remember (b2n dup * 8 + qos * 2 + b2n retain) as fl eqn:Efl.
  remember (if qos =? 0 then [] else be16 pid) as pidb eqn:Epidb.
  remember (lp topic ++ pidb ++ payload) as body eqn:Ebody.
  unfold pub_decode, pub_new. cbn [p_h].
  rewrite (hdr_decode_fixed (new_hdr T_PUBLISH) T_PUBLISH fl body rest).
  2: { reflexivity. }
  2: { exact FL. }
  2: { apply new_hdr_type. }
  2: { rewrite N.eqb_refl, BQ. lia. }
  2: { exact HBL. }
  cbn [bind dbuf tf remlen].
  pose proof (fixed_length T_PUBLISH fl body) as FXL.
  pose proof (skipn_fixed T_PUBLISH fl body) as SK.
  set (hn := S (length (varint (len body)))) in *.
  assert (LB : length body = (2 + length topic + length pidb + length payload)%nat).
  { rewrite Ebody, !app_length, lp_length. lia. }
  pose proof (to_nat_len body) as TLB.
  rewrite from_ok by lia. cbn [bind]. rewrite SK.
  assert (RL : read_lp body = Ok (topic, (2 + length topic)%nat)).
  { rewrite Ebody. apply read_lp_lp. exact HTL. }
  rewrite RL. cbn [at_off bind]. rewrite HVT. cbn [negb].
  rewrite mod16 by exact FL. rewrite BQ.
  set (pre := (T_PUBLISH * 16 + fl) :: varint (len body)).
  assert (LPRE : length pre = hn) by reflexivity.
  destruct (qos =? 0) eqn:EQ.
  - assert (pid = 0) by lia. subst pid. subst pidb. cbn [length] in LB.
    cbn [bind remlen].
    destruct (N.to_nat (len body) <? hn + (2 + length topic) - hn)%nat eqn:E1; [lia|].
    assert (EF : fixed T_PUBLISH fl body = (pre ++ lp topic) ++ payload ++ []).
    { apply fixed_pre. rewrite Ebody. cbn [app]. rewrite app_nil_r. reflexivity. }
    rewrite EF.
    rewrite (sl_app3 _ payload []).
    2: { rewrite app_length, lp_length. lia. }
    2: { lia. }
    cbn [bind].
    eexists. split.
    + apply ok_pair_eq. rewrite <- ?EF2, <- ?EF, FXL. lia.
    + unfold abs_pub, pub_dup, pub_qos, pub_retain, h_clean, h_flags.
      cbn [p_h p_topic p_payload tf].
      rewrite mod16 by exact FL. rewrite B3, BQ, B0, EQ. reflexivity.
  - subst pidb. cbn [length be16] in LB. fold (be16 pid) in LB.
    destruct (length (fixed T_PUBLISH fl body) <? hn + (2 + length topic) + 2)%nat eqn:E0; [lia|].
    assert (EF : fixed T_PUBLISH fl body = (pre ++ lp topic) ++ be16 pid ++ (payload ++ [])).
    { apply fixed_pre. rewrite Ebody. rewrite app_nil_r. reflexivity. }
    rewrite EF.
    rewrite (sl_app3 _ (be16 pid) (payload ++ [])).
    2: { rewrite app_length, lp_length. lia. }
    2: { reflexivity. }
    cbn [bind]. unfold be16 at 1 2. cbn [idx nth_error bind remlen dbuf].
    destruct (N.to_nat (len body) <? hn + (2 + length topic) + 2 - hn)%nat eqn:E1; [lia|].
    assert (EF2 : fixed T_PUBLISH fl body = ((pre ++ lp topic) ++ be16 pid) ++ payload ++ []).
    { rewrite EF. rewrite <- !app_assoc. reflexivity. }
    rewrite <- EF, EF2.
    rewrite (sl_app3 _ payload []).
    2: { rewrite !app_length, lp_length. cbn [length be16]. lia. }
    2: { lia. }
    cbn [bind].
    eexists. split.
    + apply ok_pair_eq. rewrite <- ?EF2, <- ?EF, FXL. lia.
    + unfold abs_pub, pub_dup, pub_qos, pub_retain, h_clean, h_flags, packet_id.
      cbn [p_h p_topic p_payload tf Impl.pid].
      rewrite mod16 by exact FL. rewrite B3, BQ, B0, EQ.
      rewrite rd16_be16 by exact HPID. reflexivity.
Qed.

(* ---------- subscribe ---------- *)

Definition sub_entry (tq : bytes * N) : bytes := lp (fst tq) ++ [snd tq].

Lemma sub_loop_accept : forall topics fuel src pre total rem ts qs,
  forallb (fun tq => str_ok (fst tq) && (snd tq <? 3)) topics = true ->
  src = pre ++ flat_map sub_entry topics ->
  total = length pre ->
  rem = Z.of_nat (length (flat_map sub_entry topics)) ->
  (length (flat_map sub_entry topics) < fuel)%nat ->
  sub_loop fuel src total rem ts qs = Ok (ts ++ map fst topics, qs ++ map snd topics, length src).
Proof.
  induction topics as [|[t q] topics IH]; intros fuel src pre total rem ts qs HF HS HT HR HU.
  - destruct fuel as [|f]; [lia|]. cbn [sub_loop]. cbn [flat_map length] in HR. subst rem.
    cbn [Z.of_nat Z.leb Z.compare map]. rewrite !app_nil_r.
    rewrite HS. cbn [flat_map]. rewrite app_nil_r. rewrite HT. reflexivity.
  - destruct fuel as [|f]; [lia|]. cbn [sub_loop].
    cbn [forallb fst snd] in HF. apply andb_true_iff in HF as [HF1 HF2].
    apply andb_true_iff in HF1 as [HSO HQ].
    pose proof (str_ok_le _ HSO) as HTL.
    cbn [flat_map] in HS, HR, HU. unfold sub_entry at 1 in HS. unfold sub_entry at 1 in HR. unfold sub_entry at 1 in HU.
    cbn [fst snd] in HS, HR, HU.
    set (flat := flat_map sub_entry topics) in *.
    rewrite !app_length, lp_length in HR, HU. cbn [length] in HR, HU.
    destruct (rem <=? 0)%Z eqn:ER; [lia|].
    assert (LS : length src = (length pre + (2 + length t) + 1 + length flat)%nat).
    { rewrite HS. rewrite !app_length, lp_length. cbn [length]. lia. }
    rewrite from_ok by lia. cbn [bind].
    assert (SK : skipn total src = lp t ++ ([q] ++ flat)).
    { rewrite HS. rewrite skipn_app_exact by exact HT. rewrite <- app_assoc. reflexivity. }
    rewrite SK. rewrite read_lp_lp by exact HTL. cbn [at_off bind].
    destruct (length src <? total + (2 + length t) + 1)%nat eqn:E1; [lia|].
    assert (ES : src = (pre ++ lp t) ++ q :: flat).
    { rewrite HS. rewrite <- !app_assoc. reflexivity. }
    assert (IX : idx src (total + (2 + length t)) = Ok q).
    { rewrite ES. apply idx_app_exact. rewrite app_length, lp_length. lia. }
    rewrite IX. cbn [bind].
    rewrite (IH f src (pre ++ lp t ++ [q]) _ _ (ts ++ [t]) (qs ++ [q])).
    + cbn [map fst snd]. rewrite <- !app_assoc. reflexivity.
    + exact HF2.
    + rewrite HS. rewrite <- !app_assoc. reflexivity.
    + rewrite !app_length, lp_length. cbn [length]. lia.
    + fold flat. lia.
    + fold flat. lia.
Qed.

Lemma accepts_sub : C04_accepts_sub.
Proof.
  intros pid topics rest p OK. subst p. cbn [packet_ok] in OK.
  apply andb_true_iff in OK as [OK HBL]. apply body_len_ok_le in HBL.
  apply andb_true_iff in OK as [OK HF].
  apply andb_true_iff in OK as [OK HNE].
  apply andb_true_iff in OK as [HP HP0]. apply N.ltb_lt in HP.
  cbn [wire]. change (default_flags T_SUBSCRIBE) with 2.
  fold sub_entry in *.
  remember (flat_map sub_entry topics) as flat eqn:Eflat.
  remember (be16 pid ++ flat) as body eqn:Ebody.
  unfold sub_decode, sub_new. cbn [s_h s_topics s_qos].
  rewrite (hdr_decode_fixed (new_hdr T_SUBSCRIBE) T_SUBSCRIBE 2 body rest).
  2: { reflexivity. }
  2: { lia. }
  2: { apply new_hdr_type. }
  2: { reflexivity. }
  2: { exact HBL. }
  cbn [bind dbuf tf remlen].
  pose proof (fixed_length T_SUBSCRIBE 2 body) as FXL.
  set (hn := S (length (varint (len body)))) in *.
  assert (LB : length body = (2 + length flat)%nat).
  { rewrite Ebody, app_length. reflexivity. }
  pose proof (to_nat_len body) as TLB.
  destruct (len body <? 2) eqn:E1; [lia|].
  set (pre := (T_SUBSCRIBE * 16 + 2) :: varint (len body)).
  assert (LPRE : length pre = hn) by reflexivity.
  assert (EF : fixed T_SUBSCRIBE 2 body = (pre ++ be16 pid) ++ flat).
  { apply fixed_pre. exact Ebody. }
  assert (EF2 : fixed T_SUBSCRIBE 2 body = pre ++ be16 pid ++ (flat ++ [])).
  { rewrite EF, app_nil_r, <- app_assoc. reflexivity. }
  assert (SL : sl (fixed T_SUBSCRIBE 2 body) hn (hn + 2) = Ok (be16 pid)).
  { rewrite EF2. apply sl_app3; reflexivity. }
  rewrite SL. cbn [bind].
  unfold be16 at 1 2. cbn [idx nth_error bind remlen dbuf].
  rewrite (sub_loop_accept topics _ (fixed T_SUBSCRIBE 2 body) (pre ++ be16 pid) (hn + 2)%nat).
  2: { exact HF. }
  2: { rewrite <- Eflat. exact EF. }
  2: { rewrite app_length. cbn [length be16]. lia. }
  2: { rewrite <- Eflat. lia. }
  2: { rewrite <- Eflat. rewrite FXL. lia. }
  cbn [bind app].
  destruct (length (map fst topics) =? 0)%nat eqn:E2.
  { rewrite map_length in E2. lia. }
  eexists. split.
  - apply ok_pair_eq. reflexivity.
  - unfold abs_sub, h_clean, packet_id. cbn [s_h s_topics s_qos Impl.pid].
    rewrite rd16_be16 by exact HP. rewrite combine_map_fst_snd. reflexivity.
Qed.

(* ---------- unsubscribe ---------- *)

Lemma unsub_loop_accept : forall topics fuel src pre total rem ts,
  forallb str_ok topics = true ->
  src = pre ++ flat_map lp topics ->
  total = length pre ->
  rem = Z.of_nat (length (flat_map lp topics)) ->
  (length (flat_map lp topics) < fuel)%nat ->
  unsub_loop fuel src total rem ts = Ok (ts ++ topics, length src).
Proof.
  induction topics as [|t topics IH]; intros fuel src pre total rem ts HF HS HT HR HU.
  - destruct fuel as [|f]; [lia|]. cbn [unsub_loop]. cbn [flat_map length] in HR. subst rem.
    cbn [Z.of_nat Z.leb Z.compare]. rewrite !app_nil_r.
    rewrite HS. cbn [flat_map]. rewrite app_nil_r. rewrite HT. reflexivity.
  - destruct fuel as [|f]; [lia|]. cbn [unsub_loop].
    cbn [forallb] in HF. apply andb_true_iff in HF as [HSO HF2].
    pose proof (str_ok_le _ HSO) as HTL.
    cbn [flat_map] in HS, HR, HU.
    set (flat := flat_map lp topics) in *.
    rewrite !app_length, lp_length in HR, HU.
    destruct (rem <=? 0)%Z eqn:ER; [lia|].
    assert (LS : length src = (length pre + (2 + length t) + length flat)%nat).
    { rewrite HS. rewrite !app_length, lp_length. lia. }
    rewrite from_ok by lia. cbn [bind].
    assert (SK : skipn total src = lp t ++ flat).
    { rewrite HS. rewrite skipn_app_exact by exact HT. reflexivity. }
    rewrite SK. rewrite read_lp_lp by exact HTL. cbn [at_off bind].
    rewrite (IH f src (pre ++ lp t) _ _ (ts ++ [t])).
    + rewrite <- !app_assoc. reflexivity.
    + exact HF2.
    + rewrite HS. rewrite <- !app_assoc. reflexivity.
    + rewrite !app_length, lp_length. lia.
    + fold flat. lia.
    + fold flat. lia.
Qed.

Lemma accepts_unsub : C04_accepts_unsub.
Proof.
  intros pid topics rest p OK. subst p. cbn [packet_ok] in OK.
  apply andb_true_iff in OK as [OK HBL]. apply body_len_ok_le in HBL.
  apply andb_true_iff in OK as [OK HF].
  apply andb_true_iff in OK as [OK HNE].
  apply andb_true_iff in OK as [HP HP0]. apply N.ltb_lt in HP.
  cbn [wire]. change (default_flags T_UNSUBSCRIBE) with 2.
  remember (flat_map lp topics) as flat eqn:Eflat.
  remember (be16 pid ++ flat) as body eqn:Ebody.
  unfold unsub_decode, unsub_new. cbn [u_h u_topics].
  rewrite (hdr_decode_fixed (new_hdr T_UNSUBSCRIBE) T_UNSUBSCRIBE 2 body rest).
  2: { reflexivity. }
  2: { lia. }
  2: { apply new_hdr_type. }
  2: { reflexivity. }
  2: { exact HBL. }
  cbn [bind dbuf tf remlen].
  pose proof (fixed_length T_UNSUBSCRIBE 2 body) as FXL.
  set (hn := S (length (varint (len body)))) in *.
  assert (LB : length body = (2 + length flat)%nat).
  { rewrite Ebody, app_length. reflexivity. }
  pose proof (to_nat_len body) as TLB.
  destruct (len body <? 2) eqn:E1; [lia|].
  set (pre := (T_UNSUBSCRIBE * 16 + 2) :: varint (len body)).
  assert (LPRE : length pre = hn) by reflexivity.
  assert (EF : fixed T_UNSUBSCRIBE 2 body = (pre ++ be16 pid) ++ flat).
  { apply fixed_pre. exact Ebody. }
  assert (EF2 : fixed T_UNSUBSCRIBE 2 body = pre ++ be16 pid ++ (flat ++ [])).
  { rewrite EF, app_nil_r, <- app_assoc. reflexivity. }
  assert (SL : sl (fixed T_UNSUBSCRIBE 2 body) hn (hn + 2) = Ok (be16 pid)).
  { rewrite EF2. apply sl_app3; reflexivity. }
  rewrite SL. cbn [bind].
  unfold be16 at 1 2. cbn [idx nth_error bind remlen dbuf].
  rewrite (unsub_loop_accept topics _ (fixed T_UNSUBSCRIBE 2 body) (pre ++ be16 pid) (hn + 2)%nat).
  2: { exact HF. }
  2: { rewrite <- Eflat. exact EF. }
  2: { rewrite app_length. cbn [length be16]. lia. }
  2: { rewrite <- Eflat. lia. }
  2: { rewrite <- Eflat. rewrite FXL. lia. }
  cbn [bind app].
  destruct (length topics =? 0)%nat eqn:E2; [lia|].
  eexists. split.
  - apply ok_pair_eq. reflexivity.
  - unfold abs_unsub, h_clean, packet_id. cbn [u_h u_topics Impl.pid].
    rewrite rd16_be16 by exact HP. reflexivity.
Qed.

(* ---------- connect ---------- *)

Lemma version_ok_proto v : version_ok v = true -> len (proto_name v) <= maxLPString.
Proof.
  unfold version_ok, supported_versions. cbn [existsb fst]. intros H.
  assert (C : v = 3 \/ v = 4) by lia.
  destruct C as [ -> | -> ]; vm_compute; discriminate.
Qed.

Lemma conn_body_accept m0 v f ka cid wt wm user pass :
  connect_ok {| cp_version := v; cp_flags := f; cp_keepalive := ka; cp_clientid := cid;
                cp_willtopic := wt; cp_willmsg := wm; cp_username := user; cp_password := pass |} = true ->
  c_wt m0 = [] -> c_wm m0 = [] -> c_user m0 = [] -> c_pass m0 = [] ->
  let body := connect_body {| cp_version := v; cp_flags := f; cp_keepalive := ka; cp_clientid := cid;
                cp_willtopic := wt; cp_willmsg := wm; cp_username := user; cp_password := pass |} in
  conn_decode_body m0 body =
    Ok (mkConn (c_h m0) f v ka (proto_name v) cid wt wm user pass, length body).
Proof.
  intros OK Z1 Z2 Z3 Z4 body. subst body.
  unfold connect_ok, connect_body in *.
  cbn [cp_version cp_flags cp_keepalive cp_clientid cp_willtopic cp_willmsg cp_username cp_password] in *.
  unfold flag in *.
  apply andb_true_iff in OK as [OK C18]. apply andb_true_iff in OK as [OK C17].
  apply andb_true_iff in OK as [OK C16]. apply andb_true_iff in OK as [OK C15].
  apply andb_true_iff in OK as [OK C14]. apply andb_true_iff in OK as [OK C13].
  apply andb_true_iff in OK as [OK C12]. apply andb_true_iff in OK as [OK C11].
  apply andb_true_iff in OK as [OK C10]. apply andb_true_iff in OK as [OK C9].
  apply andb_true_iff in OK as [OK C8]. apply andb_true_iff in OK as [OK C7].
  apply andb_true_iff in OK as [OK C6]. apply andb_true_iff in OK as [OK C5].
  apply andb_true_iff in OK as [OK C4]. apply andb_true_iff in OK as [OK C3].
  apply andb_true_iff in OK as [HV C2].
  assert (HV' : version_ok v = true) by exact HV.
  pose proof (version_ok_proto v HV') as LPN.
  pose proof (str_ok_le _ C7) as L1. pose proof (str_ok_le _ C10) as L2.
  pose proof (str_ok_le _ C11) as L3. pose proof (str_ok_le _ C12) as L4.
  pose proof (str_ok_le _ C13) as L5.
  apply N.ltb_lt in C2, C6.
  set (pn := proto_name v) in *.
  match goal with |- context [lp cid ++ ?w ++ ?u ++ ?p] =>
    remember w as W eqn:EW; remember u as U eqn:EU; remember p as P eqn:EP
  end.
  remember (lp pn ++ [v; f] ++ be16 ka ++ lp cid ++ W ++ U ++ P) as src eqn:Esrc.
  set (B := [v; f; ka / 256 mod 256; ka mod 256]).
  assert (Esrc2 : src = lp pn ++ B ++ lp cid ++ W ++ U ++ P).
  { rewrite Esrc. reflexivity. }
  assert (LS : length src = (2 + length pn + 4 + (2 + length cid) + length W + length U + length P)%nat).
  { rewrite Esrc2, !app_length, !lp_length. cbn [length B]. lia. }
  set (t0 := (2 + length pn)%nat) in *.
  unfold conn_decode_body.
  assert (RL0 : read_lp src = Ok (pn, t0)).
  { rewrite Esrc. apply read_lp_lp. exact LPN. }
  rewrite RL0. cbn [bind].
  rewrite from_ok by lia. cbn [bind]. rewrite skipn_length.
  destruct (length src - t0 <? 2)%nat eqn:E1; [lia|].
  assert (IX : forall k, (k < 4)%nat -> idx src (t0 + k) = idx B k).
  { intros k Hk. rewrite Esrc2.
    rewrite (idx_app_off (lp pn) _ _ k) by (rewrite lp_length; reflexivity).
    unfold idx. rewrite nth_error_app1 by (cbn [length B]; lia). reflexivity. }
  assert (IX0 : idx src t0 = Ok v).
  { replace t0 with (t0 + 0)%nat by lia. rewrite IX by lia. reflexivity. }
  assert (IX1 : idx src (S t0) = Ok f).
  { replace (S t0) with (t0 + 1)%nat by lia. rewrite IX by lia. reflexivity. }
  assert (IX2 : idx src (S (S t0)) = Ok (ka / 256 mod 256)).
  { replace (S (S t0)) with (t0 + 2)%nat by lia. rewrite IX by lia. reflexivity. }
  assert (IX3 : idx src (S (S (S t0))) = Ok (ka mod 256)).
  { replace (S (S (S t0))) with (t0 + 3)%nat by lia. rewrite IX by lia. reflexivity. }
  rewrite IX0. cbn [bind].
  fold (version_ok v). rewrite HV'. cbn [negb]. fold pn. rewrite beq_bytes_refl. cbn [negb].
  rewrite IX1. cbn [bind].
  rewrite land1_testbit0 by exact C2. rewrite C3. cbn [negb].
  destruct (2 <? f / 8 mod 4) eqn:E2; [lia|].
  assert (E3 : negb (N.testbit f 2) && (N.testbit f 5 || negb (f / 8 mod 4 =? 0)) = false).
  { destruct (N.testbit f 2); [reflexivity|]. cbn [negb orb andb] in C5 |- *.
    apply andb_true_iff in C5 as [Ca Cb]. rewrite Cb. apply negb_true_iff in Ca. rewrite Ca.
    reflexivity. }
  rewrite E3.
  rewrite from_ok by lia. cbn [bind]. rewrite skipn_length.
  destruct (length src - S (S t0) <? 2)%nat eqn:E4; [lia|].
  rewrite IX2, IX3. cbn [bind].
  rewrite rd16_be16 by exact C6.
  rewrite from_ok by lia. cbn [bind].
  assert (SK1 : skipn (S (S t0) + 2) src = lp cid ++ W ++ U ++ P).
  { rewrite Esrc2. rewrite app_assoc. apply skipn_app_exact.
    rewrite app_length, lp_length. cbn [length B]. lia. }
  rewrite SK1. rewrite read_lp_lp by exact L1. cbn [at_off bind].
  rewrite length_eqb_len.
  assert (E5 : (len cid =? 0) && negb (N.testbit f 1) = false).
  { destruct (len cid =? 0); [|reflexivity]. destruct (N.testbit f 1); [reflexivity|].
    cbn [negb orb] in C9. discriminate C9. }
  rewrite E5.
  rewrite C8. cbn [negb]. rewrite andb_false_r.
  set (t1 := (S (S t0) + 2 + (2 + length cid))%nat).
  match goal with |- bind ?Wx ?K = ?R =>
    assert (HK : forall total, total = (t1 + length W)%nat -> K (wt, wm, total) = R)
  end.
  { intros total ET. cbv beta iota.
    rewrite from_ok by lia. cbn [bind].
    assert (SKU : skipn total src = U ++ P).
    { rewrite Esrc2. rewrite !app_assoc. rewrite <- (app_assoc _ U P). apply skipn_app_exact.
      rewrite !app_length, !lp_length. cbn [length B]. lia. }
    rewrite SKU.
    match goal with |- bind ?Ux ?K2 = ?R =>
      assert (HK2 : forall total2, total2 = (total + length U)%nat -> K2 (user, total2) = R)
    end.
    { intros total2 ET2. cbv beta iota.
      rewrite from_ok by lia. cbn [bind].
      assert (SKP : skipn total2 src = P).
      { rewrite Esrc2. rewrite !app_assoc. apply skipn_app_exact.
        rewrite !app_length, !lp_length. cbn [length B]. lia. }
      rewrite SKP. rewrite length_eqb_len.
      destruct (N.testbit f 6) eqn:F6.
      - cbn [negb orb andb] in *. rewrite C18 in EP. subst P.
        rewrite len_lp. destruct (2 + len pass =? 0) eqn:E6; [lia|]. cbn [negb].
        assert (RLP : read_lp (lp pass) = Ok (pass, (2 + length pass)%nat)).
        { rewrite <- (app_nil_r (lp pass)). apply read_lp_lp. exact L5. }
        rewrite RLP. cbn [at_off bind].
        f_equal. f_equal. rewrite LS, lp_length. lia.
      - cbn [negb orb andb] in *. subst P. cbn [bind].
        rewrite Z4. rewrite (len_0_nil _ C16). f_equal. f_equal. rewrite LS. cbn [length]. lia. }
    rewrite length_eqb_len.
    destruct (N.testbit f 7) eqn:F7.
    - cbn [negb orb andb] in *. rewrite C17 in EU. subst U.
      rewrite len_app, len_lp. destruct (2 + len user + len P =? 0) eqn:E6; [lia|]. cbn [negb].
      rewrite read_lp_lp by exact L4. cbn [at_off bind].
      apply HK2. rewrite lp_length. lia.
    - cbn [negb orb andb] in *. subst U. cbn [bind].
      rewrite Z3. pose proof (len_0_nil _ C15) as EUser. subst user.
      apply HK2. cbn [length]. lia. }
  destruct (N.testbit f 2) eqn:F2.
  - subst W. rewrite from_ok by lia. cbn [bind].
    assert (SKW : skipn t1 src = lp wt ++ lp wm ++ U ++ P).
    { unfold t1. rewrite <- skipn_skipn'. rewrite SK1.
      rewrite skipn_app_exact by (rewrite lp_length; reflexivity).
      rewrite <- app_assoc. reflexivity. }
    rewrite SKW. rewrite read_lp_lp by exact L2. cbn [at_off bind].
    rewrite from_ok by (rewrite !app_length, !lp_length in LS; lia). cbn [bind].
    assert (SKW2 : skipn (t1 + (2 + length wt)) src = lp wm ++ U ++ P).
    { rewrite <- skipn_skipn'. rewrite SKW. apply skipn_app_exact. rewrite lp_length. reflexivity. }
    rewrite SKW2. rewrite read_lp_lp by exact L3. cbn [at_off bind].
    apply HK. rewrite app_length, !lp_length. lia.
  - subst W. cbn [bind]. cbn [negb orb andb] in *.
    apply andb_true_iff in C14 as [C14a C14b].
    rewrite Z1, Z2. pose proof (len_0_nil _ C14a) as Ewt. pose proof (len_0_nil _ C14b) as Ewm.
    subst wt wm. apply HK. cbn [length]. lia.
Qed.

Lemma connect_body_len c : connect_ok c = true -> len (connect_body c) <= maxRemainingLength.
Proof.
  intros OK. unfold connect_ok, connect_body in *.
  do 17 (apply andb_true_iff in OK as [OK ?H]).
  assert (HV : version_ok (cp_version c) = true) by exact OK.
  pose proof (version_ok_proto _ HV) as HPN.
  pose proof (str_ok_le _ H10) as L1. pose proof (str_ok_le _ H7) as L2.
  pose proof (str_ok_le _ H6) as L3. pose proof (str_ok_le _ H5) as L4.
  pose proof (str_ok_le _ H4) as L5.
  rewrite !len_app, !len_lp, len_be16, !len_cons, len_nil.
  unfold maxLPString in *. unfold maxRemainingLength.
  destruct (flag (cp_flags c) 2);
    destruct (flag (cp_flags c) 7 && negb (len (cp_username c) =? 0));
    destruct (flag (cp_flags c) 6 && negb (len (cp_password c) =? 0));
    rewrite ?len_app, ?len_lp, ?len_nil; lia.
Qed.

Lemma accepts_conn : C04_accepts_conn.
Proof.
  intros c rest p OK. subst p. cbn [packet_ok] in OK.
  pose proof (connect_body_len c OK) as HBL.
  destruct c as [v f ka cid wt wm user pass].
  cbn [wire]. change (default_flags T_CONNECT) with 0.
  pose proof (conn_body_accept
    (cwh conn_new (mkHdr (len (connect_body {| cp_version := v; cp_flags := f; cp_keepalive := ka;
         cp_clientid := cid; cp_willtopic := wt; cp_willmsg := wm; cp_username := user;
         cp_password := pass |})) (T_CONNECT * 16 + 0) (pid (new_hdr T_CONNECT))
       (fixed T_CONNECT 0 (connect_body {| cp_version := v; cp_flags := f; cp_keepalive := ka;
         cp_clientid := cid; cp_willtopic := wt; cp_willmsg := wm; cp_username := user;
         cp_password := pass |})) (dirty (new_hdr T_CONNECT)) true (pal (new_hdr T_CONNECT))))
    v f ka cid wt wm user pass OK eq_refl eq_refl eq_refl eq_refl) as CB.
  cbv zeta in CB.
  remember (connect_body {| cp_version := v; cp_flags := f; cp_keepalive := ka; cp_clientid := cid;
              cp_willtopic := wt; cp_willmsg := wm; cp_username := user; cp_password := pass |})
    as body eqn:Ebody.
  unfold conn_decode. cbn [conn_new c_h].
  rewrite (hdr_decode_fixed (new_hdr T_CONNECT) T_CONNECT 0 body rest).
  2: { reflexivity. }
  2: { lia. }
  2: { apply new_hdr_type. }
  2: { reflexivity. }
  2: { exact HBL. }
  cbn [bind dbuf].
  pose proof (fixed_length T_CONNECT 0 body) as FXL.
  rewrite from_ok by lia. cbn [bind]. rewrite skipn_fixed.
  fold conn_new. rewrite CB. cbn [at_off bind].
  eexists. split.
  - apply ok_pair_eq. rewrite FXL. reflexivity.
  - reflexivity.
Qed.

Print Assumptions accepts_pub.
Print Assumptions accepts_ack.
Print Assumptions accepts_empty.
Print Assumptions accepts_connack.
Print Assumptions accepts_suback.
Print Assumptions accepts_sub.
Print Assumptions accepts_unsub.
Print Assumptions accepts_conn.
