(* automatically assigned packet identifiers *)
From Base Require Import Tactics Bytes.
From Codec Require Import Wire Impl Statements.
Open Scope N_scope.

Lemma packet_ids : C03_packet_ids.
Proof.
  unfold C03_packet_ids, auto_id, next_pid. intros c.
  destruct ((c + 1) mod 65536 =? 0) eqn:E; cbn [fst snd].
  - apply N.eqb_eq in E.
    assert (H : (c + 1 + 1) mod 65536 = 1).
    { rewrite <- N.add_mod_idemp_l by lia. rewrite E. reflexivity. }
    rewrite H. repeat split; try lia.
  - apply N.eqb_neq in E.
    pose proof (N.mod_upper_bound (c + 1) 65536 ltac:(lia)).
    repeat split; try lia.
Qed.
