(* C04: the decoders never panic, report counts inside the source, and the decoded fields
   are parts of the packet.  One specification lemma per decoder; the statements of
   Statements.v (total, inside) are corollaries, and so is ProofsReencode.v. *)
From Base Require Import Tactics Bytes.
From Gen Require Import Tables.
From Codec Require Import Wire Impl Statements ProofsHeader.
Open Scope N_scope.

(* open the header step of a decoder *)
Ltac hdr_step h src h1 hn HS DL :=
  pose proof (hdr_decode_spec h src) as HS;
  destruct (hdr_decode h src) as [[h1 hn]|?c ?k|]; cbn [bind]; [|exact HS|exact HS];
  pose proof (hdr_post_dbuf_length _ _ _ _ HS) as DL.

(* ---------- ack ---------- *)

Lemma ack_decode_spec h src :
  dec_spec src (ack_decode h src) (fun h' n =>
    pkt_post h' src n /\ n = length (dbuf h') /\ h_type h' = h_type h).
Proof.
  unfold ack_decode. hdr_step h src h1 hn HS DL.
  destruct HS as (B & L & D & TF & PI & DI & HA & PA & RL & TY & TV & FL).
  destruct (negb (remlen h1 =? 2)) eqn:E1; [cbn; lia|].
  rewrite sl_ok by lia. cbn [bind].
  rewrite !idx_lt by (rewrite sl_len; lia). cbn [bind dec_spec].
  unfold pkt_post, h_type in *. cbn [dirty dbuf tf].
  rewrite DL. split; [|split; [lia|exact TY]].
  split; [reflexivity|]. split; [lia|]. split; [rewrite D at 1; reflexivity|lia].
Qed.

Lemma total_ack : C04_total_ack.
Proof.
  intros h src. eapply dec_spec_count_ok; [apply ack_decode_spec|].
  cbv beta. intros a n ((_ & H1 & _ & H2) & _). lia.
Qed.

(* ---------- empty ---------- *)

Lemma empty_decode_spec h src :
  dec_spec src (empty_decode h src) (fun h' n =>
    pkt_post h' src n /\ n = length (dbuf h') /\ h_type h' = h_type h).
Proof.
  unfold empty_decode. hdr_step h src h1 hn HS DL.
  destruct HS as (B & L & D & TF & PI & DI & HA & PA & RL & TY & TV & FL).
  destruct (negb (remlen h1 =? 0)) eqn:E1; [cbn; lia|].
  cbn [dec_spec]. unfold pkt_post, h_clean, h_type in *. cbn [dirty dbuf tf].
  rewrite DL. split; [|split; [lia|exact TY]].
  split; [reflexivity|]. split; [lia|]. split; [rewrite D at 1; reflexivity|lia].
Qed.

Lemma total_empty : C04_total_empty.
Proof.
  intros h src. eapply dec_spec_count_ok; [apply empty_decode_spec|].
  cbv beta. intros a n ((_ & H1 & _ & H2) & _). lia.
Qed.

(* ---------- connack ---------- *)

Lemma connack_decode_spec m src :
  dec_spec src (connack_decode m src) (fun m' n =>
    pkt_post (k_h m') src n /\ n = length (dbuf (k_h m'))).
Proof.
  unfold connack_decode. hdr_step (k_h m) src h1 hn HS DL.
  destruct HS as (B & L & D & TF & PI & DI & HA & PA & RL & TY & TV & FL).
  destruct (negb (remlen h1 =? 2)) eqn:E1; [cbn; lia|].
  rewrite idx_lt by lia. cbn [bind].
  destruct (negb (N.land (nth hn src 0) 254 =? 0)) eqn:E2; [cbn; lia|].
  rewrite idx_lt by lia. cbn [bind].
  destruct (5 <? nth (S hn) src 0) eqn:E3; [cbn; lia|].
  cbn [dec_spec]. unfold pkt_post, h_clean. cbn [k_h dirty dbuf].
  rewrite DL. split; [|lia].
  split; [reflexivity|]. split; [lia|]. split; [rewrite D at 1; reflexivity|lia].
Qed.

Lemma total_connack : C04_total_connack.
Proof.
  intros h src. eapply dec_spec_count_ok; [apply connack_decode_spec|].
  cbv beta. intros a n ((_ & H1 & _ & H2) & _). lia.
Qed.

(* ---------- suback ---------- *)

Lemma suback_decode_spec m src :
  dec_spec src (suback_decode m src) (fun m' n =>
    pkt_post (sa_h m') src n /\ n = length (dbuf (sa_h m')) /\ infix (sa_codes m') (dbuf (sa_h m'))).
Proof.
  unfold suback_decode. hdr_step (sa_h m) src h1 hn HS DL.
  destruct HS as (B & L & D & TF & PI & DI & HA & PA & RL & TY & TV & FL).
  destruct (remlen h1 <? 2) eqn:E1; [cbn; lia|].
  rewrite sl_ok by lia. cbn [bind].
  rewrite !idx_lt by (rewrite sl_len; lia). cbn [bind remlen].
  rewrite sl_ok by lia. cbn [bind].
  set (l := (N.to_nat (remlen h1) - (hn + 2 - hn))%nat).
  assert (CL : length (firstn (hn + 2 + l - (hn + 2)) (skipn (hn + 2) src)) = l).
  { rewrite firstn_length, skipn_length. lia. }
  rewrite CL.
  destruct (negb (forallb code_ok (firstn (hn + 2 + l - (hn + 2)) (skipn (hn + 2) src)))) eqn:E2;
    [cbn; lia|].
  cbn [dec_spec]. unfold pkt_post, h_clean. cbn [sa_h sa_codes dirty dbuf].
  rewrite DL. split; [|split; [lia|]].
  - split; [reflexivity|]. split; [lia|]. split; [rewrite D at 1; reflexivity|lia].
  - rewrite D. replace (hn + 2 + l - (hn + 2))%nat with l by lia.
    apply infix_firstn; lia.
Qed.

Lemma total_suback : C04_total_suback.
Proof.
  intros h src. eapply dec_spec_count_ok; [apply suback_decode_spec|].
  cbv beta. intros a n ((_ & H1 & _ & H2) & _). lia.
Qed.

Lemma inside_suback : C04_inside_suback.
Proof.
  intros src m n H. cbv zeta.
  pose proof (dec_spec_ok _ _ _ _ _ (suback_decode_spec suback_new src) H) as (P & N1 & I).
  destruct P as (_ & P2 & P3 & P4).
  split; [split; assumption|]. split; [exact P2|exact I].
Qed.

(* ---------- publish ---------- *)

Lemma pub_decode_spec m src :
  dec_spec src (pub_decode m src) (fun m' n =>
    pkt_post (p_h m') src n /\ n = length (dbuf (p_h m')) /\
    infix (p_topic m') (dbuf (p_h m')) /\ infix (p_payload m') (dbuf (p_h m'))).
Proof.
  unfold pub_decode. hdr_step (p_h m) src h1 hn HS DL.
  destruct HS as (B & L & D & TF & PI & DI & HA & PA & RL & TY & TV & FL).
  set (R := N.to_nat (remlen h1)) in *.
  rewrite from_ok by lia. cbn [bind].
  pose proof (read_lp_spec (skipn hn (dbuf h1))) as LS.
  rewrite skipn_length, DL in LS.
  destruct (read_lp (skipn hn (dbuf h1))) as [[topic n1]|c k|]; cbn [at_off bind];
    [|cbn; lia|exact LS].
  destruct LS as (N1 & N2 & TE).
  destruct (negb (valid_topic topic)) eqn:EV; [cbn; lia|].
  assert (IT : infix topic (dbuf h1)).
  { apply (infix_read_lp _ hn); [exact TE|lia]. }
  destruct (publish_qos_of_flags (tf h1 mod 16) =? 0) eqn:EQ; cbn [bind].
  - fold R.
    destruct (R <? hn + n1 - hn)%nat eqn:EP; [lia|].
    rewrite sl_ok by lia. cbn [bind].
    set (l := (R - (hn + n1 - hn))%nat).
    assert (PL : length (firstn (hn + n1 + l - (hn + n1)) (skipn (hn + n1) (dbuf h1))) = l).
    { rewrite firstn_length, skipn_length. lia. }
    rewrite PL. cbn [dec_spec]. unfold pkt_post, h_clean. cbn [p_h p_topic p_payload dirty dbuf].
    rewrite DL. split; [|split; [lia|split; [exact IT|]]].
    + split; [reflexivity|]. split; [lia|]. split; [rewrite D at 1; reflexivity|lia].
    + apply infix_sub. lia.
  - destruct (length (dbuf h1) <? hn + n1 + 2)%nat eqn:E2; [cbn; lia|].
    rewrite sl_ok by lia. cbn [bind].
    rewrite !idx_lt by (rewrite sl_len; lia). cbn [bind remlen]. fold R.
    destruct (R <? hn + n1 + 2 - hn)%nat eqn:EP; [lia|].
    rewrite sl_ok by lia. cbn [bind].
    set (l := (R - (hn + n1 + 2 - hn))%nat).
    assert (PL : length (firstn (hn + n1 + 2 + l - (hn + n1 + 2)) (skipn (hn + n1 + 2) (dbuf h1))) = l).
    { rewrite firstn_length, skipn_length. lia. }
    rewrite PL. cbn [dec_spec]. unfold pkt_post, h_clean. cbn [p_h p_topic p_payload dirty dbuf].
    rewrite DL. split; [|split; [lia|split; [exact IT|]]].
    + split; [reflexivity|]. split; [lia|]. split; [rewrite D at 1; reflexivity|lia].
    + apply infix_sub. lia.
Qed.

Lemma total_pub : C04_total_pub.
Proof.
  intros h src. eapply dec_spec_count_ok; [apply pub_decode_spec|].
  cbv beta. intros a n ((_ & H1 & _ & H2) & _). lia.
Qed.

Lemma inside_pub : C04_inside_pub.
Proof.
  intros src m n H. cbv zeta.
  pose proof (dec_spec_ok _ _ _ _ _ (pub_decode_spec pub_new src) H) as (P & N1 & I1 & I2).
  destruct P as (_ & P2 & P3 & P4).
  split; [split; assumption|]. split; [exact P2|]. split; assumption.
Qed.

(* ---------- subscribe ---------- *)

Lemma sub_loop_spec fuel : forall src total rem ts qs,
  (total <= length src)%nat -> rem = (Z.of_nat (length src) - Z.of_nat total)%Z ->
  (length src - total < fuel)%nat ->
  match sub_loop fuel src total rem ts qs with
  | Ok (ts', qs', n) =>
      n = length src /\
      (Forall (fun t => infix t src) ts -> Forall (fun t => infix t src) ts') /\
      (length qs' + length ts = length ts' + length qs)%nat
  | Err _ k => (k <= length src)%nat
  | Panic => False
  end.
Proof.
  induction fuel as [|fuel IH]; intros src total rem ts qs HT HR HF.
  - lia.
  - cbn [sub_loop]. destruct (rem <=? 0)%Z eqn:ER.
    + split; [lia|]. split; [intros F; exact F|lia].
    + rewrite from_ok by lia. cbn [bind].
      pose proof (read_lp_spec (skipn total src)) as LS. rewrite skipn_length in LS.
      destruct (read_lp (skipn total src)) as [[t n1]|c k|]; cbn [at_off bind]; [|lia|exact LS].
      destruct LS as (N1 & N2 & TE).
      destruct (length src <? total + n1 + 1)%nat eqn:E1; [lia|].
      rewrite idx_lt by lia. cbn [bind].
      match goal with |- context [sub_loop fuel ?a ?b ?c ?d ?e] => specialize (IH a b c d e) end.
      assert (IT : infix t src).
      { apply (infix_read_lp _ total); [exact TE|lia]. }
      destruct (sub_loop fuel src (S (total + n1)) (rem - Z.of_nat n1 - 1)
                  (ts ++ [t]) (qs ++ [nth (total + n1) src 0])) as [[[ts' qs'] n]|c k|].
      * destruct IH as (I1 & I2 & I3); [lia|lia|lia|].
        split; [exact I1|]. split.
        -- intros F. apply I2. apply Forall_app. split; [exact F|]. constructor; [exact IT|constructor].
        -- rewrite !app_length in I3. cbn [length] in I3. lia.
      * apply IH; lia.
      * apply IH; lia.
Qed.

Lemma sub_decode_spec m src :
  dec_spec src (sub_decode m src) (fun m' n =>
    pkt_post (s_h m') src n /\ n = length (dbuf (s_h m')) /\
    (Forall (fun t => infix t (dbuf (s_h m'))) (s_topics m) ->
     Forall (fun t => infix t (dbuf (s_h m'))) (s_topics m')) /\
    (length (s_qos m') + length (s_topics m) = length (s_topics m') + length (s_qos m))%nat).
Proof.
  unfold sub_decode. hdr_step (s_h m) src h1 hn HS DL.
  destruct HS as (B & L & D & TF & PI & DI & HA & PA & RL & TY & TV & FL).
  set (R := N.to_nat (remlen h1)) in *.
  destruct (remlen h1 <? 2) eqn:E1; [cbn; lia|].
  rewrite sl_ok by lia. cbn [bind].
  rewrite !idx_lt by (rewrite sl_len; lia). cbn [bind remlen dbuf].
  match goal with |- context [sub_loop ?f ?a ?b ?c ?d ?e] =>
    pose proof (sub_loop_spec f a b c d e) as LS;
    destruct (sub_loop f a b c d e) as [[[ts' qs'] n]|c0 k|]
  end; cbn [bind].
  - destruct LS as (I1 & I2 & I3); [lia|lia|lia|].
    destruct (length ts' =? 0)%nat eqn:E2; [cbn; lia|].
    cbn [dec_spec]. unfold pkt_post, h_clean. cbn [s_h s_topics s_qos dirty dbuf].
    rewrite DL. split; [|split; [lia|split; [exact I2|exact I3]]].
    split; [reflexivity|]. split; [lia|]. split; [rewrite D at 1; reflexivity|lia].
  - cbn. rewrite DL in LS. assert (k <= hn + R)%nat by (apply LS; lia). lia.
  - apply LS; lia.
Qed.

Lemma total_sub : C04_total_sub.
Proof.
  intros h src. eapply dec_spec_count_ok; [apply sub_decode_spec|].
  cbv beta. intros a n ((_ & H1 & _ & H2) & _). lia.
Qed.

Lemma inside_sub : C04_inside_sub.
Proof.
  intros src m n H. cbv zeta.
  pose proof (dec_spec_ok _ _ _ _ _ (sub_decode_spec sub_new src) H) as (P & N1 & I1 & I2).
  destruct P as (_ & P2 & P3 & P4).
  split; [split; assumption|]. split; [exact P2|]. split.
  - apply I1. constructor.
  - cbn [sub_new s_topics s_qos length] in I2. lia.
Qed.

(* ---------- unsubscribe ---------- *)

Lemma unsub_loop_spec fuel : forall src total rem ts,
  (total <= length src)%nat -> rem = (Z.of_nat (length src) - Z.of_nat total)%Z ->
  (length src - total < fuel)%nat ->
  match unsub_loop fuel src total rem ts with
  | Ok (ts', n) =>
      n = length src /\
      (Forall (fun t => infix t src) ts -> Forall (fun t => infix t src) ts')
  | Err _ k => (k <= length src)%nat
  | Panic => False
  end.
Proof.
  induction fuel as [|fuel IH]; intros src total rem ts HT HR HF.
  - lia.
  - cbn [unsub_loop]. destruct (rem <=? 0)%Z eqn:ER.
    + split; [lia|]. intros F; exact F.
    + rewrite from_ok by lia. cbn [bind].
      pose proof (read_lp_spec (skipn total src)) as LS. rewrite skipn_length in LS.
      destruct (read_lp (skipn total src)) as [[t n1]|c k|]; cbn [at_off bind]; [|lia|exact LS].
      destruct LS as (N1 & N2 & TE).
      match goal with |- context [unsub_loop fuel ?a ?b ?c ?d] => specialize (IH a b c d) end.
      assert (IT : infix t src).
      { apply (infix_read_lp _ total); [exact TE|lia]. }
      destruct (unsub_loop fuel src (total + n1) (rem - Z.of_nat n1) (ts ++ [t])) as [[ts' n]|c k|].
      * destruct IH as (I1 & I2); [lia|lia|lia|].
        split; [exact I1|].
        intros F. apply I2. apply Forall_app. split; [exact F|]. constructor; [exact IT|constructor].
      * apply IH; lia.
      * apply IH; lia.
Qed.

Lemma unsub_decode_spec m src :
  dec_spec src (unsub_decode m src) (fun m' n =>
    pkt_post (u_h m') src n /\ n = length (dbuf (u_h m')) /\
    (Forall (fun t => infix t (dbuf (u_h m'))) (u_topics m) ->
     Forall (fun t => infix t (dbuf (u_h m'))) (u_topics m'))).
Proof.
  unfold unsub_decode. hdr_step (u_h m) src h1 hn HS DL.
  destruct HS as (B & L & D & TF & PI & DI & HA & PA & RL & TY & TV & FL).
  set (R := N.to_nat (remlen h1)) in *.
  destruct (remlen h1 <? 2) eqn:E1; [cbn; lia|].
  rewrite sl_ok by lia. cbn [bind].
  rewrite !idx_lt by (rewrite sl_len; lia). cbn [bind remlen dbuf].
  match goal with |- context [unsub_loop ?f ?a ?b ?c ?d] =>
    pose proof (unsub_loop_spec f a b c d) as LS;
    destruct (unsub_loop f a b c d) as [[ts' n]|c0 k|]
  end; cbn [bind].
  - destruct LS as (I1 & I2); [lia|lia|lia|].
    destruct (length ts' =? 0)%nat eqn:E2; [cbn; lia|].
    cbn [dec_spec]. unfold pkt_post, h_clean. cbn [u_h u_topics dirty dbuf].
    rewrite DL. split; [|split; [lia|exact I2]].
    split; [reflexivity|]. split; [lia|]. split; [rewrite D at 1; reflexivity|lia].
  - cbn. rewrite DL in LS. assert (k <= hn + R)%nat by (apply LS; lia). lia.
  - apply LS; lia.
Qed.

Lemma total_unsub : C04_total_unsub.
Proof.
  intros h src. eapply dec_spec_count_ok; [apply unsub_decode_spec|].
  cbv beta. intros a n ((_ & H1 & _ & H2) & _). lia.
Qed.

Lemma inside_unsub : C04_inside_unsub.
Proof.
  intros src m n H. cbv zeta.
  pose proof (dec_spec_ok _ _ _ _ _ (unsub_decode_spec unsub_new src) H) as (P & N1 & I1).
  destruct P as (_ & P2 & P3 & P4).
  split; [split; assumption|]. split; [exact P2|].
  apply I1. constructor.
Qed.

(* ---------- connect ---------- *)

Lemma read_at_spec src total : (total <= length src)%nat ->
  match at_off total (read_lp (skipn total src)) with
  | Ok (s, n) => (total + n <= length src)%nat /\ (n = 2 + length s)%nat /\ infix s src
  | Err _ k => (k <= length src)%nat
  | Panic => False
  end.
Proof.
  intros H. pose proof (read_lp_spec (skipn total src)) as LS. rewrite skipn_length in LS.
  destruct (read_lp (skipn total src)) as [[s n]|c k|]; cbn [at_off]; [|lia|exact LS].
  destruct LS as (N1 & N2 & TE).
  split; [lia|]. split; [exact N1|].
  apply (infix_read_lp _ total); [exact TE|lia].
Qed.

Definition conn_fields_post (m : connmsg) (src : bytes) (m' : connmsg) : Prop :=
  infix (c_cid m') src /\
  (infix (c_wt m') src \/ c_wt m' = c_wt m) /\
  (infix (c_wm m') src \/ c_wm m' = c_wm m) /\
  (infix (c_user m') src \/ c_user m' = c_user m) /\
  (infix (c_pass m') src \/ c_pass m' = c_pass m).

Ltac read_at_step s n HR :=
  match goal with |- context [at_off ?t (read_lp (skipn ?t ?src))] =>
    pose proof (read_at_spec src t) as HR;
    destruct (at_off t (read_lp (skipn t src))) as [[s n]|?c ?k|]; cbn [bind];
    [|cbn; apply HR; lia|apply HR; lia];
    destruct HR as (?N1 & ?N2 & ?IS); [lia|]
  end.

Lemma conn_decode_body_spec m src :
  dec_spec src (conn_decode_body m src) (fun m' n =>
    (n <= length src)%nat /\ c_h m' = c_h m /\ conn_fields_post m src m').
Proof.
  unfold conn_decode_body.
  pose proof (read_lp_spec src) as L0.
  destruct (read_lp src) as [[proto n0]|c k|]; cbn [bind]; [|exact L0|exact L0].
  destruct L0 as (N1 & N2 & _).
  rewrite from_ok by lia. cbn [bind]. rewrite skipn_length.
  destruct (length src - n0 <? 2)%nat eqn:E1; [cbn; lia|].
  rewrite idx_lt by lia. cbn [bind].
  set (version := nth n0 src 0).
  destruct (negb (version_ok version)) eqn:E2; [cbn; lia|].
  destruct (negb (beq_bytes (proto_name version) proto)) eqn:E3; [cbn; lia|].
  rewrite idx_lt by lia. cbn [bind]. set (flags := nth (S n0) src 0).
  destruct (negb (N.land flags 1 =? 0)) eqn:E4; [cbn; lia|].
  destruct (2 <? flags / 8 mod 4) eqn:E5; [cbn; lia|].
  destruct (negb (N.testbit flags 2) && (N.testbit flags 5 || negb (flags / 8 mod 4 =? 0))) eqn:E6;
    [cbn; lia|].
  rewrite from_ok by lia. cbn [bind]. rewrite skipn_length.
  destruct (length src - S (S n0) <? 2)%nat eqn:E7; [cbn; lia|].
  rewrite !idx_lt by lia. cbn [bind].
  rewrite from_ok by lia. cbn [bind].
  read_at_step cid n1 HR.
  destruct ((length cid =? 0)%nat && negb (N.testbit flags 1)) eqn:E8; [cbn; lia|].
  destruct (negb (length cid =? 0)%nat && negb (valid_clientid cid)) eqn:E9; [cbn; lia|].
  match goal with |- dec_spec src (bind ?W ?K) ?P =>
    assert (HK : forall wt wm total, (total <= length src)%nat ->
               (infix wt src \/ wt = c_wt m) -> (infix wm src \/ wm = c_wm m) ->
               dec_spec src (K (wt, wm, total)) P)
  end.
  { intros wt wm total HT Hwt Hwm. cbv beta iota.
    rewrite from_ok by lia. cbn [bind].
    match goal with |- dec_spec src (bind ?W ?K) ?P =>
      assert (HK : forall user total, (total <= length src)%nat ->
                 (infix user src \/ user = c_user m) ->
                 dec_spec src (K (user, total)) P)
    end.
    { intros user total' HT' Hu. cbv beta iota.
      rewrite from_ok by lia. cbn [bind].
      destruct (N.testbit flags 6 && negb (length (skipn total' src) =? 0)%nat) eqn:EP.
      - read_at_step pass n2 HR.
        cbn [dec_spec]. split; [lia|]. split; [reflexivity|].
        unfold conn_fields_post. cbn [c_cid c_wt c_wm c_user c_pass].
        split; [exact IS|]. split; [exact Hwt|]. split; [exact Hwm|]. split; [exact Hu|].
        left. assumption.
      - cbn [bind dec_spec]. split; [lia|]. split; [reflexivity|].
        unfold conn_fields_post. cbn [c_cid c_wt c_wm c_user c_pass].
        split; [exact IS|]. split; [exact Hwt|]. split; [exact Hwm|]. split; [exact Hu|].
        right. reflexivity. }
    destruct (N.testbit flags 7 && negb (length (skipn total src) =? 0)%nat) eqn:EU.
    - read_at_step user n2 HR.
      apply HK; [lia|left; assumption].
    - cbn [bind]. apply HK; [lia|right; reflexivity]. }
  destruct (N.testbit flags 2) eqn:EW.
  - rewrite from_ok by lia. cbn [bind].
    read_at_step wt n2 HR.
    rewrite from_ok by lia. cbn [bind].
    read_at_step wm n3 HR.
    apply HK; [lia|left; assumption|left; assumption].
  - cbn [bind]. apply HK; [lia|right; reflexivity|right; reflexivity].
Qed.

Lemma conn_decode_spec m src :
  dec_spec src (conn_decode m src) (fun m' n =>
    pkt_post (c_h m') src n /\ conn_fields_post m (dbuf (c_h m')) m').
Proof.
  unfold conn_decode. hdr_step (c_h m) src h1 hn HS DL.
  destruct HS as (B & L & D & TF & PI & DI & HA & PA & RL & TY & TV & FL).
  set (R := N.to_nat (remlen h1)) in *.
  rewrite from_ok by lia. cbn [bind].
  pose proof (conn_decode_body_spec (cwh m h1) (skipn hn (dbuf h1))) as BS.
  destruct (conn_decode_body (cwh m h1) (skipn hn (dbuf h1))) as [[m' n]|c k|];
    cbn [at_off bind]; cbn [dec_spec] in *; try rewrite skipn_length, DL in BS; [|lia|exact BS].
  destruct BS as (BN & BH & BF).
  cbn [cwh c_h] in BH.
  unfold pkt_post, h_clean. cbn [cwh c_h dirty dbuf]. rewrite BH, DL.
  split.
  - split; [reflexivity|]. split; [lia|]. split; [rewrite D at 1; reflexivity|lia].
  - unfold conn_fields_post in *. cbn [cwh c_cid c_wt c_wm c_user c_pass] in *.
    destruct BF as (F1 & F2 & F3 & F4 & F5).
    split; [eapply infix_skipn; exact F1|].
    repeat split.
    + destruct F2 as [F|F]; [left; eapply infix_skipn; exact F|right; exact F].
    + destruct F3 as [F|F]; [left; eapply infix_skipn; exact F|right; exact F].
    + destruct F4 as [F|F]; [left; eapply infix_skipn; exact F|right; exact F].
    + destruct F5 as [F|F]; [left; eapply infix_skipn; exact F|right; exact F].
Qed.

Lemma total_conn : C04_total_conn.
Proof.
  intros h src. eapply dec_spec_count_ok; [apply conn_decode_spec|].
  cbv beta. intros a n ((_ & H1 & _ & H2) & _). lia.
Qed.

Lemma inside_conn : C04_inside_conn.
Proof.
  intros src m n H. cbv zeta.
  pose proof (dec_spec_ok _ _ _ _ _ (conn_decode_spec conn_new src) H) as (P & F).
  destruct P as (_ & P2 & P3 & P4).
  split; [split; assumption|]. split; [exact P2|].
  destruct F as (F1 & F2 & F3 & F4 & F5). cbn [conn_new c_wt c_wm c_user c_pass] in *.
  split; [exact F1|].
  repeat split.
  - destruct F2 as [F|F]; [exact F|rewrite F; apply infix_nil].
  - destruct F3 as [F|F]; [exact F|rewrite F; apply infix_nil].
  - destruct F4 as [F|F]; [exact F|rewrite F; apply infix_nil].
  - destruct F5 as [F|F]; [exact F|rewrite F; apply infix_nil].
Qed.

Print Assumptions total_pub.
Print Assumptions total_ack.
Print Assumptions total_empty.
Print Assumptions total_connack.
Print Assumptions total_suback.
Print Assumptions total_sub.
Print Assumptions total_unsub.
Print Assumptions total_conn.
Print Assumptions inside_pub.
Print Assumptions inside_suback.
Print Assumptions inside_sub.
Print Assumptions inside_unsub.
Print Assumptions inside_conn.
