(* API scripts over the message model: the executable interface the correspondence check
   drives.  A script is a message kind, the value of the packet id counter and a list of
   operations, each encoded as a list of numbers (opcode, then arguments; a byte string is
   the rest of the list).  The result is one observation (again a list of numbers) per
   operation.  The Go harness runs the same script on the real message API. *)
From Base Require Import Tactics Bytes.
From Gen Require Import Tables.
From Codec Require Import Wire Impl.
Open Scope N_scope.

Inductive msg :=
| MPub (m : pubmsg)
| MAck (h : hdr)
| MEmpty (h : hdr)
| MConnack (m : connackmsg)
| MSuback (m : subackmsg)
| MSub (m : submsg)
| MUnsub (m : unsubmsg)
| MConn (m : connmsg).

(* kinds are the packet type numbers *)
Definition new_msg (ty : N) : option msg :=
  if ty =? T_PUBLISH then Some (MPub pub_new)
  else if is_ack_type ty then Some (MAck (ack_new ty))
  else if is_empty_type ty then Some (MEmpty (empty_new ty))
  else if ty =? T_CONNACK then Some (MConnack connack_new)
  else if ty =? T_SUBACK then Some (MSuback suback_new)
  else if ty =? T_SUBSCRIBE then Some (MSub sub_new)
  else if ty =? T_UNSUBSCRIBE then Some (MUnsub unsub_new)
  else if ty =? T_CONNECT then Some (MConn conn_new)
  else None.

Definition n2b (n : N) : bool := negb (n =? 0).
Definition o_ok : list N := [0].
Definition o_err : list N := [1].
Definition o_bad : list N := [99].      (* operation not applicable to this kind *)

Definition obs_opt {A} (o : option A) : list N := match o with Some _ => o_ok | None => o_err end.
Definition upd {A} (cur : A) (o : option A) : A := match o with Some x => x | None => cur end.

(* observation of Encode: [10; n; bytes] | [11; class] | [12] *)
Definition obs_enc (o : outcome bytes) : list N :=
  match o with
  | Ok b => 10 :: len b :: b
  | Err c _ => [11; c]
  | Panic => [12]
  end.
(* observation of Decode: [20; n] | [21; class; count-within-input?] | [22] *)
Definition obs_dec {A} (srclen : nat) (o : outcome (A * nat)) : list N :=
  match o with
  | Ok (_, n) => [20; N.of_nat n]
  | Err c n => [21; c; if (n <=? srclen)%nat then 1 else 0]
  | Panic => [22]
  end.

Definition hdr_of (m : msg) : hdr :=
  match m with
  | MPub m => p_h m | MAck h => h | MEmpty h => h | MConnack m => k_h m
  | MSuback m => sa_h m | MSub m => s_h m | MUnsub m => u_h m | MConn m => c_h m
  end.

(* strings inside a fields dump are length-prefixed *)
Definition fstr (s : bytes) : list N := len s :: s.

Definition fields (m : msg) : list N :=
  let h := hdr_of m in
  30 :: h_type h :: h_flags h :: packet_id h ::
  match m with
  | MPub m => fstr (p_topic m) ++ fstr (p_payload m)
  | MAck _ | MEmpty _ => []
  | MConnack m => [b2n (k_sp m); k_code m]
  | MSuback m => fstr (sa_codes m)
  | MSub m => N.of_nat (length (s_topics m)) :: flat_map fstr (s_topics m) ++ fstr (s_qos m)
  | MUnsub m => N.of_nat (length (u_topics m)) :: flat_map fstr (u_topics m)
  | MConn m => [c_flags m; c_version m; c_keepalive m] ++ fstr (c_cid m) ++ fstr (c_wt m)
               ++ fstr (c_wm m) ++ fstr (c_user m) ++ fstr (c_pass m)
  end.

Definition do_len (m : msg) : msg * nat :=
  match m with
  | MPub m => let '(m, n) := pub_len m in (MPub m, n)
  | MAck h => let '(h, n) := ack_len h in (MAck h, n)
  | MEmpty h => (MEmpty h, empty_len h)
  | MConnack m => let '(m, n) := connack_len m in (MConnack m, n)
  | MSuback m => let '(m, n) := suback_len m in (MSuback m, n)
  | MSub m => let '(m, n) := sub_len m in (MSub m, n)
  | MUnsub m => let '(m, n) := unsub_len m in (MUnsub m, n)
  | MConn m => let '(m, n) := conn_len m in (MConn m, n)
  end.

(* Encode: message and counter are updated only on success, as far as the harness can see *)
Definition do_enc (m : msg) (c : N) (dstlen : nat) : msg * N * outcome bytes :=
  match m with
  | MPub p => match pub_encode p c dstlen with
              | Ok (p', c', b) => (MPub p', c', Ok b) | Err k n => (m, c, Err k n) | Panic => (m, c, Panic) end
  | MAck h => match ack_encode h dstlen with
              | Ok (h', b) => (MAck h', c, Ok b) | Err k n => (m, c, Err k n) | Panic => (m, c, Panic) end
  | MEmpty h => (m, c, empty_encode h dstlen)
  | MConnack k => match connack_encode k dstlen with
              | Ok (k', b) => (MConnack k', c, Ok b) | Err e n => (m, c, Err e n) | Panic => (m, c, Panic) end
  | MSuback s => match suback_encode s dstlen with
              | Ok (s', b) => (MSuback s', c, Ok b) | Err e n => (m, c, Err e n) | Panic => (m, c, Panic) end
  | MSub s => match sub_encode s c dstlen with
              | Ok (s', c', b) => (MSub s', c', Ok b) | Err e n => (m, c, Err e n) | Panic => (m, c, Panic) end
  | MUnsub s => match unsub_encode s c dstlen with
              | Ok (s', c', b) => (MUnsub s', c', Ok b) | Err e n => (m, c, Err e n) | Panic => (m, c, Panic) end
  | MConn s => match conn_encode s dstlen with
              | Ok (s', b) => (MConn s', c, Ok b) | Err e n => (m, c, Err e n) | Panic => (m, c, Panic) end
  end.

Definition do_dec (m : msg) (src : bytes) : msg * list N :=
  let n := length src in
  match m with
  | MPub p => let r := pub_decode p src in
              (match r with Ok (p', _) => MPub p' | _ => m end, obs_dec n r)
  | MAck h => let r := ack_decode h src in
              (match r with Ok (h', _) => MAck h' | _ => m end, obs_dec n r)
  | MEmpty h => let r := empty_decode h src in
              (match r with Ok (h', _) => MEmpty h' | _ => m end, obs_dec n r)
  | MConnack k => let r := connack_decode k src in
              (match r with Ok (k', _) => MConnack k' | _ => m end, obs_dec n r)
  | MSuback s => let r := suback_decode s src in
              (match r with Ok (s', _) => MSuback s' | _ => m end, obs_dec n r)
  | MSub s => let r := sub_decode s src in
              (match r with Ok (s', _) => MSub s' | _ => m end, obs_dec n r)
  | MUnsub s => let r := unsub_decode s src in
              (match r with Ok (s', _) => MUnsub s' | _ => m end, obs_dec n r)
  | MConn s => let r := conn_decode s src in
              (match r with Ok (s', _) => MConn s' | _ => m end, obs_dec n r)
  end.

Definition set_pid_msg (m : msg) (v : N) : msg :=
  match m with
  | MPub p => MPub (pub_set_pid p v)
  | MAck h => MAck (set_pid h v)
  | MEmpty h => MEmpty (set_pid h v)
  | MConnack k => MConnack (mkConnack (set_pid (k_h k) v) (k_sp k) (k_code k))
  | MSuback s => MSuback (suback_set_pid s v)
  | MSub s => MSub (sub_set_pid s v)
  | MUnsub s => MUnsub (unsub_set_pid s v)
  | MConn s => MConn (cwh s (set_pid (c_h s) v))
  end.

(* opcodes *)
Definition step (st : msg * N) (op : list N) : (msg * N) * list N :=
  let '(m, c) := st in
  match op with
  | [1] => let '(m', n) := do_len m in ((m', c), [2; N.of_nat n])
  | [2; neg; k] =>                                   (* l := Len(); Encode(make(l +/- k)) *)
      let '(m1, l) := do_len m in
      let dl := if n2b neg then (l - N.to_nat k)%nat else (l + N.to_nat k)%nat in
      let '(m2, c2, o) := do_enc m1 c dl in ((m2, c2), obs_enc o)
  | [3; dl] => let '(m2, c2, o) := do_enc m c (N.to_nat dl) in ((m2, c2), obs_enc o)
  | 4 :: src => let '(m', o) := do_dec m src in ((m', c), o)
  | [5] => (st, fields m)
  | [6; v] => ((set_pid_msg m v, c), o_ok)
  | _ =>
    match m, op with
    | MPub p, [10; v] => ((MPub (pub_set_dup p (n2b v)), c), o_ok)
    | MPub p, [11; v] => ((MPub (pub_set_retain p (n2b v)), c), o_ok)
    | MPub p, [12; v] => let r := pub_set_qos p v in ((MPub (upd p r), c), obs_opt r)
    | MPub p, 13 :: t => let r := pub_set_topic p t in ((MPub (upd p r), c), obs_opt r)
    | MPub p, 14 :: t => ((MPub (pub_set_payload p t), c), o_ok)
    | MConnack k, [20; v] => ((MConnack (connack_set_sp k (n2b v)), c), o_ok)
    | MConnack k, [21; v] => ((MConnack (connack_set_code k v), c), o_ok)
    | MSuback s, 22 :: cs => let '(s', ok) := suback_add_codes s cs in
                             ((MSuback s', c), if ok then o_ok else o_err)
    | MSub s, 23 :: q :: t => let r := sub_add_topic s t q in ((MSub (upd s r), c), obs_opt r)
    | MSub s, 24 :: t => ((MSub (sub_remove_topic s t), c), o_ok)
    | MUnsub s, 25 :: t => ((MUnsub (unsub_add_topic s t), c), o_ok)
    | MUnsub s, 26 :: t => ((MUnsub (unsub_remove_topic s t), c), o_ok)
    | MConn s, [30; v] => let r := conn_set_version s v in ((MConn (upd s r), c), obs_opt r)
    | MConn s, [31; v] => ((MConn (conn_set_clean s (n2b v)), c), o_ok)
    | MConn s, [32; v] => ((MConn (conn_set_willflag s (n2b v)), c), o_ok)
    | MConn s, [33; v] => let r := conn_set_willqos s v in ((MConn (upd s r), c), obs_opt r)
    | MConn s, [34; v] => ((MConn (conn_set_willretain s (n2b v)), c), o_ok)
    | MConn s, [35; v] => ((MConn (conn_set_userflag s (n2b v)), c), o_ok)
    | MConn s, [36; v] => ((MConn (conn_set_passflag s (n2b v)), c), o_ok)
    | MConn s, [37; v] => ((MConn (conn_set_keepalive s v), c), o_ok)
    | MConn s, 38 :: t => let r := conn_set_cid s t in ((MConn (upd s r), c), obs_opt r)
    | MConn s, 39 :: t => ((MConn (conn_set_wt s t), c), o_ok)
    | MConn s, 40 :: t => ((MConn (conn_set_wm s t), c), o_ok)
    | MConn s, 41 :: t => ((MConn (conn_set_user s t), c), o_ok)
    | MConn s, 42 :: t => ((MConn (conn_set_pass s t), c), o_ok)
    | _, _ => (st, o_bad)
    end
  end.

Fixpoint run_ops (st : msg * N) (ops : list (list N)) : list (list N) :=
  match ops with
  | [] => [[50; snd st]]                              (* final counter value *)
  | op :: r =>
      let '(st', o) := step st op in
      match o with
      | 21 :: _ | 22 :: _ => [o; [50; snd st']]      (* after a failed Decode the script ends *)
      | _ => o :: run_ops st' r
      end
  end.

Definition run_codec (kind counter : N) (ops : list (list N)) : list (list N) :=
  match new_msg kind with
  | Some m => run_ops (m, counter) ops
  | None => [o_bad]
  end.
