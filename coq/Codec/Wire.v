(* MQTT 3.1.1 wire format, written from the specification (sections 2 and 3) as the
   reference the implementation model is proved against.  Independent of the Go code:
   it only uses the numeric constants regenerated into Gen/Tables.v. *)
From Base Require Import Tactics Bytes.
From Gen Require Import Tables.
Open Scope N_scope.

(* remaining-length encoding (section 2.2.3): 7 bits per byte, least significant group
   first, bit 7 = "more bytes follow".  Fuel 4 covers every value below 2^28. *)
Fixpoint varint_fuel (fuel : nat) (n : N) : bytes :=
  match fuel with
  | O => []
  | S f => if n <? 128 then [n] else (n mod 128 + 128) :: varint_fuel f (n / 128)
  end.
Definition varint (n : N) : bytes := varint_fuel 10 n.

Definition lp (s : bytes) : bytes := be16 (len s) ++ s.

Definition fixed (ty flags : N) (body : bytes) : bytes :=
  (ty * 16 + flags) :: varint (len body) ++ body.

Definition b2n (b : bool) : N := if b then 1 else 0.

Record connect_p := {
  cp_version : N;      (* 3 or 4 *)
  cp_flags : N;        (* connect flags byte *)
  cp_keepalive : N;
  cp_clientid : bytes;
  cp_willtopic : bytes;
  cp_willmsg : bytes;
  cp_username : bytes;
  cp_password : bytes
}.

Inductive packet : Type :=
| PConnect (c : connect_p)
| PConnack (sp : bool) (code : N)
| PPublish (dup : bool) (qos : N) (retain : bool) (topic : bytes) (pid : N) (payload : bytes)
| PAck (ty : N) (pid : N)                       (* PUBACK PUBREC PUBREL PUBCOMP UNSUBACK *)
| PSubscribe (pid : N) (topics : list (bytes * N))
| PSuback (pid : N) (codes : list N)
| PUnsubscribe (pid : N) (topics : list bytes)
| PEmpty (ty : N).                              (* PINGREQ PINGRESP DISCONNECT *)

Definition flag (f : N) (bit : N) : bool := N.testbit f bit.

Definition proto_name (v : N) : bytes :=
  match find (fun e => fst e =? v) supported_versions with
  | Some e => snd e
  | None => []
  end.

(* CONNECT variable header and payload (3.1.2, 3.1.3).  A user name / password field is
   present when its flag is set and the value is non-empty (the library follows the 3.1
   reading that the flag may be set with the field missing). *)
Definition connect_body (c : connect_p) : bytes :=
  lp (proto_name (cp_version c)) ++ [cp_version c; cp_flags c] ++ be16 (cp_keepalive c)
  ++ lp (cp_clientid c)
  ++ (if flag (cp_flags c) 2 then lp (cp_willtopic c) ++ lp (cp_willmsg c) else [])
  ++ (if flag (cp_flags c) 7 && negb (len (cp_username c) =? 0) then lp (cp_username c) else [])
  ++ (if flag (cp_flags c) 6 && negb (len (cp_password c) =? 0) then lp (cp_password c) else []).

Definition default_flags (t : N) : N :=
  match find (fun e => fst e =? t) default_flags_table with
  | Some e => snd e
  | None => 0
  end.

Definition wire (p : packet) : bytes :=
  match p with
  | PConnect c => fixed T_CONNECT (default_flags T_CONNECT) (connect_body c)
  | PConnack sp code => fixed T_CONNACK (default_flags T_CONNACK) [b2n sp; code]
  | PPublish dup qos retain topic pid payload =>
      fixed T_PUBLISH (b2n dup * 8 + qos * 2 + b2n retain)
        (lp topic ++ (if qos =? 0 then [] else be16 pid) ++ payload)
  | PAck ty pid => fixed ty (default_flags ty) (be16 pid)
  | PSubscribe pid topics =>
      fixed T_SUBSCRIBE (default_flags T_SUBSCRIBE)
        (be16 pid ++ flat_map (fun tq => lp (fst tq) ++ [snd tq]) topics)
  | PSuback pid codes => fixed T_SUBACK (default_flags T_SUBACK) (be16 pid ++ codes)
  | PUnsubscribe pid topics =>
      fixed T_UNSUBSCRIBE (default_flags T_UNSUBSCRIBE) (be16 pid ++ flat_map lp topics)
  | PEmpty ty => fixed ty (default_flags ty) []
  end.

(* Well-formedness of a packet value: what MQTT 3.1.1 demands of the fields so that the
   packet has a wire encoding at all. *)
Definition str_ok (s : bytes) : bool := bytes_ok s && (len s <=? maxLPString).
Definition valid_topic (t : bytes) : bool :=
  negb (len t =? 0) && negb (existsb (fun b => (b =? 35) || (b =? 43)) t).
Definition printable (b : N) : bool := (32 <=? b) && (b <=? 126).
Definition valid_clientid (s : bytes) : bool := forallb printable s && (len s <=? 32).

Definition body_len_ok (body : bytes) : bool := len body <=? maxRemainingLength.

Definition connect_ok (c : connect_p) : bool :=
  existsb (fun e => fst e =? cp_version c) supported_versions
  && (cp_flags c <? 256) && negb (flag (cp_flags c) 0)
  && ((cp_flags c / 8) mod 4 <? 3)
  && (flag (cp_flags c) 2 || (negb (flag (cp_flags c) 5) && ((cp_flags c / 8) mod 4 =? 0)))
  && (cp_keepalive c <? 65536)
  && str_ok (cp_clientid c) && valid_clientid (cp_clientid c)
  && (negb (len (cp_clientid c) =? 0) || flag (cp_flags c) 1)
  && str_ok (cp_willtopic c) && str_ok (cp_willmsg c)
  && str_ok (cp_username c) && str_ok (cp_password c)
  && (flag (cp_flags c) 2 || ((len (cp_willtopic c) =? 0) && (len (cp_willmsg c) =? 0)))
  && (flag (cp_flags c) 7 || (len (cp_username c) =? 0))
  && (flag (cp_flags c) 6 || (len (cp_password c) =? 0))
  && (negb (flag (cp_flags c) 7) || negb (len (cp_username c) =? 0))
  && (negb (flag (cp_flags c) 6) || negb (len (cp_password c) =? 0)).

Definition is_ack_type (ty : N) : bool :=
  (ty =? T_PUBACK) || (ty =? T_PUBREC) || (ty =? T_PUBREL) || (ty =? T_PUBCOMP) || (ty =? T_UNSUBACK).
Definition is_empty_type (ty : N) : bool :=
  (ty =? T_PINGREQ) || (ty =? T_PINGRESP) || (ty =? T_DISCONNECT).

Definition packet_ok (p : packet) : bool :=
  match p with
  | PConnect c => connect_ok c
  | PConnack sp code => code <=? connack_max_code
  | PPublish dup qos retain topic pid payload =>
      (qos <? 3) && str_ok topic && valid_topic topic && bytes_ok payload
      && (pid <? 65536) && ((qos =? 0) || negb (pid =? 0))
      && ((qos =? 0) && (pid =? 0) || negb (qos =? 0))
      && body_len_ok (lp topic ++ (if qos =? 0 then [] else be16 pid) ++ payload)
  | PAck ty pid => is_ack_type ty && (pid <? 65536)
  | PSubscribe pid topics =>
      (pid <? 65536) && negb (pid =? 0) && negb (length topics =? 0)%nat
      && forallb (fun tq => str_ok (fst tq) && (snd tq <? 3)) topics
      && body_len_ok (be16 pid ++ flat_map (fun tq => lp (fst tq) ++ [snd tq]) topics)
  | PSuback pid codes =>
      (pid <? 65536) && forallb (fun c => existsb (N.eqb c) suback_codes) codes
      && body_len_ok (be16 pid ++ codes)
  | PUnsubscribe pid topics =>
      (pid <? 65536) && negb (pid =? 0) && negb (length topics =? 0)%nat
      && forallb str_ok topics && body_len_ok (be16 pid ++ flat_map lp topics)
  | PEmpty ty => is_empty_type ty
  end.
