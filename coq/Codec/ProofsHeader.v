(* Supporting lemmas for the codec proofs: partial slice operations, varint, be16/rd16,
   length-prefixed strings, header decode/encode, infix. *)
From Base Require Import Tactics Bytes.
From Gen Require Import Tables.
From Codec Require Import Wire Impl Statements.
Open Scope N_scope.

(* ---------- lists ---------- *)

Lemma firstn_length_le' {A} (l : list A) k : (k <= length l)%nat -> length (firstn k l) = k.
Proof. intros H. rewrite firstn_length. lia. Qed.

Lemma firstn_skipn_firstn {A} (l : list A) i k m :
  (i + k <= m)%nat -> firstn k (skipn i (firstn m l)) = firstn k (skipn i l).
Proof.
  revert i k m. induction l as [|x l IH]; intros i k m H.
  - rewrite firstn_nil, !skipn_nil. reflexivity.
  - destruct m as [|m].
    + assert (i = 0%nat) by lia. assert (k = 0%nat) by lia. subst. reflexivity.
    + destruct i as [|i].
      * cbn [skipn]. destruct k as [|k]; [reflexivity|].
        cbn [firstn]. f_equal.
        specialize (IH 0%nat k m). cbn [skipn] in IH.
        assert (E : forall (l0 : list A), skipn 0 l0 = l0) by reflexivity.
        apply IH. lia.
      * cbn [skipn firstn]. apply IH. lia.
Qed.

Lemma skipn_firstn_firstn {A} (l : list A) i m :
  (i <= m)%nat -> skipn i (firstn m l) = firstn (m - i) (skipn i l).
Proof.
  revert i m. induction l as [|x l IH]; intros i m H.
  - rewrite firstn_nil, !skipn_nil, firstn_nil. reflexivity.
  - destruct i as [|i].
    + cbn [skipn]. rewrite Nat.sub_0_r. reflexivity.
    + destruct m as [|m]; [lia|]. cbn [firstn skipn]. change (S m - S i)%nat with (m - i)%nat. apply IH. lia.
Qed.

Lemma skipn_skipn' {A} (l : list A) i j : skipn i (skipn j l) = skipn (j + i) l.
Proof.
  revert l. induction j as [|j IH]; intros l.
  - reflexivity.
  - destruct l as [|x l].
    + rewrite !skipn_nil. reflexivity.
    + cbn [skipn Nat.add]. apply IH.
Qed.

Lemma firstn_firstn_le {A} (l : list A) i j : (i <= j)%nat -> firstn i (firstn j l) = firstn i l.
Proof. intros H. rewrite firstn_firstn. f_equal. lia. Qed.

Lemma nth_firstn_lt {A} (l : list A) i m d : (i < m)%nat -> nth i (firstn m l) d = nth i l d.
Proof.
  revert i m. induction l as [|x l IH]; intros i m H.
  - rewrite firstn_nil. reflexivity.
  - destruct m as [|m]; [lia|]. destruct i as [|i]; [reflexivity|].
    cbn [firstn nth]. apply IH. lia.
Qed.

Lemma nth_skipn' {A} (l : list A) i j d : nth i (skipn j l) d = nth (j + i) l d.
Proof.
  revert l. induction j as [|j IH]; intros l.
  - reflexivity.
  - destruct l as [|x l].
    + rewrite skipn_nil. destruct i; reflexivity.
    + cbn [skipn Nat.add nth]. apply IH.
Qed.

Lemma skipn_app_exact {A} (a b : list A) n : n = length a -> skipn n (a ++ b) = b.
Proof. intros ->. rewrite skipn_app, skipn_all, Nat.sub_diag. reflexivity. Qed.

Lemma firstn_app_exact {A} (a b : list A) n : n = length a -> firstn n (a ++ b) = a.
Proof. intros ->. rewrite firstn_app, firstn_all, Nat.sub_diag, firstn_O, app_nil_r. reflexivity. Qed.

(* ---------- idx / sl / from ---------- *)

Lemma idx_lt l i : (i < length l)%nat -> idx l i = Ok (nth i l 0).
Proof.
  intros H. unfold idx. destruct (nth_error l i) as [b|] eqn:E.
  - f_equal. symmetry. apply nth_error_nth. exact E.
  - apply nth_error_None in E. lia.
Qed.

Lemma sl_ok l i j : (i <= j)%nat -> (j <= length l)%nat ->
  sl l i j = Ok (firstn (j - i) (skipn i l)).
Proof.
  intros H1 H2. unfold sl.
  destruct ((i <=? j)%nat && (j <=? length l)%nat) eqn:E; [reflexivity|lia].
Qed.

Lemma from_ok l i : (i <= length l)%nat -> from l i = Ok (skipn i l).
Proof. intros H. unfold from. destruct (i <=? length l)%nat eqn:E; [reflexivity|lia]. Qed.

Lemma sl_len (l : bytes) i j : (i <= j)%nat -> (j <= length l)%nat ->
  length (firstn (j - i) (skipn i l)) = (j - i)%nat.
Proof. intros H1 H2. rewrite firstn_length, skipn_length. lia. Qed.

Lemma sl_app3 pre mid post i j :
  i = length pre -> j = (i + length mid)%nat -> sl (pre ++ mid ++ post) i j = Ok mid.
Proof.
  intros -> ->. rewrite sl_ok.
  - f_equal. rewrite skipn_app_exact by reflexivity.
    apply firstn_app_exact. lia.
  - lia.
  - rewrite !app_length. lia.
Qed.

(* ---------- be16 / rd16 ---------- *)

Lemma rd16_be16 n : n < 65536 -> rd16 (n / 256 mod 256) (n mod 256) = n.
Proof. intros H. unfold rd16. lia. Qed.

Lemma be16_length n : length (be16 n) = 2%nat.
Proof. reflexivity. Qed.

Lemma be16_rd16 hi lo : hi < 256 -> lo < 256 -> be16 (rd16 hi lo) = [hi; lo].
Proof. intros H1 H2. unfold be16, rd16. f_equal; [|f_equal]; lia. Qed.

Lemma len_app a b : len (a ++ b) = len a + len b.
Proof. unfold len. rewrite app_length. lia. Qed.

Lemma len_cons x a : len (x :: a) = 1 + len a.
Proof. unfold len. cbn [length]. lia. Qed.

Lemma len_nil : len [] = 0.
Proof. reflexivity. Qed.

Lemma len_be16 n : len (be16 n) = 2.
Proof. reflexivity. Qed.

Lemma len_lp s : len (lp s) = 2 + len s.
Proof. unfold lp. rewrite len_app, len_be16. reflexivity. Qed.

Lemma lp_length s : length (lp s) = (2 + length s)%nat.
Proof. unfold lp. rewrite app_length. reflexivity. Qed.

Lemma to_nat_len s : N.to_nat (len s) = length s.
Proof. unfold len. lia. Qed.

(* ---------- varint ---------- *)

Lemma varint_cases n : n <= maxRemainingLength ->
  (n < 128 /\ varint n = [n]) \/
  (128 <= n < 16384 /\ varint n = [n mod 128 + 128; n / 128]) \/
  (16384 <= n < 2097152 /\ varint n = [n mod 128 + 128; n / 128 mod 128 + 128; n / 128 / 128]) \/
  (2097152 <= n /\ varint n = [n mod 128 + 128; n / 128 mod 128 + 128; n / 128 / 128 mod 128 + 128; n / 128 / 128 / 128]
   /\ n / 128 / 128 / 128 < 128).
Proof.
  unfold maxRemainingLength. intros H.
  unfold varint.
  change (varint_fuel 10 n) with
    (if n <? 128 then [n] else (n mod 128 + 128) :: varint_fuel 9 (n / 128)).
  destruct (n <? 128) eqn:E1; [left; split; [lia|reflexivity]|].
  right.
  change (varint_fuel 9 (n / 128)) with
    (if n / 128 <? 128 then [n / 128] else (n / 128 mod 128 + 128) :: varint_fuel 8 (n / 128 / 128)).
  destruct (n / 128 <? 128) eqn:E2; [left; split; [lia|reflexivity]|].
  right.
  change (varint_fuel 8 (n / 128 / 128)) with
    (if n / 128 / 128 <? 128 then [n / 128 / 128]
     else (n / 128 / 128 mod 128 + 128) :: varint_fuel 7 (n / 128 / 128 / 128)).
  destruct (n / 128 / 128 <? 128) eqn:E3; [left; split; [lia|reflexivity]|].
  right.
  change (varint_fuel 7 (n / 128 / 128 / 128)) with
    (if n / 128 / 128 / 128 <? 128 then [n / 128 / 128 / 128]
     else (n / 128 / 128 / 128 mod 128 + 128) :: varint_fuel 6 (n / 128 / 128 / 128 / 128)).
  destruct (n / 128 / 128 / 128 <? 128) eqn:E4.
  - split; [lia|]. split; [reflexivity|lia].
  - exfalso. lia.
Qed.

Lemma varint_length_bounds n : n <= maxRemainingLength -> (1 <= length (varint n) <= 4)%nat.
Proof.
  intros H. destruct (varint_cases n H) as [[_ E]|[[_ E]|[[_ E]|[_ [E _]]]]]; rewrite E; cbn [length]; lia.
Qed.

Lemma uvarint4_varint n rest : n <= maxRemainingLength ->
  uvarint4 (varint n ++ rest) = Some (n, length (varint n)).
Proof.
  intros H. unfold uvarint4.
  destruct (varint_cases n H) as [[B E]|[[B E]|[[B E]|[B [E B']]]]]; rewrite E;
    cbn [app uvarint_fuel length].
  - destruct (n <? 128) eqn:E1; [|lia]. f_equal. f_equal. lia.
  - destruct (n mod 128 + 128 <? 128) eqn:E1; [lia|].
    destruct (n / 128 <? 128) eqn:E2; [|lia]. f_equal. f_equal. lia.
  - destruct (n mod 128 + 128 <? 128) eqn:E1; [lia|].
    destruct (n / 128 mod 128 + 128 <? 128) eqn:E2; [lia|].
    destruct (n / 128 / 128 <? 128) eqn:E3; [|lia]. f_equal. f_equal. lia.
  - destruct (n mod 128 + 128 <? 128) eqn:E1; [lia|].
    destruct (n / 128 mod 128 + 128 <? 128) eqn:E2; [lia|].
    destruct (n / 128 / 128 mod 128 + 128 <? 128) eqn:E3; [lia|].
    destruct (n / 128 / 128 / 128 <? 128) eqn:E4; [|lia]. f_equal. f_equal. lia.
Qed.

Lemma hdr_msglen_of_varint n : n <= maxRemainingLength -> hdr_msglen_of n = S (length (varint n)).
Proof.
  intros H. unfold hdr_msglen_of, msglen_thresholds. cbn [filter].
  destruct (varint_cases n H) as [[B E]|[[B E]|[[B E]|[B [E B']]]]]; rewrite E; cbn [length];
    destruct (127 <? n) eqn:E1; try lia;
    destruct (16383 <? n) eqn:E2; try lia;
    destruct (2097151 <? n) eqn:E3; try lia; reflexivity.
Qed.

Lemma hdr_msglen_of_bounds n : (2 <= hdr_msglen_of n <= 5)%nat.
Proof.
  unfold hdr_msglen_of, msglen_thresholds. cbn [filter].
  destruct (127 <? n); destruct (16383 <? n); destruct (2097151 <? n); cbn [length]; lia.
Qed.

Lemma uvarint_fuel_used fuel l shift acc used v u :
  uvarint_fuel fuel l shift acc used = Some (v, u) ->
  (used < u <= used + fuel)%nat /\ (u - used <= length l)%nat.
Proof.
  revert l shift acc used. induction fuel as [|f IH]; intros l shift acc used H.
  - discriminate H.
  - cbn [uvarint_fuel] in H. destruct l as [|b r]; [discriminate H|].
    destruct (b <? 128) eqn:E.
    + inv H. cbn [length]. lia.
    + apply IH in H. cbn [length]. lia.
Qed.

Lemma uvarint4_used l v u : uvarint4 l = Some (v, u) -> (1 <= u <= 4)%nat /\ (u <= length l)%nat.
Proof. unfold uvarint4. intros H. apply uvarint_fuel_used in H. lia. Qed.

(* ---------- header decode ---------- *)

Definition hdr_post (h : hdr) (src : bytes) (h' : hdr) (n : nat) : Prop :=
  (2 <= n <= 5)%nat /\
  (n + N.to_nat (remlen h') <= length src)%nat /\
  dbuf h' = firstn (n + N.to_nat (remlen h')) src /\
  tf h' = nth 0 src 0 /\
  pid h' = pid h /\ dirty h' = dirty h /\ hal h' = true /\ pal h' = pal h /\
  remlen h' <= maxRemainingLength /\
  h_type h' = h_type h /\ type_valid (h_type h') = true /\
  (if h_type h' =? T_PUBLISH then publish_qos_of_flags (h_flags h') <? 3
   else h_flags h' =? default_flags (h_type h')) = true.

Lemma hdr_decode_spec h src :
  match hdr_decode h src with
  | Ok (h', n) => hdr_post h src h' n
  | Err _ k => (k <= length src)%nat
  | Panic => False
  end.
Proof.
  unfold hdr_decode.
  destruct (length src <? 2)%nat eqn:E0; [lia|].
  rewrite idx_lt by lia. cbn [bind].
  set (b0 := nth 0 src 0).
  destruct (negb (type_valid (b0 / 16))) eqn:E1; [lia|].
  destruct (negb (h_type h =? b0 / 16)) eqn:E2; [lia|].
  destruct (negb (b0 / 16 =? T_PUBLISH) && negb (b0 mod 16 =? default_flags (b0 / 16))) eqn:E3; [lia|].
  destruct ((b0 / 16 =? T_PUBLISH) && negb (publish_qos_of_flags (b0 mod 16) <? 3)) eqn:E4; [lia|].
  rewrite from_ok by lia. cbn [bind].
  destruct (uvarint4 (skipn 1 src)) as [[rl m]|] eqn:EU; [|lia].
  apply uvarint4_used in EU. rewrite skipn_length in EU.
  destruct (maxRemainingLength <? rl) eqn:E5; [lia|].
  destruct (N.of_nat (length src - S m) <? rl) eqn:E6; [lia|].
  rewrite sl_ok by lia. cbn [bind].
  unfold hdr_post, h_type, h_flags. cbn [remlen tf pid dbuf dirty hal pal].
  fold b0.
  apply negb_false_iff in E1, E2. apply N.eqb_eq in E2.
  split; [lia|]. split; [lia|].
  split; [rewrite Nat.sub_0_r; reflexivity|].
  split; [reflexivity|]. split; [reflexivity|]. split; [reflexivity|]. split; [reflexivity|].
  split; [reflexivity|]. split; [lia|].
  split; [symmetry; exact E2|]. split; [exact E1|].
  destruct (b0 / 16 =? T_PUBLISH) eqn:EP; cbn [negb andb] in E3, E4.
  - apply negb_false_iff in E4. exact E4.
  - apply negb_false_iff in E3. exact E3.
Qed.

Lemma hdr_post_dbuf_length h src h' n :
  hdr_post h src h' n -> length (dbuf h') = (n + N.to_nat (remlen h'))%nat.
Proof.
  intros (_ & H2 & H3 & _). rewrite H3. apply firstn_length_le'. exact H2.
Qed.

Lemma hdr_post_is_packet h src h' n :
  hdr_post h src h' n -> is_packet_of (dbuf h') src.
Proof.
  intros H. pose proof (hdr_post_dbuf_length _ _ _ _ H) as L.
  destruct H as (_ & H2 & H3 & _). unfold is_packet_of. rewrite L. split; [exact H3|exact H2].
Qed.

Lemma idx_cons0 x l : idx (x :: l) 0 = Ok x.
Proof. reflexivity. Qed.

Lemma div16 ty fl : fl < 16 -> (ty * 16 + fl) / 16 = ty.
Proof. intros H. lia. Qed.
Lemma mod16 ty fl : fl < 16 -> (ty * 16 + fl) mod 16 = fl.
Proof. intros H. lia. Qed.

Lemma fixed_length ty fl body :
  length (fixed ty fl body) = (S (length (varint (len body))) + length body)%nat.
Proof. unfold fixed. cbn [length]. rewrite app_length. lia. Qed.

Lemma skipn_fixed ty fl body :
  skipn (S (length (varint (len body)))) (fixed ty fl body) = body.
Proof. unfold fixed. cbn [skipn]. apply skipn_app_exact. reflexivity. Qed.

Lemma hdr_decode_fixed h ty fl body rest :
  type_valid ty = true -> fl < 16 -> h_type h = ty ->
  (if ty =? T_PUBLISH then publish_qos_of_flags fl <? 3 else fl =? default_flags ty) = true ->
  len body <= maxRemainingLength ->
  hdr_decode h (fixed ty fl body ++ rest) =
    Ok (mkHdr (len body) (ty * 16 + fl) (pid h) (fixed ty fl body) (dirty h) true (pal h),
        S (length (varint (len body)))).
Proof.
  intros HV HF HT HD HL.
  pose proof (varint_length_bounds _ HL) as HB.
  pose proof (fixed_length ty fl body) as FL.
  assert (E : fixed ty fl body ++ rest = (ty * 16 + fl) :: varint (len body) ++ (body ++ rest)).
  { unfold fixed. cbn [app]. rewrite <- app_assoc. reflexivity. }
  assert (FX : firstn (S (length (varint (len body))) + N.to_nat (len body)) (fixed ty fl body ++ rest)
               = fixed ty fl body).
  { apply firstn_app_exact. rewrite FL, to_nat_len. reflexivity. }
  assert (LS : length (fixed ty fl body ++ rest)
               = (S (length (varint (len body))) + length body + length rest)%nat).
  { rewrite app_length, FL. reflexivity. }
  remember (fixed ty fl body ++ rest) as src eqn:Esrc.
  remember (fixed ty fl body) as fx eqn:Efx.
  unfold hdr_decode.
  destruct (length src <? 2)%nat eqn:E0; [lia|].
  rewrite E at 1. rewrite idx_cons0. cbn [bind].
  rewrite div16, mod16 by exact HF.
  rewrite HV, HT, N.eqb_refl. cbn [negb].
  assert (E34 : negb (ty =? T_PUBLISH) && negb (fl =? default_flags ty) = false
                /\ (ty =? T_PUBLISH) && negb (publish_qos_of_flags fl <? 3) = false).
  { destruct (ty =? T_PUBLISH) eqn:EP; cbn [negb andb]; rewrite HD; split; reflexivity. }
  destruct E34 as [E3 E4]. rewrite E3, E4.
  rewrite from_ok by lia. cbn [bind].
  rewrite E at 1. cbn [skipn].
  rewrite uvarint4_varint by exact HL.
  destruct (maxRemainingLength <? len body) eqn:E5; [lia|].
  destruct (N.of_nat (length src - S (length (varint (len body)))) <? len body) eqn:E6.
  { pose proof (to_nat_len body). lia. }
  pose proof (to_nat_len body) as TL.
  rewrite sl_ok; [|lia|lia].
  cbn [bind skipn]. rewrite Nat.sub_0_r. rewrite FX. reflexivity.
Qed.

(* ---------- header encode ---------- *)

Lemma hdr_encode_ok h dl :
  (hdr_msglen h <= dl)%nat -> remlen h <= maxRemainingLength -> type_valid (h_type h) = true ->
  hdr_encode h dl = Ok (tf h :: varint (remlen h)).
Proof.
  intros H1 H2 H3. unfold hdr_encode.
  destruct (dl <? hdr_msglen h)%nat eqn:E1; [lia|].
  destruct (maxRemainingLength <? remlen h) eqn:E2; [lia|].
  rewrite H3. reflexivity.
Qed.

(* ---------- length-prefixed strings ---------- *)

Lemma read_lp_spec buf :
  match read_lp buf with
  | Ok (s, n) => (n = 2 + length s)%nat /\ (n <= length buf)%nat /\ s = firstn (length s) (skipn 2 buf)
  | Err _ k => (k <= length buf)%nat
  | Panic => False
  end.
Proof.
  unfold read_lp.
  destruct (length buf <? 2)%nat eqn:E0; [lia|].
  rewrite !idx_lt by lia. cbn [bind].
  set (X := rd16 (nth 0 buf 0) (nth 1 buf 0)).
  destruct (N.of_nat (length buf) <? 2 + X) eqn:E1; [lia|].
  rewrite sl_ok by lia. cbn [bind].
  assert (L : length (firstn (2 + N.to_nat X - 2) (skipn 2 buf)) = N.to_nat X).
  { rewrite firstn_length, skipn_length. lia. }
  split; [lia|]. split; [lia|].
  rewrite L. f_equal. lia.
Qed.

Lemma read_lp_lp s rest : len s <= maxLPString ->
  read_lp (lp s ++ rest) = Ok (s, (2 + length s)%nat).
Proof.
  unfold maxLPString. intros H. unfold read_lp.
  destruct (length (lp s ++ rest) <? 2)%nat eqn:E0.
  { rewrite app_length, lp_length in E0. lia. }
  unfold lp, be16 in *. cbn [app] in *.
  rewrite idx_cons0. unfold idx at 1. cbn [nth_error bind].
  rewrite rd16_be16 by lia.
  destruct (N.of_nat (length (len s / 256 mod 256 :: len s mod 256 :: s ++ rest)) <? 2 + len s) eqn:E1.
  { cbn [length] in E1. rewrite app_length in E1. unfold len in E1. lia. }
  rewrite to_nat_len.
  change (len s / 256 mod 256 :: len s mod 256 :: s ++ rest)
    with ([len s / 256 mod 256; len s mod 256] ++ s ++ rest).
  rewrite sl_app3 by reflexivity. reflexivity.
Qed.

(* ---------- infix ---------- *)

Lemma infix_nil d : infix [] d.
Proof. exists 0%nat. cbn [length]. split; [lia|reflexivity]. Qed.

Lemma infix_sub d i k : (i + k <= length d)%nat -> infix (firstn k (skipn i d)) d.
Proof.
  intros H. exists i.
  assert (L : length (firstn k (skipn i d)) = k).
  { rewrite firstn_length, skipn_length. lia. }
  rewrite L. split; [exact H|reflexivity].
Qed.

Lemma infix_firstn src m i k :
  (i + k <= m)%nat -> (m <= length src)%nat -> infix (firstn k (skipn i src)) (firstn m src).
Proof.
  intros H1 H2. rewrite <- (firstn_skipn_firstn src i k m) by exact H1.
  apply infix_sub. rewrite firstn_length. lia.
Qed.

(* a string read by read_lp from the tail of d at offset off is inside d *)
Lemma infix_read_lp d off s :
  s = firstn (length s) (skipn 2 (skipn off d)) -> (off + 2 + length s <= length d)%nat -> infix s d.
Proof.
  intros H L. rewrite skipn_skipn' in H. rewrite H.
  replace (length (firstn (length s) (skipn (off + 2) d))) with (length s) by (rewrite <- H; reflexivity).
  apply infix_sub. lia.
Qed.

Lemma infix_skipn f d i : infix f (skipn i d) -> infix f d.
Proof.
  intros [j [H1 H2]]. rewrite skipn_length in H1. rewrite skipn_skipn' in H2.
  destruct (Nat.le_gt_cases i (length d)) as [L|L].
  - exists (i + j)%nat. split; [lia|exact H2].
  - assert (F : length f = 0%nat) by lia.
    destruct f; [apply infix_nil|discriminate F].
Qed.

(* ---------- outcome of a decoder: never Panic, error counts inside src ---------- *)

Definition dec_spec {A} (src : bytes) (o : outcome (A * nat)) (P : A -> nat -> Prop) : Prop :=
  match o with
  | Ok (a, n) => P a n
  | Err _ k => (k <= length src)%nat
  | Panic => False
  end.

Lemma dec_spec_count_ok {A} src (o : outcome (A * nat)) P :
  dec_spec src o P -> (forall a n, P a n -> (n <= length src)%nat) -> count_ok src o.
Proof.
  unfold dec_spec, count_ok. destruct o as [[a n]|c k|]; intros H HP.
  - exact (HP a n H).
  - exact H.
  - exact H.
Qed.

Lemma dec_spec_ok {A} src (o : outcome (A * nat)) P a n :
  dec_spec src o P -> o = Ok (a, n) -> P a n.
Proof. intros H ->. exact H. Qed.

(* what every decoder establishes about the header of the decoded message *)
Definition pkt_post (h : hdr) (src : bytes) (n : nat) : Prop :=
  dirty h = false /\ (n <= length (dbuf h))%nat /\
  dbuf h = firstn (length (dbuf h)) src /\ (length (dbuf h) <= length src)%nat.

(* ---------- types, default flags, new headers ---------- *)

Lemma default_flags_lt16 ty : default_flags ty < 16.
Proof.
  unfold default_flags, default_flags_table. cbn [find fst snd].
  repeat (destr_if; [cbn [snd]; lia|]). lia.
Qed.

Lemma new_hdr_type ty : h_type (new_hdr ty) = ty.
Proof. unfold h_type, new_hdr. cbn [tf]. lia. Qed.

Lemma new_hdr_tf ty : tf (new_hdr ty) = ty * 16 + default_flags ty.
Proof.
  unfold new_hdr. cbn [tf]. pose proof (default_flags_lt16 ty). f_equal. lia.
Qed.

Lemma ack_type_cases ty : is_ack_type ty = true -> ty = 4 \/ ty = 5 \/ ty = 6 \/ ty = 7 \/ ty = 11.
Proof.
  unfold is_ack_type, T_PUBACK, T_PUBREC, T_PUBREL, T_PUBCOMP, T_UNSUBACK. lia.
Qed.

Lemma empty_type_cases ty : is_empty_type ty = true -> ty = 12 \/ ty = 13 \/ ty = 14.
Proof. unfold is_empty_type, T_PINGREQ, T_PINGRESP, T_DISCONNECT. lia. Qed.

Lemma type_valid_iff ty : type_valid ty = true <-> 0 < ty < 15.
Proof. unfold type_valid, valid_lo, valid_hi. lia. Qed.

(* the flags condition of hdr_decode for a type other than PUBLISH carrying its default flags *)
Lemma flags_cond_default ty : ty <> T_PUBLISH ->
  (if ty =? T_PUBLISH then publish_qos_of_flags (default_flags ty) <? 3
   else default_flags ty =? default_flags ty) = true.
Proof. intros H. destruct (ty =? T_PUBLISH) eqn:E; [lia|apply N.eqb_refl]. Qed.

Lemma ok_pair_eq {A} (a : A) n n' : n = n' -> @Ok (A * nat) (a, n) = Ok (a, n').
Proof. intros ->. reflexivity. Qed.

Lemma fixed_app2 ty fl a b rest :
  fixed ty fl (a ++ b) ++ rest = ((ty * 16 + fl) :: varint (len (a ++ b))) ++ a ++ (b ++ rest).
Proof. unfold fixed. cbn [app]. rewrite <- !app_assoc. reflexivity. Qed.

Lemma fixed_app3 ty fl a b c rest :
  fixed ty fl (a ++ b ++ c) ++ rest =
  (((ty * 16 + fl) :: varint (len (a ++ b ++ c))) ++ a) ++ b ++ (c ++ rest).
Proof. unfold fixed. cbn [app]. rewrite <- !app_assoc. reflexivity. Qed.

Lemma varint_small n : n < 128 -> varint n = [n].
Proof.
  intros H. unfold varint. cbn [varint_fuel]. destruct (n <? 128) eqn:E; [reflexivity|lia].
Qed.

(* go through this lemma instead of unfolding body_len_ok in a hypothesis: the kernel's
   conversion check is slow on [_ <=? maxRemainingLength] over partly concrete lists *)
Lemma body_len_ok_le X : body_len_ok X = true -> len X <= maxRemainingLength.
Proof. intros H. unfold body_len_ok in H. lia. Qed.

Lemma str_ok_le s : str_ok s = true -> len s <= maxLPString.
Proof. unfold str_ok. intros H. lia. Qed.

Lemma str_ok_bytes s : str_ok s = true -> bytes_ok s = true.
Proof. unfold str_ok. intros H. apply andb_true_iff in H. apply H. Qed.

Lemma fixed_pre ty fl body a b : body = a ++ b ->
  fixed ty fl body = (((ty * 16 + fl) :: varint (len body)) ++ a) ++ b.
Proof.
  intros E. unfold fixed. cbn [app]. rewrite <- app_assoc. rewrite <- E. reflexivity.
Qed.

Lemma idx_app_exact a x b i : i = length a -> idx (a ++ x :: b) i = Ok x.
Proof.
  intros ->. unfold idx. rewrite nth_error_app2 by lia. rewrite Nat.sub_diag. reflexivity.
Qed.

Lemma combine_map_fst_snd {A B} (l : list (A * B)) : combine (map fst l) (map snd l) = l.
Proof.
  induction l as [|[a b] l IH]; [reflexivity|]. cbn [map combine fst snd]. rewrite IH. reflexivity.
Qed.

Lemma max_ge_2 : 2 <= maxRemainingLength.
Proof. unfold maxRemainingLength. lia. Qed.

Lemma idx_app_off a b i k : i = (length a + k)%nat -> idx (a ++ b) i = idx b k.
Proof.
  intros ->. unfold idx. rewrite nth_error_app2 by lia.
  replace (length a + k - length a)%nat with k by lia. reflexivity.
Qed.

Lemma beq_bytes_refl a : beq_bytes a a = true.
Proof. induction a as [|x a IH]; [reflexivity|]. cbn [beq_bytes]. rewrite N.eqb_refl, IH. reflexivity. Qed.

Lemma len_0_nil (s : bytes) : (len s =? 0) = true -> s = [].
Proof. destruct s; [reflexivity|]. intros H. discriminate H. Qed.

Lemma byte_range_forall (P : N -> bool) :
  forallb P (map N.of_nat (seq 0 256)) = true -> forall t, t < 256 -> P t = true.
Proof.
  intros H t Ht. rewrite forallb_forall in H. apply H. apply in_map_iff.
  exists (N.to_nat t). split; [lia|apply in_seq; lia].
Qed.

Lemma land1_testbit0 f : f < 256 -> (N.land f 1 =? 0) = negb (N.testbit f 0).
Proof.
  intros H. apply Bool.eqb_prop. revert f H.
  apply (byte_range_forall (fun f => Bool.eqb (N.land f 1 =? 0) (negb (N.testbit f 0)))).
  vm_compute. reflexivity.
Qed.

Lemma length_eqb_len (s : bytes) : (length s =? 0)%nat = (len s =? 0).
Proof. destruct s; reflexivity. Qed.

Print Assumptions uvarint4_varint.
Print Assumptions hdr_msglen_of_varint.
Print Assumptions uvarint4_used.
Print Assumptions rd16_be16.
Print Assumptions read_lp_spec.
Print Assumptions read_lp_lp.
Print Assumptions hdr_decode_spec.
Print Assumptions hdr_decode_fixed.
Print Assumptions hdr_encode_ok.
Print Assumptions infix_firstn.
Print Assumptions infix_read_lp.
