(* Lock discipline over the tables regenerated from /repo on every run (tie T1): which mutex guards
   which shared object, decided for every access the translator found.  The domain is the finite
   regenerated table, so the boolean decision evaluated by the kernel is a proof about the current
   source; a change that adds an unguarded access, removes a Lock, or turns a defer'd unlock into a
   leaking return changes the table and makes the theorem fail.
   Hand-written (trusted base): the map from shared-object classes to their guards, the lists of
   functions that run before an object is shared, and of helpers that are only called with the
   guard held (the latter checked against the call table). *)
From Coq Require Import List String Ascii Bool Arith.
From Gen Require Import Tables.
Import ListNotations.
Open Scope string_scope.

Definition str_in (s : string) (l : list string) : bool := existsb (String.eqb s) l.

(* a class of shared state: type, fields, guarding mutex (as written in the type's methods) *)
Record guard := mkG { g_type : string; g_fields : list string; g_mutex : string;
                      g_exempt : list string;      (* functions that run before / after the object is shared *)
                      g_helpers : list string }.   (* methods only ever called with the guard held *)

Definition guards : list guard := [
  mkG "MemTopics" ["sroot"] "mt.smu" [] [];
  mkG "MemTopics" ["rroot"] "mt.rmu" [] [];
  mkG "MemProvider" ["st"] "mp.mu" [] [];
  mkG "Ackqueue" ["size"; "mask"; "count"; "head"; "tail"; "ping"; "ring"; "emap"; "ackdone"] "aq.mu" []
      ["Ackqueue.insert"; "Ackqueue.removeHead"; "Ackqueue.grow"; "Ackqueue.len"; "Ackqueue.cap"; "Ackqueue.index";
       "Ackqueue.full"; "Ackqueue.empty"; "Ackqueue.increment"];
  mkG "Session" ["topics"; "initted"; "cbuf"; "rbuf"; "Retained"; "Will"] "s.mu" [] [];
  mkG "Server" ["svcs"] "svr.mu" [] []
].

Definition method_name (f : string) : string :=
  (* "Ackqueue.insert" is called as "aq.insert" *)
  match index 0 "." f with
  | Some i => substring (S i) (length f) f
  | None => f
  end.

(* helpers: besides the listed ones, every UNEXPORTED method of the type that touches a guarded field without taking
   the guard itself is treated as a helper - which obliges every one of its call sites to hold the guard (checked below
   against the call table).  An extracted helper function therefore needs no change here; an exported method has to
   take the guard itself. *)
Definition unexported (f : string) : bool :=
  match method_name f with
  | String c _ => Nat.leb 97 (Ascii.nat_of_ascii c) && Nat.leb (Ascii.nat_of_ascii c) 122
  | EmptyString => false
  end.
Definition touches_unguarded (g : guard) (a : field_access) : bool :=
  String.eqb (fa_type a) (g_type g) && str_in (fa_field a) (g_fields g) && negb (str_in (g_mutex g) (fa_locks a)).
Definition helpers_of (g : guard) : list string :=
  g_helpers g ++ map fa_func (filter (fun a => touches_unguarded g a && unexported (fa_func a)) field_accesses).

Definition guarded_ok (g : guard) (a : field_access) : bool :=
  negb (String.eqb (fa_type a) (g_type g) && str_in (fa_field a) (g_fields g))
  || str_in (g_mutex g) (fa_locks a)
  || str_in (fa_func a) (g_exempt g)
  || str_in (fa_func a) (helpers_of g).

(* a helper may only be called from a region that holds the guard, or from another helper *)

Definition calls_helper (g : guard) (callee : string) : bool :=
  existsb (fun h => match index 0 "." callee with
                    | Some i => String.eqb (substring (S i) (length callee) callee) (method_name h)
                                && String.eqb (substring 0 i callee) (substring 0 (match index 0 "." (g_mutex g) with Some j => j | None => 0 end) (g_mutex g))
                    | None => false
                    end) (helpers_of g).

Definition region_holds (f : string) (g : guard) (callee : string) : bool :=
  existsb (fun r => String.eqb (lr_func r) f && String.eqb (lr_mutex r) (g_mutex g) && str_in callee (lr_calls r)) lock_regions.

Definition helper_calls_ok (g : guard) : bool :=
  forallb (fun fc =>
    let '(_, f, callees) := fc in
    forallb (fun c => negb (calls_helper g c) || str_in f (helpers_of g) || region_holds f g c) callees) func_calls.

(* every Lock is released on every syntactic path (no mutex is left held) *)
Definition all_balanced : bool := forallb lr_balanced lock_regions.

Definition discipline_ok : bool :=
  forallb (fun g => forallb (guarded_ok g) field_accesses && helper_calls_ok g) guards && all_balanced.

(* ---- the write mutex of a connection and the single-producer / single-consumer roles of the rings ---- *)

Definition callers_of (callee : string) : list string :=
  flat_map (fun fc => let '(_, f, cs) := fc in if str_in callee cs then [f] else []) func_calls.

(* writeMessage holds the write mutex - taken with a deferred, balanced unlock - over every operation on the outgoing
   ring: the region exists, and (computed by tools/gentables over the source positions, helpers included) the lock and the
   deferred unlock precede the first such operation *)
Definition wmu_region_ok : bool :=
  existsb (fun r => String.eqb (lr_func r) "service.writeMessage" && String.eqb (lr_mutex r) "svc.wmu"
                    && lr_defer r && lr_balanced r) lock_regions
  && wmu_taken_before_ring_ops.

Definition only (fs : list string) (l : list string) : bool := forallb (fun f => str_in f fs) l.

(* producers of the outgoing ring: writeMessage only (under wmu); its consumer: the sender goroutine; producer of the
   incoming ring: the receiver goroutine; its consumer: the processor goroutine.  The four facts are computed by
   tools/gentables (locks.go genRingRoles) over the call graph of the methods of service: a ring operation belongs to a
   role if it occurs in the role's entry function or in a helper all of whose callers, transitively, do - so that
   helpers factored out of those functions, and renamed receiver variables, do not matter *)
Definition ring_roles_ok : bool :=
  ring_out_produced_under_writeMessage && ring_out_consumed_by_sender
  && ring_in_produced_by_receiver && ring_in_consumed_by_processor.

(* ---- order of the teardown actions in service.stop ---- *)
Fixpoint pos (x : string) (l : list string) (i : nat) : option nat :=
  match l with [] => None | y :: r => if String.eqb x y then Some i else pos x r (S i) end.
Definition before (a b : string) : bool :=
  match pos a stop_order 0, pos b stop_order 0 with Some i, Some j => Nat.ltb i j | _, _ => false end.
Definition stop_order_ok : bool :=
  before "cas_closed" "close_conn" && before "close_conn" "wait_goroutines" && before "close_in" "wait_goroutines"
  && before "close_out" "wait_goroutines" && before "wait_goroutines" "unsubscribe_topics"
  && before "unsubscribe_topics" "publish_will" && before "publish_will" "delete_clean_session".

Lemma discipline : discipline_ok = true.            Proof. vm_compute. reflexivity. Qed.
Lemma wmu_region : wmu_region_ok = true.            Proof. vm_compute. reflexivity. Qed.
Lemma ring_roles : ring_roles_ok = true.            Proof. vm_compute. reflexivity. Qed.
Lemma stop_order_lemma : stop_order_ok = true.      Proof. vm_compute. reflexivity. Qed.

(* the decision, unfolded: every access to a guarded field holds the guard (or is made by a listed helper) *)
Lemma discipline_forall : forall g a, In g guards -> In a field_accesses ->
  fa_type a = g_type g -> In (fa_field a) (g_fields g) ->
  In (g_mutex g) (fa_locks a) \/ In (fa_func a) (g_exempt g) \/ In (fa_func a) (helpers_of g).
Proof.
  intros g a Hg Ha Ht Hf.
  pose proof discipline as D. unfold discipline_ok in D.
  apply andb_true_iff in D. destruct D as [D _].
  rewrite forallb_forall in D. specialize (D g Hg).
  apply andb_true_iff in D. destruct D as [D _].
  rewrite forallb_forall in D. specialize (D a Ha).
  unfold guarded_ok in D.
  assert (Hin : forall s l, In s l -> str_in s l = true).
  { intros s l H. unfold str_in. apply existsb_exists. exists s. split; [exact H | apply String.eqb_refl]. }
  assert (Hout : forall s l, str_in s l = true -> In s l).
  { intros s l H. unfold str_in in H. apply existsb_exists in H. destruct H as [x [Hx He]]. apply String.eqb_eq in He. subst. exact Hx. }
  rewrite Ht, String.eqb_refl, (Hin _ _ Hf) in D. cbn [andb negb orb] in D.
  apply orb_true_iff in D. destruct D as [D|D]; [|right; right; apply Hout; exact D].
  apply orb_true_iff in D. destruct D as [D|D]; [left; apply Hout; exact D | right; left; apply Hout; exact D].
Qed.
