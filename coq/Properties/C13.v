(* C13 - an ack queue is a FIFO of in-flight requests, released only on the final ack.
   Model: Ackq/Model.v (sessions/ackqueue.go); specification and statements: Ackq/Spec.v.
   This file only closes statements with proved lemmas. *)
From Coq Require Import NArith.
From Ackq Require Import Model Spec ProofsExamples ProofsRefine ProofsFifo.
Open Scope N_scope.

(* the growing ring with its index returns exactly what the FIFO list returns, for every initial
   capacity 2^k and every history *)
Theorem C13_refines : Spec.C13_refines.
Proof. exact ProofsRefine.refines. Qed.
Print Assumptions C13_refines.

(* handed back = a prefix of what was registered: at most once, in order, after all earlier ones *)
Theorem C13_fifo_prefix : Spec.C13_fifo_prefix.
Proof. exact ProofsFifo.fifo_prefix. Qed.
Print Assumptions C13_fifo_prefix.

(* only in a terminal state, with the bytes of an acknowledgement that arrived with its identifier *)
Theorem C13_terminal_ack : Spec.C13_terminal_ack.
Proof. exact ProofsFifo.terminal_ack. Qed.
Print Assumptions C13_terminal_ack.

(* acknowledgements for unknown identifiers change nothing *)
Theorem C13_unknown_ack : Spec.C13_unknown_ack.
Proof. exact ProofsFifo.unknown_ack. Qed.
Print Assumptions C13_unknown_ack.

(* non-vacuity: a history that grows the ring while it is wrapped *)
Theorem C13_instance_wrapped_growth :
  q_outs (q_new (2 ^ 1)) h_wrapped = s_outs s_new h_wrapped.
Proof. exact ProofsExamples.refines_on_wrapped_growth. Qed.
Print Assumptions C13_instance_wrapped_growth.

(* ---- the source functions themselves: Gallina translations regenerated from /repo on every run (Gen/Translated.v)
   equal the model functions the theorems above are about, for every input, and never panic ---- *)
From Trans Require SpecAckq EquivAckq SpecPow2 EquivPow2.

(* Ackqueue.index with mask = size - 1 is the position modulo the size *)
Theorem C13_index_is_model : Trans.SpecAckq.T_index.
Proof. exact Trans.EquivAckq.index_equiv. Qed.
Print Assumptions C13_index_is_model.

(* Ackqueue.full / empty *)
Theorem C13_full_empty_is_model : Trans.SpecAckq.T_full_empty.
Proof. exact Trans.EquivAckq.full_empty_equiv. Qed.
Print Assumptions C13_full_empty_is_model.

(* powerOfTwo64 is true exactly on the powers of two *)
Theorem C13_powerOfTwo : Trans.SpecPow2.T_powerOfTwo.
Proof. exact Trans.EquivPow2.powerOfTwo_equiv. Qed.
Print Assumptions C13_powerOfTwo.

(* roundUpPowerOfTwo64 is the least power of two not below n: every queue capacity is a power of two *)
Theorem C13_roundUp : Trans.SpecPow2.T_roundUp.
Proof. exact Trans.EquivPow2.roundUp_equiv. Qed.
Print Assumptions C13_roundUp.
