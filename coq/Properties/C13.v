(* C13 - an ack queue is a FIFO of in-flight requests, released only on the final ack.
   Model: Ackq/Model.v (sessions/ackqueue.go); specification and statements: Ackq/Spec.v.
   This file only closes statements with proved lemmas. *)
From Coq Require Import NArith.
From Ackq Require Import Model Spec ProofsExamples.
Open Scope N_scope.

Theorem C13_instance_wrapped_growth :
  q_outs (q_new (2 ^ 1)) h_wrapped = s_outs s_new h_wrapped.
Proof. exact ProofsExamples.refines_on_wrapped_growth. Qed.
Print Assumptions C13_instance_wrapped_growth.
