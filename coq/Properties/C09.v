(* C09 - The will is published exactly when a connection ends without DISCONNECT.
   Model: Proto/Broker.v (event-step broker built from the codec, topic-store and ack-queue models).
   This file only closes statements with proved lemmas; the instance theorems are concrete histories
   (with the observations the implementation produced for them) re-evaluated inside Coq. *)
From Coq Require Import List NArith.
From Proto Require Import Broker Script ProofsBasic ProofsInstances Props ProofsSession.
Import ListNotations.
Open Scope N_scope.

Theorem C09_instance_c09_resumed_will : run_broker [262144] h_c09_resumed_will = o_c09_resumed_will.
Proof. exact ProofsInstances.inst_c09_resumed_will. Qed.
Print Assumptions C09_instance_c09_resumed_will.

Theorem C09_instance_c09_will_retain_server_close : run_broker [262144] h_c09_will_retain_server_close = o_c09_will_retain_server_close.
Proof. exact ProofsInstances.inst_c09_will_retain_server_close. Qed.
Print Assumptions C09_instance_c09_will_retain_server_close.

(* a connection that ends without DISCONNECT publishes exactly its will (topic, payload, QoS, retain of its CONNECT) *)
Theorem C09_stop_will : Props.C09_stop_will.
Proof. exact ProofsSession.stop_will. Qed.
Print Assumptions C09_stop_will.

(* no will flag: nothing is published at the end *)
Theorem C09_stop_no_will : Props.C09_stop_no_will.
Proof. exact ProofsSession.stop_no_will. Qed.
Print Assumptions C09_stop_no_will.

(* DISCONNECT discards the will *)
Theorem C09_disconnect : Props.C09_disconnect.
Proof. exact ProofsSession.disconnect. Qed.
Print Assumptions C09_disconnect.

(* the will kept is the one of the latest accepted CONNECT *)
Theorem C09_connect_will : Props.C09_connect_will.
Proof. exact ProofsSession.connect_will. Qed.
Print Assumptions C09_connect_will.
