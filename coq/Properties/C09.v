(* C09 - The will is published exactly when a connection ends without DISCONNECT.
   Model: Proto/Broker.v (event-step broker built from the codec, topic-store and ack-queue models).
   This file only closes statements with proved lemmas; the instance theorems are concrete histories
   (with the observations the implementation produced for them) re-evaluated inside Coq. *)
From Coq Require Import List NArith.
From Proto Require Import Broker Script ProofsBasic ProofsInstances.
Import ListNotations.
Open Scope N_scope.

Theorem C09_instance_c09_resumed_will : run_broker [262144] h_c09_resumed_will = o_c09_resumed_will.
Proof. exact ProofsInstances.inst_c09_resumed_will. Qed.
Print Assumptions C09_instance_c09_resumed_will.

Theorem C09_instance_c09_will_retain_server_close : run_broker [262144] h_c09_will_retain_server_close = o_c09_will_retain_server_close.
Proof. exact ProofsInstances.inst_c09_will_retain_server_close. Qed.
Print Assumptions C09_instance_c09_will_retain_server_close.
