(* C19 - keep-alive: silent clients are dropped as failed, active clients never are.
   Model: Life/KeepAlive.v (deadline arithmetic with the expression read off the source, tie T1).
   This file only closes statements with proved lemmas. *)
From Coq Require Import ZArith List.
From Life Require Import KeepAlive.
Import ListNotations.
Open Scope Z_scope.

(* a client that sends anything at intervals shorter than K seconds never expires while it does so *)
Theorem C19_active_never_dropped : forall k, 1 <= k -> forall arrivals t,
  gaps_below t arrivals (k * 1000) ->
  exists last, expiry k t arrivals = Some (last + deadline_ms k) /\ last = List.last arrivals t.
Proof. exact KeepAlive.active_never_expires. Qed.
Print Assumptions C19_active_never_dropped.

(* a client that sends nothing for 1.5 K or more is dropped, 1.2 K after its last packet *)
Theorem C19_silent_dropped : forall k t arrivals next,
  1 <= k -> arrivals = [next] -> t + 1500 * k <= next -> expiry k t arrivals = Some (t + 1200 * k).
Proof. exact KeepAlive.silent_expires. Qed.
Print Assumptions C19_silent_dropped.

Theorem C19_silent_forever_dropped : forall k t, 1 <= k -> expiry k t [] = Some (t + 1200 * k).
Proof. exact KeepAlive.silent_forever_expires. Qed.
Print Assumptions C19_silent_forever_dropped.

Theorem C19_zero_means_default : deadline_ms 0 = 36000.
Proof. exact KeepAlive.zero_means_default. Qed.
Print Assumptions C19_zero_means_default.

(* the deadline is re-armed by every read on the socket (read off timeoutReader.Read) *)
Theorem C19_rearmed_every_read : Gen.Tables.reader_rearms_every_read = true.
Proof. reflexivity. Qed.
Print Assumptions C19_rearmed_every_read.
