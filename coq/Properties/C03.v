(* C03 - the packet codec round-trips and is canonical for all 14 packet types.
   Statements: Codec/Statements.v.  Model: Codec/Impl.v (package message), reference wire
   format: Codec/Wire.v.  This file only closes statements with proved lemmas. *)
From Codec Require Import Statements ProofsIds.

Theorem C03_packet_ids : Statements.C03_packet_ids.
Proof. exact ProofsIds.packet_ids. Qed.
Print Assumptions C03_packet_ids.
