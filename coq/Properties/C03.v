(* C03 - the packet codec round-trips and is canonical for all 14 packet types.
   Statements: Codec/Statements.v.  Model: Codec/Impl.v (package message), reference wire
   format: Codec/Wire.v.  This file only closes statements with proved lemmas. *)
From Codec Require Import Statements ProofsIds ProofsEncode ProofsAccept ProofsReencode.

(* Encode writes exactly Len() bytes and they are the MQTT 3.1.1 wire encoding of the fields, for every
   message that can be built through the API *)
Theorem C03_encode_pub : Statements.C03_encode_pub.
Proof. exact ProofsEncode.encode_pub. Qed.
Print Assumptions C03_encode_pub.

Theorem C03_encode_ack : Statements.C03_encode_ack.
Proof. exact ProofsEncode.encode_ack. Qed.
Print Assumptions C03_encode_ack.

Theorem C03_encode_empty : Statements.C03_encode_empty.
Proof. exact ProofsEncode.encode_empty. Qed.
Print Assumptions C03_encode_empty.

Theorem C03_encode_connack : Statements.C03_encode_connack.
Proof. exact ProofsEncode.encode_connack. Qed.
Print Assumptions C03_encode_connack.

Theorem C03_encode_suback : Statements.C03_encode_suback.
Proof. exact ProofsEncode.encode_suback. Qed.
Print Assumptions C03_encode_suback.

Theorem C03_encode_sub : Statements.C03_encode_sub.
Proof. exact ProofsEncode.encode_sub. Qed.
Print Assumptions C03_encode_sub.

Theorem C03_encode_unsub : Statements.C03_encode_unsub.
Proof. exact ProofsEncode.encode_unsub. Qed.
Print Assumptions C03_encode_unsub.

Theorem C03_encode_conn : Statements.C03_encode_conn.
Proof. exact ProofsEncode.encode_conn. Qed.
Print Assumptions C03_encode_conn.

(* decoding the wire encoding of any well-formed packet yields a message with equal fields (also when
   other bytes follow) *)
Theorem C03_decode_wire_pub : Statements.C04_accepts_pub.
Proof. exact ProofsAccept.accepts_pub. Qed.
Print Assumptions C03_decode_wire_pub.

Theorem C03_decode_wire_ack : Statements.C04_accepts_ack.
Proof. exact ProofsAccept.accepts_ack. Qed.
Print Assumptions C03_decode_wire_ack.

Theorem C03_decode_wire_empty : Statements.C04_accepts_empty.
Proof. exact ProofsAccept.accepts_empty. Qed.
Print Assumptions C03_decode_wire_empty.

Theorem C03_decode_wire_connack : Statements.C04_accepts_connack.
Proof. exact ProofsAccept.accepts_connack. Qed.
Print Assumptions C03_decode_wire_connack.

Theorem C03_decode_wire_suback : Statements.C04_accepts_suback.
Proof. exact ProofsAccept.accepts_suback. Qed.
Print Assumptions C03_decode_wire_suback.

Theorem C03_decode_wire_sub : Statements.C04_accepts_sub.
Proof. exact ProofsAccept.accepts_sub. Qed.
Print Assumptions C03_decode_wire_sub.

Theorem C03_decode_wire_unsub : Statements.C04_accepts_unsub.
Proof. exact ProofsAccept.accepts_unsub. Qed.
Print Assumptions C03_decode_wire_unsub.

Theorem C03_decode_wire_conn : Statements.C04_accepts_conn.
Proof. exact ProofsAccept.accepts_conn. Qed.
Print Assumptions C03_decode_wire_conn.

(* for every byte string a decoder accepts, re-encoding reproduces exactly the bytes of that packet *)
Theorem C03_reencode_pub : Statements.C03_reencode_pub.
Proof. exact ProofsReencode.reencode_pub. Qed.
Print Assumptions C03_reencode_pub.

Theorem C03_reencode_ack : Statements.C03_reencode_ack.
Proof. exact ProofsReencode.reencode_ack. Qed.
Print Assumptions C03_reencode_ack.

Theorem C03_reencode_empty : Statements.C03_reencode_empty.
Proof. exact ProofsReencode.reencode_empty. Qed.
Print Assumptions C03_reencode_empty.

Theorem C03_reencode_connack : Statements.C03_reencode_connack.
Proof. exact ProofsReencode.reencode_connack. Qed.
Print Assumptions C03_reencode_connack.

Theorem C03_reencode_suback : Statements.C03_reencode_suback.
Proof. exact ProofsReencode.reencode_suback. Qed.
Print Assumptions C03_reencode_suback.

Theorem C03_reencode_sub : Statements.C03_reencode_sub.
Proof. exact ProofsReencode.reencode_sub. Qed.
Print Assumptions C03_reencode_sub.

Theorem C03_reencode_unsub : Statements.C03_reencode_unsub.
Proof. exact ProofsReencode.reencode_unsub. Qed.
Print Assumptions C03_reencode_unsub.

Theorem C03_reencode_conn : Statements.C03_reencode_conn.
Proof. exact ProofsReencode.reencode_conn. Qed.
Print Assumptions C03_reencode_conn.

(* automatically assigned packet identifiers are never zero, for every value of the counter *)
Theorem C03_packet_ids : Statements.C03_packet_ids.
Proof. exact ProofsIds.packet_ids. Qed.
Print Assumptions C03_packet_ids.
