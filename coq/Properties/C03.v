(* C03 - the packet codec round-trips and is canonical for all 14 packet types.
   Statements: Codec/Statements.v.  Model: Codec/Impl.v (package message), reference wire
   format: Codec/Wire.v.  This file only closes statements with proved lemmas. *)
From Codec Require Import Statements ProofsIds ProofsEncode ProofsAccept ProofsReencode.

(* Encode writes exactly Len() bytes and they are the MQTT 3.1.1 wire encoding of the fields, for every
   message that can be built through the API *)
Theorem C03_encode_pub : Statements.C03_encode_pub.
Proof. exact ProofsEncode.encode_pub. Qed.
Print Assumptions C03_encode_pub.

Theorem C03_encode_ack : Statements.C03_encode_ack.
Proof. exact ProofsEncode.encode_ack. Qed.
Print Assumptions C03_encode_ack.

Theorem C03_encode_empty : Statements.C03_encode_empty.
Proof. exact ProofsEncode.encode_empty. Qed.
Print Assumptions C03_encode_empty.

Theorem C03_encode_connack : Statements.C03_encode_connack.
Proof. exact ProofsEncode.encode_connack. Qed.
Print Assumptions C03_encode_connack.

Theorem C03_encode_suback : Statements.C03_encode_suback.
Proof. exact ProofsEncode.encode_suback. Qed.
Print Assumptions C03_encode_suback.

Theorem C03_encode_sub : Statements.C03_encode_sub.
Proof. exact ProofsEncode.encode_sub. Qed.
Print Assumptions C03_encode_sub.

Theorem C03_encode_unsub : Statements.C03_encode_unsub.
Proof. exact ProofsEncode.encode_unsub. Qed.
Print Assumptions C03_encode_unsub.

Theorem C03_encode_conn : Statements.C03_encode_conn.
Proof. exact ProofsEncode.encode_conn. Qed.
Print Assumptions C03_encode_conn.

(* decoding the wire encoding of any well-formed packet yields a message with equal fields (also when
   other bytes follow) *)
Theorem C03_decode_wire_pub : Statements.C04_accepts_pub.
Proof. exact ProofsAccept.accepts_pub. Qed.
Print Assumptions C03_decode_wire_pub.

Theorem C03_decode_wire_ack : Statements.C04_accepts_ack.
Proof. exact ProofsAccept.accepts_ack. Qed.
Print Assumptions C03_decode_wire_ack.

Theorem C03_decode_wire_empty : Statements.C04_accepts_empty.
Proof. exact ProofsAccept.accepts_empty. Qed.
Print Assumptions C03_decode_wire_empty.

Theorem C03_decode_wire_connack : Statements.C04_accepts_connack.
Proof. exact ProofsAccept.accepts_connack. Qed.
Print Assumptions C03_decode_wire_connack.

Theorem C03_decode_wire_suback : Statements.C04_accepts_suback.
Proof. exact ProofsAccept.accepts_suback. Qed.
Print Assumptions C03_decode_wire_suback.

Theorem C03_decode_wire_sub : Statements.C04_accepts_sub.
Proof. exact ProofsAccept.accepts_sub. Qed.
Print Assumptions C03_decode_wire_sub.

Theorem C03_decode_wire_unsub : Statements.C04_accepts_unsub.
Proof. exact ProofsAccept.accepts_unsub. Qed.
Print Assumptions C03_decode_wire_unsub.

Theorem C03_decode_wire_conn : Statements.C04_accepts_conn.
Proof. exact ProofsAccept.accepts_conn. Qed.
Print Assumptions C03_decode_wire_conn.

(* for every byte string a decoder accepts, re-encoding reproduces exactly the bytes of that packet *)
Theorem C03_reencode_pub : Statements.C03_reencode_pub.
Proof. exact ProofsReencode.reencode_pub. Qed.
Print Assumptions C03_reencode_pub.

Theorem C03_reencode_ack : Statements.C03_reencode_ack.
Proof. exact ProofsReencode.reencode_ack. Qed.
Print Assumptions C03_reencode_ack.

Theorem C03_reencode_empty : Statements.C03_reencode_empty.
Proof. exact ProofsReencode.reencode_empty. Qed.
Print Assumptions C03_reencode_empty.

Theorem C03_reencode_connack : Statements.C03_reencode_connack.
Proof. exact ProofsReencode.reencode_connack. Qed.
Print Assumptions C03_reencode_connack.

Theorem C03_reencode_suback : Statements.C03_reencode_suback.
Proof. exact ProofsReencode.reencode_suback. Qed.
Print Assumptions C03_reencode_suback.

Theorem C03_reencode_sub : Statements.C03_reencode_sub.
Proof. exact ProofsReencode.reencode_sub. Qed.
Print Assumptions C03_reencode_sub.

Theorem C03_reencode_unsub : Statements.C03_reencode_unsub.
Proof. exact ProofsReencode.reencode_unsub. Qed.
Print Assumptions C03_reencode_unsub.

Theorem C03_reencode_conn : Statements.C03_reencode_conn.
Proof. exact ProofsReencode.reencode_conn. Qed.
Print Assumptions C03_reencode_conn.

(* automatically assigned packet identifiers are never zero, for every value of the counter *)
Theorem C03_packet_ids : Statements.C03_packet_ids.
Proof. exact ProofsIds.packet_ids. Qed.
Print Assumptions C03_packet_ids.

(* ---- the source functions themselves: Gallina translations regenerated from /repo on every run (Gen/Translated.v)
   equal the model functions the theorems above are about, for every input, and never panic ---- *)
From Trans Require Spec Equiv.

(* message.readLPBytes = Codec.Impl.read_lp *)
Theorem C03_readLPBytes_is_model : Trans.Spec.T_readLPBytes.
Proof. exact Trans.Equiv.readLPBytes_equiv. Qed.
Print Assumptions C03_readLPBytes_is_model.

(* message.writeLPBytes writes Codec.Wire.lp or refuses without touching the buffer *)
Theorem C03_writeLPBytes_is_model : Trans.Spec.T_writeLPBytes.
Proof. exact Trans.Equiv.writeLPBytes_equiv. Qed.
Print Assumptions C03_writeLPBytes_is_model.

(* header.msglen = Codec.Impl.hdr_msglen_of *)
Theorem C03_msglen_is_model : Trans.Spec.T_msglen.
Proof. exact Trans.Equiv.msglen_equiv. Qed.
Print Assumptions C03_msglen_is_model.

(* message.ValidTopic = Codec.Wire.valid_topic *)
Theorem C03_ValidTopic_is_model : Trans.Spec.T_ValidTopic.
Proof. exact Trans.Equiv.validTopic_equiv. Qed.
Print Assumptions C03_ValidTopic_is_model.

(* message.ValidQos accepts exactly 0, 1, 2 *)
Theorem C03_ValidQos_is_model : Trans.Spec.T_ValidQos.
Proof. exact Trans.Equiv.validQos_equiv. Qed.
Print Assumptions C03_ValidQos_is_model.

(* message.Type.Valid = Codec.Impl.type_valid *)
Theorem C03_TypeValid_is_model : Trans.Spec.T_TypeValid.
Proof. exact Trans.Equiv.typeValid_equiv. Qed.
Print Assumptions C03_TypeValid_is_model.

(* message.Type.DefaultFlags = the table of the codec model *)
Theorem C03_DefaultFlags_is_model : Trans.Spec.T_DefaultFlags.
Proof. exact Trans.Equiv.defaultFlags_equiv. Qed.
Print Assumptions C03_DefaultFlags_is_model.

(* message.nextPacketID, as the source has it now (the atomic counter, the loop that skips zero), is the model's next_pid
   for EVERY value of the 64-bit counter - so C03_packet_ids speaks about the source *)
Theorem C03_nextPacketID_is_model : Trans.Spec.T_nextPacketID.
Proof. exact Trans.Equiv.nextPacketID_equiv. Qed.
Print Assumptions C03_nextPacketID_is_model.

(* header.decode - the fixed-header decoder every packet decoder starts with - as the source has it now, with the methods it
   calls (Type, Flags, Valid, DefaultFlags, ValidQos), never panics and agrees with Codec.Impl.hdr_decode on the bytes
   consumed, the error and every header field, for every header and every byte string *)
From Trans Require EquivDecode.
Theorem C03_header_decode_is_model : Trans.Spec.T_header_decode.
Proof. exact Trans.EquivDecode.header_decode_equiv. Qed.
Print Assumptions C03_header_decode_is_model.

(* header.encode (with msglen, Type, Valid) and header.SetRemainingLength, as the source has them now, equal the model's
   hdr_encode / set_remlen: never a panic, the destination untouched on every refusal, otherwise the type/flags byte and the
   minimal encoding of the remaining length *)
From Trans Require EquivEncode.
Theorem C03_header_encode_is_model : Trans.Spec.T_header_encode.
Proof. exact Trans.EquivEncode.header_encode_equiv. Qed.
Print Assumptions C03_header_encode_is_model.
Theorem C03_SetRemainingLength_is_model : Trans.Spec.T_SetRemainingLength.
Proof. exact Trans.EquivEncode.setRemainingLength_equiv. Qed.
Print Assumptions C03_SetRemainingLength_is_model.
