(* C12 - Sender side: PUBREL follows PUBREC; completion fires once, after the last ack.
   Model: Client/Model.v (client role of the protocol engine).  This file only closes statements with
   proved lemmas; the instance theorems are concrete scripts (with the observations the implementation
   produced for them) re-evaluated inside Coq. *)
From Coq Require Import List NArith.
From Client Require Import Script ProofsInstances.
From Proto Require ProofsInstances.
Import ListNotations.
Open Scope N_scope.

Theorem C12_instance_c12_completion_order : run_client [262144] h_c12_completion_order = o_c12_completion_order.
Proof. exact ProofsInstances.inst_c12_completion_order. Qed.
Print Assumptions C12_instance_c12_completion_order.

Theorem C12_instance_c12_ack_before_register : run_client [262144] h_c12_ack_before_register = o_c12_ack_before_register.
Proof. exact ProofsInstances.inst_c12_ack_before_register. Qed.
Print Assumptions C12_instance_c12_ack_before_register.

(* finding F17: a forwarded PUBLISH keeps the publisher's identifier *)
Theorem C12_instance_same_id_two_publishers : Proto.Script.run_broker [262144] Proto.ProofsInstances.h_c12_same_id_two_publishers = Proto.ProofsInstances.o_c12_same_id_two_publishers.
Proof. exact Proto.ProofsInstances.inst_c12_same_id_two_publishers. Qed.
Print Assumptions C12_instance_same_id_two_publishers.
