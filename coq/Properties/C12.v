(* C12 - Sender side: PUBREL follows PUBREC; completion fires once, after the last ack.
   Model: Client/Model.v (client role of the protocol engine).  This file only closes statements with
   proved lemmas; the instance theorems are concrete scripts (with the observations the implementation
   produced for them) re-evaluated inside Coq. *)
From Coq Require Import List NArith.
From Client Require Import Script ProofsInstances.
From Proto Require ProofsInstances.
Import ListNotations.
Open Scope N_scope.

Theorem C12_instance_c12_completion_order : run_client [262144] h_c12_completion_order = o_c12_completion_order.
Proof. exact ProofsInstances.inst_c12_completion_order. Qed.
Print Assumptions C12_instance_c12_completion_order.

Theorem C12_instance_c12_ack_before_register : run_client [262144] h_c12_ack_before_register = o_c12_ack_before_register.
Proof. exact ProofsInstances.inst_c12_ack_before_register. Qed.
Print Assumptions C12_instance_c12_ack_before_register.

(* finding F17: a forwarded PUBLISH keeps the publisher's identifier *)
Theorem C12_instance_same_id_two_publishers : Proto.Script.run_broker [262144] Proto.ProofsInstances.h_c12_same_id_two_publishers = Proto.ProofsInstances.o_c12_same_id_two_publishers.
Proof. exact Proto.ProofsInstances.inst_c12_same_id_two_publishers. Qed.
Print Assumptions C12_instance_same_id_two_publishers.

From Client Require Props ProofsComplete.

(* every PUBREC, known identifier or not, is answered by exactly a PUBREL with the same identifier *)
Theorem C12_pubrec_pubrel : Client.Props.C12_pubrec_pubrel.
Proof. exact Client.ProofsComplete.pubrec_pubrel. Qed.
Print Assumptions C12_pubrec_pubrel.

(* in every reachable client state the registrations of the waiting requests are pairwise distinct and were all handed out: a released request left its queue, so its completion cannot fire again *)
Theorem C12_registrations_unique : Client.Props.C12_registrations_unique.
Proof. exact Client.ProofsComplete.registrations_unique. Qed.
Print Assumptions C12_registrations_unique.

(* a released request triggers at most one completion call, that of its registration, and changes no queue *)
Theorem C12_complete_once : Client.Props.C12_complete_once.
Proof. exact Client.ProofsComplete.complete_once. Qed.
Print Assumptions C12_complete_once.

(* an acknowledgement completes exactly the entries the FIFO specification releases (the longest terminally acknowledged prefix), in order, and removes them *)
Theorem C12_ack_completes_released : Client.ProofsComplete.C12_ack_completes_released_corrected.
Proof. exact Client.ProofsComplete.ack_completes_released_corrected. Qed.
Print Assumptions C12_ack_completes_released.

(* (without the side condition on the unused ping cell of the queue the statement is false of states no history reaches) *)
Theorem C12_ack_completes_released_unreachable_refuted : ~ Client.Props.C12_ack_completes_released.
Proof. exact Client.ProofsComplete.ack_completes_released_counterexample. Qed.
Print Assumptions C12_ack_completes_released_unreachable_refuted.

(* ... and in every reachable state the side condition holds *)
Theorem C12_ack_completes_released_reach : forall bufsize cl which atype pid raw cl1 o,
  Client.Props.creach bufsize cl ->
  (which = 1 \/ which = 2 \/ which = 3 \/ which = 4) ->
  Client.Model.ack_and_complete cl which atype pid raw = (cl1, o) ->
  let q1 := fst (Ackq.Spec.s_ack (Client.Model.get_q cl which) atype pid raw) in
  let '(d, rest) := Ackq.Spec.release (Ackq.Spec.s_list q1) in
  Ackq.Spec.s_list (Client.Model.get_q cl1 which) = rest /\
  (forall w, (w = 1 \/ w = 2 \/ w = 3 \/ w = 4) -> w <> which -> Client.Model.get_q cl1 w = Client.Model.get_q cl w) /\
  o = snd (Client.Model.complete_all (Client.Model.upd_q cl which (fst (Ackq.Spec.s_acked q1))) d).
Proof. exact Client.ProofsComplete.ack_completes_released_reach. Qed.
Print Assumptions C12_ack_completes_released_reach.

(* finding F22: a request numbered by the library gets the identifier the application chose for one still in flight *)
Theorem C12_instance_c12_auto_id_collision : run_client [262144] h_c12_auto_id_collision = o_c12_auto_id_collision.
Proof. exact ProofsInstances.inst_c12_auto_id_collision. Qed.
Print Assumptions C12_instance_c12_auto_id_collision.

From Proto Require PropsOrder ProofsOrder.

(* the broker in the sender role: every PUBREC on a connection, known identifier or not, is answered there by exactly one PUBREL with that identifier; the broker state is unchanged *)
Theorem C12_broker_pubrec_pubrel : Proto.PropsOrder.C12_broker_pubrec_pubrel.
Proof. exact Proto.ProofsOrder.broker_pubrec_pubrel. Qed.
Print Assumptions C12_broker_pubrec_pubrel.

(* ... seen from the wire *)
Theorem C12_broker_pubrec_pubrel_wire : Proto.PropsOrder.C12_broker_pubrec_pubrel_wire.
Proof. exact Proto.ProofsOrder.broker_pubrec_pubrel_wire. Qed.
Print Assumptions C12_broker_pubrec_pubrel_wire.

(* PUBACK and PUBCOMP from a subscriber write nothing and close nothing *)
Theorem C12_broker_ack_no_output : Proto.PropsOrder.C12_broker_ack_no_output.
Proof. exact Proto.ProofsOrder.broker_ack_no_output. Qed.
Print Assumptions C12_broker_ack_no_output.
