(* C07 - SUBSCRIBE/UNSUBSCRIBE are always acknowledged and take effect at the ack.
   Model: Proto/Broker.v (event-step broker built from the codec, topic-store and ack-queue models).
   This file only closes statements with proved lemmas; the instance theorems are concrete histories
   (with the observations the implementation produced for them) re-evaluated inside Coq. *)
From Coq Require Import List NArith.
From Proto Require Import Broker Script ProofsBasic ProofsInstances Props ProofsSub.
Import ListNotations.
Open Scope N_scope.

Theorem C07_instance_c07_rejected_filter : run_broker [262144] h_c07_rejected_filter = o_c07_rejected_filter.
Proof. exact ProofsInstances.inst_c07_rejected_filter. Qed.
Print Assumptions C07_instance_c07_rejected_filter.

Theorem C07_instance_c07_unsubscribe_five : run_broker [262144] h_c07_unsubscribe_five = o_c07_unsubscribe_five.
Proof. exact ProofsInstances.inst_c07_unsubscribe_five. Qed.
Print Assumptions C07_instance_c07_unsubscribe_five.

(* SUBACK: same identifier, one code per filter, each the granted QoS or 0x80 *)
Theorem C07_suback : Props.C07_suback.
Proof. exact ProofsSub.suback. Qed.
Print Assumptions C07_suback.

(* UNSUBACK: same identifier, the filters are gone before it is written *)
Theorem C07_unsuback : Props.C07_unsuback.
Proof. exact ProofsSub.unsuback. Qed.
Print Assumptions C07_unsuback.
