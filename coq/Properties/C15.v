(* C15 - ring buffer blocking is live: no lost wake-up, Close always unblocks.
   Model: Ring/Live.v; statements: Ring/LiveSpec.v (and the corrected progress statement in
   Ring/ProofsLive.v).  This file only closes statements with proved lemmas. *)
From Coq Require Import List NArith ZArith.
From Ring Require Import Live LiveSpec LiveScript ProofsExamples ProofsLive.
Import ListNotations.

(* no operation, in any state or interleaving, leaves a mutex locked *)
Theorem C15_no_lock_leak : LiveSpec.C15_no_lock_leak.
Proof. exact ProofsLive.no_lock_leak. Qed.
Print Assumptions C15_no_lock_leak.

(* a parked thread whose wake condition holds has been broadcast to, or the broadcast is on its way *)
Theorem C15_no_lost_wakeup : LiveSpec.C15_no_lost_wakeup.
Proof. exact ProofsLive.no_lost_wakeup. Qed.
Print Assumptions C15_no_lost_wakeup.

(* every thread inside a call can step, waits for a mutex whose holder can step, is rightly waiting
   for data / space, or waits for a broadcast whose sender is not stuck *)
Theorem C15_no_deadlock : ProofsLive.C15_no_deadlock_corrected.
Proof. exact ProofsLive.no_deadlock_corrected. Qed.
Print Assumptions C15_no_deadlock.

Theorem C15_global_progress : forall size n s t,
  (0 < size)%Z -> reachable size n s -> (t < length (l_pcs s))%nat -> between_calls (get_pc s t) = false ->
  legit_wait s t \/ exists u, can_step s u.
Proof. exact ProofsLive.global_progress. Qed.
Print Assumptions C15_global_progress.

(* the first formulation of no-deadlock (without the transient case) is false: witness *)
Theorem C15_no_deadlock_naive_refuted : ~ LiveSpec.C15_no_deadlock.
Proof. exact ProofsLive.no_deadlock_refuted. Qed.
Print Assumptions C15_no_deadlock_naive_refuted.

(* Close always unblocks *)
Theorem C15_close_unblocks : LiveSpec.C15_close_unblocks.
Proof. exact ProofsLive.close_unblocks. Qed.
Print Assumptions C15_close_unblocks.

Theorem C15_done_leaves_loop : LiveSpec.C15_done_leaves_loop.
Proof. exact ProofsLive.done_leaves_loop. Qed.
Print Assumptions C15_done_leaves_loop.

(* regression instance: the window in which the unrepaired ReadWait lost its wake-up *)
Theorem C15_window_instance :
  last (run_live [16;0;0;0;2]%N window_schedule) [] = [1;4;0;0;0;4]%N.
Proof. exact ProofsExamples.no_lost_wakeup_window_instance. Qed.
Print Assumptions C15_window_instance.

(* read off the source (tie T1): every store of a ring cursor is followed, unconditionally and in the same block, by the
   broadcast on the condition variable the other side waits on - the step structure Ring/Live.v gives the calls *)
Theorem C15_cursor_stores_broadcast : Gen.Tables.cursor_stores_broadcast = true.
Proof. reflexivity. Qed.
Print Assumptions C15_cursor_stores_broadcast.
