(* C10 - Clean and persistent sessions.
   Model: Proto/Broker.v (event-step broker built from the codec, topic-store and ack-queue models).
   This file only closes statements with proved lemmas; the instance theorems are concrete histories
   (with the observations the implementation produced for them) re-evaluated inside Coq. *)
From Coq Require Import List NArith.
From Proto Require Import Broker Script ProofsBasic ProofsInstances Props ProofsSession.
Import ListNotations.
Open Scope N_scope.

Theorem C10_instance_c10_sessions : run_broker [262144] h_c10_sessions = o_c10_sessions.
Proof. exact ProofsInstances.inst_c10_sessions. Qed.
Print Assumptions C10_instance_c10_sessions.

(* session-present flag and the session installed by an accepted CONNECT *)
Theorem C10_connect_session : Props.C10_connect_session.
Proof. exact ProofsSession.connect_session. Qed.
Print Assumptions C10_connect_session.

(* what the end of a connection keeps (persistent) or removes (clean) *)
Theorem C10_stop_session : Props.C10_stop_session.
Proof. exact ProofsSession.stop_session. Qed.
Print Assumptions C10_stop_session.

From Proto Require PropsHist ProofsHist.

(* ROUND TRIP: a persistent session survives the end of its connection (stop keeps it, removes its subscriptions from the tree) and every later accepted CONNECT with that identifier and CleanSession=0 is answered session-present=1 and re-installs exactly the stored filters with their stored QoS; the open QoS 2 exchanges are kept *)
Theorem C10_resume_roundtrip : Proto.PropsHist.C10_resume_roundtrip.
Proof. exact Proto.ProofsHist.resume_roundtrip. Qed.
Print Assumptions C10_resume_roundtrip.

(* a clean session is gone after its connection: a later CleanSession=0 CONNECT gets session-present=0, an empty session and no subscription *)
Theorem C10_clean_discards : Proto.PropsHist.C10_clean_discards.
Proof. exact Proto.ProofsHist.clean_discards. Qed.
Print Assumptions C10_clean_discards.

(* ... also with any number of events of other clients in between *)
Theorem C10_resume_after_others : Proto.PropsHist.C10_resume_after_others.
Proof. exact Proto.ProofsHist.resume_after_others. Qed.
Print Assumptions C10_resume_after_others.
