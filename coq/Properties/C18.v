(* C18 - concurrent clients never cause unsynchronised access to shared broker state.
   Locks/Discipline.v decides the lock discipline over the tables regenerated from the current source
   (tie T1): every access the translator found to a guarded field holds the guard.  This file only
   closes statements with proved lemmas.  (The dynamic side is the race detector, run by the check.) *)
From Coq Require Import List String.
From Gen Require Import Tables.
From Locks Require Import Discipline.

Theorem C18_discipline : Discipline.discipline_ok = true.
Proof. exact Discipline.discipline. Qed.
Print Assumptions C18_discipline.

Theorem C18_discipline_forall : forall g a, In g guards -> In a field_accesses ->
  fa_type a = g_type g -> In (fa_field a) (g_fields g) ->
  In (g_mutex g) (fa_locks a) \/ In (fa_func a) (g_exempt g) \/ In (fa_func a) (helpers_of g).
Proof. exact Discipline.discipline_forall. Qed.
Print Assumptions C18_discipline_forall.

Theorem C18_write_mutex : Discipline.wmu_region_ok = true.
Proof. exact Discipline.wmu_region. Qed.
Print Assumptions C18_write_mutex.

Theorem C18_ring_roles : Discipline.ring_roles_ok = true.
Proof. exact Discipline.ring_roles. Qed.
Print Assumptions C18_ring_roles.
