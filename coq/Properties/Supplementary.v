(* Supplementary ties: theorems about translated source functions that are NOT in the cone of any property check.
   They strengthen the tie between /repo and the models when they hold; when a rewrite of the source breaks one of
   them, bin/check reports it as a note of C03 / C04, not as a violation (the properties are then still decided by the
   theorems of Properties/C03.v, C04.v and the correspondence).  The reason for keeping them apart: these proofs
   follow the shape of whole Decode / Encode methods more closely than the leaf-function proofs do, and a harmless
   refactoring of those methods (refactors/R11) breaks them.

   Whole codec methods of two packet families, as the source has them now (Gen/Translated.v): DisconnectMessage
   (DISCONNECT, PINGREQ, PINGRESP) and PubackMessage (PUBACK, PUBREC, PUBREL, PUBCOMP, UNSUBACK) - Decode, Len and
   Encode equal the model functions of Codec/Impl.v that the theorems of C03 / C04 are about, for every message
   state, source and destination, and never panic. *)
From Trans Require SpecAck EquivAck.

Theorem S_src_empty_Decode : Trans.SpecAck.T_empty_decode.
Proof. exact Trans.EquivAck.empty_decode_equiv. Qed.
Print Assumptions S_src_empty_Decode.

Theorem S_src_empty_Len : Trans.SpecAck.T_empty_len.
Proof. exact Trans.EquivAck.empty_len_equiv. Qed.
Print Assumptions S_src_empty_Len.

Theorem S_src_empty_Encode : Trans.SpecAck.T_empty_encode.
Proof. exact Trans.EquivAck.empty_encode_equiv. Qed.
Print Assumptions S_src_empty_Encode.

Theorem S_src_ack_Decode : Trans.SpecAck.T_ack_decode.
Proof. exact Trans.EquivAck.ack_decode_equiv. Qed.
Print Assumptions S_src_ack_Decode.

Theorem S_src_ack_Len : Trans.SpecAck.T_ack_len.
Proof. exact Trans.EquivAck.ack_len_equiv. Qed.
Print Assumptions S_src_ack_Len.

Theorem S_src_ack_Encode : Trans.SpecAck.T_ack_encode.
Proof. exact Trans.EquivAck.ack_encode_equiv. Qed.
Print Assumptions S_src_ack_Encode.

Theorem S_src_PacketID : Trans.SpecAck.T_PacketID.
Proof. exact Trans.EquivAck.packetID_equiv. Qed.
Print Assumptions S_src_PacketID.
