(* C14 - the byte ring between socket and protocol engine is a lossless FIFO.
   Models: Ring/Seq.v (methods run to completion), Ring/Conc.v (two threads, byte granular).
   Statements: Ring/ConcSpec.v.  This file only closes statements with proved lemmas. *)
From Coq Require Import List NArith.
From Ring Require Import Seq Conc ConcSpec ProofsExamples ProofsConc.
Import ListNotations.

(* consumed is always a prefix of committed, under every interleaving at byte / cursor granularity *)
Theorem C14_prefix : ConcSpec.C14_prefix.
Proof. exact ProofsConc.prefix. Qed.
Print Assumptions C14_prefix.

(* committed, not yet consumed bytes are never overwritten *)
Theorem C14_no_overwrite : ConcSpec.C14_no_overwrite.
Proof. exact ProofsConc.no_overwrite. Qed.
Print Assumptions C14_no_overwrite.

(* what a peek returned stays valid until the consumer commits *)
Theorem C14_peek_stable : ConcSpec.C14_peek_stable.
Proof. exact ProofsConc.peek_stable. Qed.
Print Assumptions C14_peek_stable.

(* the producer's byte writes stay inside its reserved window *)
Theorem C14_write_window : ConcSpec.C14_write_window.
Proof. exact ProofsConc.write_window. Qed.
Print Assumptions C14_write_window.

(* non-vacuity / regression instance: a history that wraps around the end of a 16-byte ring *)
Theorem C14_seq_wrap_instance :
  run_ring 16 wrap_history =
  [ [0;12]; 0 :: [1;2;3;4;5;6;7;8;9;10]; [0;10]; 0 :: [11;12;13;14;15;16;17;18;19;20;21;22]; [0;12]; [22;22;10;0] ]%N.
Proof. exact ProofsExamples.seq_wrap_instance. Qed.
Print Assumptions C14_seq_wrap_instance.

(* ---- the source functions themselves: Gallina translations regenerated from /repo on every run (Gen/Translated.v)
   equal the model functions the theorems above are about, for every input, and never panic ---- *)
From Trans Require SpecPow2 EquivPow2.

(* the ring size test of newBuffer: powerOfTwo64 is true exactly on the powers of two *)
Theorem C14_powerOfTwo : Trans.SpecPow2.T_powerOfTwo.
Proof. exact Trans.EquivPow2.powerOfTwo_equiv. Qed.
Print Assumptions C14_powerOfTwo.

(* read off the source (tie T1): WriteTo hands the peeked block - a view into the ring - to the writer BEFORE it commits
   it, which is what C14_peek_stable needs of the consumer *)
Theorem C14_writeto_writes_before_commit : Gen.Tables.writeto_writes_before_commit = true.
Proof. reflexivity. Qed.
Print Assumptions C14_writeto_writes_before_commit.

(* ---- service/buffer.go itself, in its sequential reading (tools/gentables/seq.go: one thread runs a method to
   completion; locks, broadcasts and hook points do nothing, a Cond.Wait means the call blocks): the translated
   methods equal the operations of Ring/Seq.v - the model the sequential correspondence runs and whose operations
   Ring/Conc.v splits into atomic steps - on every ring state and for every argument, and never panic ---- *)
From Trans Require SpecRing EquivRing.

(* read off the source (tie T1): newBuffer makes mask = size - 1, allocates size bytes and rounds the size up to a
   power of two - the well-formedness (ring_ok) the theorems below assume *)
Theorem C14_src_constructor :
  Gen.Tables.ring_ctor_mask_is_size_minus_1 = true /\ Gen.Tables.ring_ctor_buf_has_size_bytes = true
  /\ Gen.Tables.ring_ctor_rounds_size_up = true.
Proof. repeat split; reflexivity. Qed.
Print Assumptions C14_src_constructor.

Theorem C14_src_waitForWriteSpace : Trans.SpecRing.T_ring_waitForWriteSpace.
Proof. exact Trans.EquivRing.ring_waitForWriteSpace. Qed.
Print Assumptions C14_src_waitForWriteSpace.

Theorem C14_src_Write : Trans.SpecRing.T_ring_Write.
Proof. exact Trans.EquivRing.ring_Write. Qed.
Print Assumptions C14_src_Write.

Theorem C14_src_ringCopy : Trans.SpecRing.T_ring_ringCopy.
Proof. exact Trans.EquivRing.ring_ringCopy. Qed.
Print Assumptions C14_src_ringCopy.

Theorem C14_src_WriteWait : Trans.SpecRing.T_ring_WriteWait.
Proof. exact Trans.EquivRing.ring_WriteWait. Qed.
Print Assumptions C14_src_WriteWait.

Theorem C14_src_WriteCommit : Trans.SpecRing.T_ring_WriteCommit.
Proof. exact Trans.EquivRing.ring_WriteCommit. Qed.
Print Assumptions C14_src_WriteCommit.

Theorem C14_src_Read : Trans.SpecRing.T_ring_Read.
Proof. exact Trans.EquivRing.ring_Read. Qed.
Print Assumptions C14_src_Read.

Theorem C14_src_ReadPeek : Trans.SpecRing.T_ring_ReadPeek.
Proof. exact Trans.EquivRing.ring_ReadPeek. Qed.
Print Assumptions C14_src_ReadPeek.

Theorem C14_src_ReadWait : Trans.SpecRing.T_ring_ReadWait.
Proof. exact Trans.EquivRing.ring_ReadWait. Qed.
Print Assumptions C14_src_ReadWait.

Theorem C14_src_ReadCommit : Trans.SpecRing.T_ring_ReadCommit.
Proof. exact Trans.EquivRing.ring_ReadCommit. Qed.
Print Assumptions C14_src_ReadCommit.

Theorem C14_src_Close_isDone_Len :
  Trans.SpecRing.T_ring_Close /\ Trans.SpecRing.T_ring_isDone /\ Trans.SpecRing.T_ring_Len.
Proof. exact (conj Trans.EquivRing.ring_Close (conj Trans.EquivRing.ring_isDone Trans.EquivRing.ring_Len)). Qed.
Print Assumptions C14_src_Close_isDone_Len.

(* ---- the sequential model is a lossless FIFO over every history of complete calls (Write, the writeMessage path, a
   round of ReadFrom = reserve / partial fill / commit, Read, ReadPeek, ReadWait, ReadCommit, Close), with any arguments: together with the C14_src_* theorems above the
   chain source -> Ring/Seq.v -> property is closed by proof for the sequential reading of service/buffer.go ---- *)
From Ring Require SeqFifo ProofsSeqFifo.

Theorem C14_seq_fifo : Ring.SeqFifo.seq_fifo.
Proof. exact Ring.ProofsSeqFifo.seq_fifo_holds. Qed.
Print Assumptions C14_seq_fifo.

Theorem C14_seq_shows_next : Ring.SeqFifo.seq_shows_next.
Proof. exact Ring.ProofsSeqFifo.seq_shows_next_holds. Qed.
Print Assumptions C14_seq_shows_next.

(* the ghost-augmented run is the model's run: same ring states *)
Theorem C14_seq_ghost_follows_model : Ring.SeqFifo.gstep_ring.
Proof. exact Ring.ProofsSeqFifo.gstep_ring_holds. Qed.
Print Assumptions C14_seq_ghost_follows_model.
