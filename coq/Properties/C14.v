(* C14 - the byte ring between socket and protocol engine is a lossless FIFO.
   Models: Ring/Seq.v (methods run to completion), Ring/Conc.v (two threads, byte granular).
   Statements: Ring/ConcSpec.v.  This file only closes statements with proved lemmas. *)
From Coq Require Import List NArith.
From Ring Require Import Seq Conc ConcSpec ProofsExamples ProofsConc.
Import ListNotations.

(* consumed is always a prefix of committed, under every interleaving at byte / cursor granularity *)
Theorem C14_prefix : ConcSpec.C14_prefix.
Proof. exact ProofsConc.prefix. Qed.
Print Assumptions C14_prefix.

(* committed, not yet consumed bytes are never overwritten *)
Theorem C14_no_overwrite : ConcSpec.C14_no_overwrite.
Proof. exact ProofsConc.no_overwrite. Qed.
Print Assumptions C14_no_overwrite.

(* what a peek returned stays valid until the consumer commits *)
Theorem C14_peek_stable : ConcSpec.C14_peek_stable.
Proof. exact ProofsConc.peek_stable. Qed.
Print Assumptions C14_peek_stable.

(* the producer's byte writes stay inside its reserved window *)
Theorem C14_write_window : ConcSpec.C14_write_window.
Proof. exact ProofsConc.write_window. Qed.
Print Assumptions C14_write_window.

(* non-vacuity / regression instance: a history that wraps around the end of a 16-byte ring *)
Theorem C14_seq_wrap_instance :
  run_ring 16 wrap_history =
  [ [0;12]; 0 :: [1;2;3;4;5;6;7;8;9;10]; [0;10]; 0 :: [11;12;13;14;15;16;17;18;19;20;21;22]; [0;12]; [22;22;10;0] ]%N.
Proof. exact ProofsExamples.seq_wrap_instance. Qed.
Print Assumptions C14_seq_wrap_instance.

(* ---- the source functions themselves: Gallina translations regenerated from /repo on every run (Gen/Translated.v)
   equal the model functions the theorems above are about, for every input, and never panic ---- *)
From Trans Require Spec Equiv.

(* the ring size test of newBuffer: powerOfTwo64 is true exactly on the powers of two *)
Theorem C14_powerOfTwo : Trans.Spec.T_powerOfTwo.
Proof. exact Trans.Equiv.powerOfTwo_equiv. Qed.
Print Assumptions C14_powerOfTwo.

(* read off the source (tie T1): WriteTo hands the peeked block - a view into the ring - to the writer BEFORE it commits
   it, which is what C14_peek_stable needs of the consumer *)
Theorem C14_writeto_writes_before_commit : Gen.Tables.writeto_writes_before_commit = true.
Proof. reflexivity. Qed.
Print Assumptions C14_writeto_writes_before_commit.
