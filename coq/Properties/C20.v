(* C20 - Client library: connect results and callback dispatch mirror the protocol.
   Model: Client/Model.v (client role of the protocol engine).  This file only closes statements with
   proved lemmas; the instance theorems are concrete scripts (with the observations the implementation
   produced for them) re-evaluated inside Coq. *)
From Coq Require Import List NArith.
From Client Require Import Script ProofsInstances.
Import ListNotations.
Open Scope N_scope.

Theorem C20_instance_c20_refused : run_client [262144] h_c20_refused = o_c20_refused.
Proof. exact ProofsInstances.inst_c20_refused. Qed.
Print Assumptions C20_instance_c20_refused.

Theorem C20_instance_c20_malformed_connack : run_client [262144] h_c20_malformed_connack = o_c20_malformed_connack.
Proof. exact ProofsInstances.inst_c20_malformed_connack. Qed.
Print Assumptions C20_instance_c20_malformed_connack.

Theorem C20_instance_c20_dispatch : run_client [262144] h_c20_dispatch = o_c20_dispatch.
Proof. exact ProofsInstances.inst_c20_dispatch. Qed.
Print Assumptions C20_instance_c20_dispatch.

Theorem C20_instance_c20_overlap : run_client [262144] h_c20_overlap = o_c20_overlap.
Proof. exact ProofsInstances.inst_c20_overlap. Qed.
Print Assumptions C20_instance_c20_overlap.

From Client Require Props ProofsConnect ProofsDispatch.

(* Connect succeeds when the server answers CONNACK code 0 *)
Theorem C20_connect_ok : Client.Props.C20_connect_ok.
Proof. exact Client.ProofsConnect.connect_ok. Qed.
Print Assumptions C20_connect_ok.

(* a refusal code is returned as the error *)
Theorem C20_connect_refused : Client.Props.C20_connect_refused.
Proof. exact Client.ProofsConnect.connect_refused. Qed.
Print Assumptions C20_connect_refused.

(* Connect succeeds ONLY on a CONNACK with code 0 (any encoding of the remaining length 2 the framing accepts) *)
Theorem C20_connect_ok_only : Client.Props.C20_connect_ok_only.
Proof. exact Client.ProofsConnect.connect_ok_only. Qed.
Print Assumptions C20_connect_ok_only.

(* a refusal code is reported only if a CONNACK carried it *)
Theorem C20_connect_refused_only : Client.Props.C20_connect_refused_only.
Proof. exact Client.ProofsConnect.connect_refused_only. Qed.
Print Assumptions C20_connect_refused_only.

(* an inbound PUBLISH calls exactly the callbacks of the subscriptions the private store reports for its topic: one call each, same topic and payload *)
Theorem C20_dispatch : Client.Props.C20_dispatch.
Proof. exact Client.ProofsDispatch.dispatch. Qed.
Print Assumptions C20_dispatch.

(* the completion of a SUBSCRIBE registers the callback for exactly the granted filters, under a fresh subscriber *)
Theorem C20_suback_registers : Client.Props.C20_suback_registers.
Proof. exact Client.ProofsDispatch.suback_registers. Qed.
Print Assumptions C20_suback_registers.

(* the completion of an UNSUBSCRIBE removes every filter of the request, held or not, without stopping early *)
Theorem C20_unsuback_removes : Client.Props.C20_unsuback_removes.
Proof. exact Client.ProofsDispatch.unsuback_removes. Qed.
Print Assumptions C20_unsuback_removes.

From Client Require PropsE2E ProofsE2E.

(* END TO END: in a client whose private store results from any history of in-domain completions, an inbound PUBLISH with a good topic name invokes exactly one callback per held subscription (subscriber, filter) whose filter matches under section 4.7 - and nothing else *)
Theorem C20_end_to_end : Client.PropsE2E.C20_end_to_end.
Proof. exact Client.ProofsE2E.end_to_end. Qed.
Print Assumptions C20_end_to_end.

(* the completion of a SUBSCRIBE extends the history by one subscribe operation per GRANTED filter under a fresh subscriber *)
Theorem C20_suback_tracks : Client.PropsE2E.C20_suback_tracks.
Proof. exact Client.ProofsE2E.suback_tracks. Qed.
Print Assumptions C20_suback_tracks.

(* the completion of an UNSUBSCRIBE removes every subscriber of each of its filters *)
Theorem C20_unsuback_tracks : Client.PropsE2E.C20_unsuback_tracks.
Proof. exact Client.ProofsE2E.unsuback_tracks. Qed.
Print Assumptions C20_unsuback_tracks.

(* after a Subscribe completed and until an Unsubscribe names the filter, every message on a matching topic invokes the callback *)
Theorem C20_callback_while_subscribed : Client.PropsE2E.C20_callback_while_subscribed.
Proof. exact Client.ProofsE2E.callback_while_subscribed. Qed.
Print Assumptions C20_callback_while_subscribed.

(* after the Unsubscribe for a filter completed (and until it is subscribed again) no subscription with that filter is left to invoke anything *)
Theorem C20_no_callback_after_unsubscribe : Client.PropsE2E.C20_no_callback_after_unsubscribe.
Proof. exact Client.ProofsE2E.no_callback_after_unsubscribe. Qed.
Print Assumptions C20_no_callback_after_unsubscribe.

(* a single-filter request is silent after its Unsubscribe *)
Theorem C20_single_filter_silenced : Client.PropsE2E.C20_single_filter_silenced.
Proof. exact Client.ProofsE2E.single_filter_silenced. Qed.
Print Assumptions C20_single_filter_silenced.

(* any sequence of completions and deliveries keeps the client tracked *)
Theorem C20_steps_track : Client.PropsE2E.C20_steps_track.
Proof. exact Client.ProofsE2E.steps_track. Qed.
Print Assumptions C20_steps_track.
