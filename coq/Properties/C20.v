(* C20 - Client library: connect results and callback dispatch mirror the protocol.
   Model: Client/Model.v (client role of the protocol engine).  This file only closes statements with
   proved lemmas; the instance theorems are concrete scripts (with the observations the implementation
   produced for them) re-evaluated inside Coq. *)
From Coq Require Import List NArith.
From Client Require Import Script ProofsInstances.
Import ListNotations.
Open Scope N_scope.

Theorem C20_instance_c20_refused : run_client [262144] h_c20_refused = o_c20_refused.
Proof. exact ProofsInstances.inst_c20_refused. Qed.
Print Assumptions C20_instance_c20_refused.

Theorem C20_instance_c20_malformed_connack : run_client [262144] h_c20_malformed_connack = o_c20_malformed_connack.
Proof. exact ProofsInstances.inst_c20_malformed_connack. Qed.
Print Assumptions C20_instance_c20_malformed_connack.

Theorem C20_instance_c20_dispatch : run_client [262144] h_c20_dispatch = o_c20_dispatch.
Proof. exact ProofsInstances.inst_c20_dispatch. Qed.
Print Assumptions C20_instance_c20_dispatch.

Theorem C20_instance_c20_overlap : run_client [262144] h_c20_overlap = o_c20_overlap.
Proof. exact ProofsInstances.inst_c20_overlap. Qed.
Print Assumptions C20_instance_c20_overlap.

From Client Require Props ProofsConnect ProofsDispatch.

(* Connect succeeds when the server answers CONNACK code 0 *)
Theorem C20_connect_ok : Client.Props.C20_connect_ok.
Proof. exact Client.ProofsConnect.connect_ok. Qed.
Print Assumptions C20_connect_ok.

(* a refusal code is returned as the error *)
Theorem C20_connect_refused : Client.Props.C20_connect_refused.
Proof. exact Client.ProofsConnect.connect_refused. Qed.
Print Assumptions C20_connect_refused.

(* Connect succeeds ONLY on a CONNACK with code 0 (any encoding of the remaining length 2 the framing accepts) *)
Theorem C20_connect_ok_only : Client.Props.C20_connect_ok_only.
Proof. exact Client.ProofsConnect.connect_ok_only. Qed.
Print Assumptions C20_connect_ok_only.

(* a refusal code is reported only if a CONNACK carried it *)
Theorem C20_connect_refused_only : Client.Props.C20_connect_refused_only.
Proof. exact Client.ProofsConnect.connect_refused_only. Qed.
Print Assumptions C20_connect_refused_only.

(* an inbound PUBLISH calls exactly the callbacks of the subscriptions the private store reports for its topic: one call each, same topic and payload *)
Theorem C20_dispatch : Client.Props.C20_dispatch.
Proof. exact Client.ProofsDispatch.dispatch. Qed.
Print Assumptions C20_dispatch.

(* the completion of a SUBSCRIBE registers the callback for exactly the granted filters, under a fresh subscriber *)
Theorem C20_suback_registers : Client.Props.C20_suback_registers.
Proof. exact Client.ProofsDispatch.suback_registers. Qed.
Print Assumptions C20_suback_registers.

(* the completion of an UNSUBSCRIBE removes every filter of the request, held or not, without stopping early *)
Theorem C20_unsuback_removes : Client.Props.C20_unsuback_removes.
Proof. exact Client.ProofsDispatch.unsuback_removes. Qed.
Print Assumptions C20_unsuback_removes.
