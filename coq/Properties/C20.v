(* C20 - Client library: connect results and callback dispatch mirror the protocol.
   Model: Client/Model.v (client role of the protocol engine).  This file only closes statements with
   proved lemmas; the instance theorems are concrete scripts (with the observations the implementation
   produced for them) re-evaluated inside Coq. *)
From Coq Require Import List NArith.
From Client Require Import Script ProofsInstances.
Import ListNotations.
Open Scope N_scope.

Theorem C20_instance_c20_refused : run_client [262144] h_c20_refused = o_c20_refused.
Proof. exact ProofsInstances.inst_c20_refused. Qed.
Print Assumptions C20_instance_c20_refused.

Theorem C20_instance_c20_malformed_connack : run_client [262144] h_c20_malformed_connack = o_c20_malformed_connack.
Proof. exact ProofsInstances.inst_c20_malformed_connack. Qed.
Print Assumptions C20_instance_c20_malformed_connack.

Theorem C20_instance_c20_dispatch : run_client [262144] h_c20_dispatch = o_c20_dispatch.
Proof. exact ProofsInstances.inst_c20_dispatch. Qed.
Print Assumptions C20_instance_c20_dispatch.

Theorem C20_instance_c20_overlap : run_client [262144] h_c20_overlap = o_c20_overlap.
Proof. exact ProofsInstances.inst_c20_overlap. Qed.
Print Assumptions C20_instance_c20_overlap.
