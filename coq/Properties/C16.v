(* C16 - every connection is torn down completely in bounded time, in any state.
   Models: Life/ConnLife.v (abstract blocking states of one connection's goroutines and the closing
   goroutine), on top of what C15 proves of the rings (Ring/LiveSpec.v) and of the order of the
   teardown actions read off service.stop (Locks/Discipline.v, tie T1).  This file only closes
   statements with proved lemmas. *)
From Life Require Import ConnLife.
From Locks Require Import Discipline.
From Ring Require LiveSpec ProofsLive.

(* once stop has closed socket and rings, some step is enabled until the teardown is complete, unless the
   processor is inside a delivery to a still-open connection whose peer has stopped reading *)
Theorem C16_progress : ConnLife.C16_progress.
Proof. exact ConnLife.progress. Qed.
Print Assumptions C16_progress.

(* every step decreases the remaining work: the teardown finishes within a bound that depends only on the
   number of stored subscriptions *)
Theorem C16_bounded : ConnLife.C16_bounded.
Proof. exact ConnLife.bounded. Qed.
Print Assumptions C16_bounded.

(* the order of the teardown actions in the current source: socket and rings are closed before the wait for
   the goroutines; unsubscribing, the will and the removal of a clean session come after it *)
Theorem C16_stop_order : Discipline.stop_order_ok = true.
Proof. exact Discipline.stop_order_lemma. Qed.
Print Assumptions C16_stop_order.

(* what the model assumes of the rings is what C15 proves: Close leaves nobody parked, no mutex locked *)
Theorem C16_rings_close_unblocks : Ring.LiveSpec.C15_close_unblocks.
Proof. exact Ring.ProofsLive.close_unblocks. Qed.
Print Assumptions C16_rings_close_unblocks.
Theorem C16_rings_no_lock_leak : Ring.LiveSpec.C15_no_lock_leak.
Proof. exact Ring.ProofsLive.no_lock_leak. Qed.
Print Assumptions C16_rings_no_lock_leak.
