(* C16 - every connection is torn down completely in bounded time, in any state.
   Models: Life/ConnLife.v (abstract blocking states of one connection's goroutines and the closing
   goroutine), on top of what C15 proves of the rings (Ring/LiveSpec.v) and of the order of the
   teardown actions read off service.stop (Locks/Discipline.v, tie T1).  This file only closes
   statements with proved lemmas. *)
From Life Require Import ConnLife.
From Locks Require Import Discipline.
From Ring Require LiveSpec ProofsLive.

(* in every reachable state: a goroutine that is gone has closed its ring, stop's actions have taken effect *)
Theorem C16_invariant : forall cap, ConnLife.C16_invariant cap.
Proof. exact ConnLife.invariant. Qed.
Print Assumptions C16_invariant.

(* once the socket is dead - cut by the peer or closed by stop, in any state of the goroutines and rings (own
   outgoing ring full, incoming ring full, processor blocked ...) - some goroutine of the connection can step until
   the teardown is complete, unless the processor is inside a delivery to a still-open connection whose peer has
   stopped reading; no step from outside the connection is needed *)
Theorem C16_progress : forall cap, ConnLife.C16_progress cap.
Proof. exact ConnLife.progress. Qed.
Print Assumptions C16_progress.

(* every such step decreases the remaining work: the teardown finishes within a bound that depends only on the
   packets waiting in the incoming ring and the number of stored subscriptions *)
Theorem C16_bounded : forall cap, ConnLife.C16_bounded cap.
Proof. exact ConnLife.bounded. Qed.
Print Assumptions C16_bounded.

(* read off the source: ReadFrom / WriteTo close their ring on the way out, the processor's exit calls stop *)
Theorem C16_source_facts : Gen.Tables.readfrom_closes_ring = true /\ Gen.Tables.writeto_closes_ring = true /\ Gen.Tables.processor_exit_calls_stop = true.
Proof. exact ConnLife.tables_facts. Qed.
Print Assumptions C16_source_facts.

(* the hypotheses are met by the state the seeded scenario produces: peer gone, processor blocked on the
   connection's own full outgoing ring, sender in a socket write, receiver waiting for space *)
Theorem C16_own_ring_full_reachable :
  ConnLife.reachable 1 (ConnLife.mkSt true false false 1 true ConnLife.RSpace ConnLife.PWriteOwn ConnLife.SWrite ConnLife.CIdle false).
Proof. exact ConnLife.own_ring_full_reachable. Qed.
Print Assumptions C16_own_ring_full_reachable.

(* the order of the teardown actions in the current source: socket and rings are closed before the wait for
   the goroutines; unsubscribing, the will and the removal of a clean session come after it *)
Theorem C16_stop_order : Discipline.stop_order_ok = true.
Proof. exact Discipline.stop_order_lemma. Qed.
Print Assumptions C16_stop_order.

(* what the model assumes of the rings is what C15 proves: Close leaves nobody parked, no mutex locked *)
Theorem C16_rings_close_unblocks : Ring.LiveSpec.C15_close_unblocks.
Proof. exact Ring.ProofsLive.close_unblocks. Qed.
Print Assumptions C16_rings_close_unblocks.
Theorem C16_rings_no_lock_leak : Ring.LiveSpec.C15_no_lock_leak.
Proof. exact Ring.ProofsLive.no_lock_leak. Qed.
Print Assumptions C16_rings_no_lock_leak.
