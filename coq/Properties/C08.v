(* C08 - Retained messages.
   Model: Proto/Broker.v (event-step broker built from the codec, topic-store and ack-queue models).
   This file only closes statements with proved lemmas; the instance theorems are concrete histories
   (with the observations the implementation produced for them) re-evaluated inside Coq. *)
From Coq Require Import List NArith.
From Proto Require Import Broker Script ProofsBasic ProofsInstances.
Import ListNotations.
Open Scope N_scope.

Theorem C08_instance_c08_retained_and_parent : run_broker [262144] h_c08_retained_and_parent = o_c08_retained_and_parent.
Proof. exact ProofsInstances.inst_c08_retained_and_parent. Qed.
Print Assumptions C08_instance_c08_retained_and_parent.
