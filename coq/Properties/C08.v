(* C08 - Retained messages.
   Model: Proto/Broker.v (event-step broker built from the codec, topic-store and ack-queue models).
   This file only closes statements with proved lemmas; the instance theorems are concrete histories
   (with the observations the implementation produced for them) re-evaluated inside Coq. *)
From Coq Require Import List NArith.
From Proto Require Import Broker Script ProofsBasic ProofsInstances PropsE2E ProofsE2E.
Import ListNotations.
Open Scope N_scope.

Theorem C08_instance_c08_retained_and_parent : run_broker [262144] h_c08_retained_and_parent = o_c08_retained_and_parent.
Proof. exact ProofsInstances.inst_c08_retained_and_parent. Qed.
Print Assumptions C08_instance_c08_retained_and_parent.

(* the retained messages a subscription to a good filter is sent are exactly those the abstract retained list (last non-empty payload per topic) selects under section 4.7 *)
Theorem C08_retained_for : PropsE2E.C08_retained_for.
Proof. exact ProofsE2E.retained_for. Qed.
Print Assumptions C08_retained_for.

(* a retained update concurrent to a new subscription: with the orders of the store operations the source has now
   (retain before lookup, register before read - tie T1) the subscription is sent the new value in EVERY interleaving *)
From Proto Require RetainRace.
Theorem C08_update_not_missed : Proto.RetainRace.C08_update_not_missed.
Proof. exact Proto.RetainRace.update_not_missed. Qed.
Print Assumptions C08_update_not_missed.
