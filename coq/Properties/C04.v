(* C04 - decoders are total: no panic, no read outside the input, valid packets accepted.
   Statements: Codec/Statements.v.  This file only closes statements with proved lemmas. *)
From Codec Require Import Statements ProofsTotal ProofsAccept.

(* for every message state and every byte string: never the Panic outcome (a Go slice access out of
   range), and the returned count - on success and on error - is within the input *)
Theorem C04_total_pub : Statements.C04_total_pub.
Proof. exact ProofsTotal.total_pub. Qed.
Print Assumptions C04_total_pub.

Theorem C04_total_ack : Statements.C04_total_ack.
Proof. exact ProofsTotal.total_ack. Qed.
Print Assumptions C04_total_ack.

Theorem C04_total_empty : Statements.C04_total_empty.
Proof. exact ProofsTotal.total_empty. Qed.
Print Assumptions C04_total_empty.

Theorem C04_total_connack : Statements.C04_total_connack.
Proof. exact ProofsTotal.total_connack. Qed.
Print Assumptions C04_total_connack.

Theorem C04_total_suback : Statements.C04_total_suback.
Proof. exact ProofsTotal.total_suback. Qed.
Print Assumptions C04_total_suback.

Theorem C04_total_sub : Statements.C04_total_sub.
Proof. exact ProofsTotal.total_sub. Qed.
Print Assumptions C04_total_sub.

Theorem C04_total_unsub : Statements.C04_total_unsub.
Proof. exact ProofsTotal.total_unsub. Qed.
Print Assumptions C04_total_unsub.

Theorem C04_total_conn : Statements.C04_total_conn.
Proof. exact ProofsTotal.total_conn. Qed.
Print Assumptions C04_total_conn.

(* on success every returned field is a part of the bytes of the decoded packet *)
Theorem C04_inside_pub : Statements.C04_inside_pub.
Proof. exact ProofsTotal.inside_pub. Qed.
Print Assumptions C04_inside_pub.

Theorem C04_inside_suback : Statements.C04_inside_suback.
Proof. exact ProofsTotal.inside_suback. Qed.
Print Assumptions C04_inside_suback.

Theorem C04_inside_sub : Statements.C04_inside_sub.
Proof. exact ProofsTotal.inside_sub. Qed.
Print Assumptions C04_inside_sub.

Theorem C04_inside_unsub : Statements.C04_inside_unsub.
Proof. exact ProofsTotal.inside_unsub. Qed.
Print Assumptions C04_inside_unsub.

Theorem C04_inside_conn : Statements.C04_inside_conn.
Proof. exact ProofsTotal.inside_conn. Qed.
Print Assumptions C04_inside_conn.

(* every well-formed MQTT 3.1.1 packet is accepted with the correct field values, also when followed
   by other bytes, and exactly the packet is consumed *)
Theorem C04_accepts_pub : Statements.C04_accepts_pub.
Proof. exact ProofsAccept.accepts_pub. Qed.
Print Assumptions C04_accepts_pub.

Theorem C04_accepts_ack : Statements.C04_accepts_ack.
Proof. exact ProofsAccept.accepts_ack. Qed.
Print Assumptions C04_accepts_ack.

Theorem C04_accepts_empty : Statements.C04_accepts_empty.
Proof. exact ProofsAccept.accepts_empty. Qed.
Print Assumptions C04_accepts_empty.

Theorem C04_accepts_connack : Statements.C04_accepts_connack.
Proof. exact ProofsAccept.accepts_connack. Qed.
Print Assumptions C04_accepts_connack.

Theorem C04_accepts_suback : Statements.C04_accepts_suback.
Proof. exact ProofsAccept.accepts_suback. Qed.
Print Assumptions C04_accepts_suback.

Theorem C04_accepts_sub : Statements.C04_accepts_sub.
Proof. exact ProofsAccept.accepts_sub. Qed.
Print Assumptions C04_accepts_sub.

Theorem C04_accepts_unsub : Statements.C04_accepts_unsub.
Proof. exact ProofsAccept.accepts_unsub. Qed.
Print Assumptions C04_accepts_unsub.

Theorem C04_accepts_conn : Statements.C04_accepts_conn.
Proof. exact ProofsAccept.accepts_conn. Qed.
Print Assumptions C04_accepts_conn.


(* ---- the source functions themselves: Gallina translations regenerated from /repo on every run (Gen/Translated.v)
   equal the model functions the theorems above are about, for every input, and never panic ---- *)
From Trans Require Spec Equiv SpecTopics EquivTopics.

(* message.readLPBytes, as the source has it now, never panics (result is never None) and equals the model *)
Theorem C04_readLPBytes_never_panics : Trans.Spec.T_readLPBytes.
Proof. exact Trans.Equiv.readLPBytes_equiv. Qed.
Print Assumptions C04_readLPBytes_never_panics.

(* topics.nextTopicLevel never panics on any byte string *)
Theorem C04_nextTopicLevel_never_panics : Trans.SpecTopics.T_nextTopicLevel.
Proof. exact Trans.EquivTopics.nextTopicLevel_equiv. Qed.
Print Assumptions C04_nextTopicLevel_never_panics.

(* header.decode - the fixed-header decoder every packet decoder starts with - as the source has it now, with the methods it
   calls (Type, Flags, Valid, DefaultFlags, ValidQos), never panics and agrees with Codec.Impl.hdr_decode on the bytes
   consumed, the error and every header field, for every header and every byte string *)
From Trans Require EquivDecode.
Theorem C04_header_decode_is_model : Trans.Spec.T_header_decode.
Proof. exact Trans.EquivDecode.header_decode_equiv. Qed.
Print Assumptions C04_header_decode_is_model.
