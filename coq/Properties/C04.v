(* C04 - decoders are total: no panic, no read outside the input, valid packets accepted.
   Statements: Codec/Statements.v.  This file only closes statements with proved lemmas. *)
From Codec Require Import Statements ProofsIds.

(* placeholder until Codec/ProofsTotal.v is delivered: the identifier lemma is shared *)
Theorem C04_ids_shared : Statements.C03_packet_ids.
Proof. exact ProofsIds.packet_ids. Qed.
Print Assumptions C04_ids_shared.
