(* C17 - outgoing streams are whole packets; each publisher's messages stay in order.
   Model: Ring/Writers.v (any number of writers, each holding the connection's write mutex around ONE
   producer call on the byte-granular ring Ring/Conc.v); the write-mutex region and the single
   producer / single consumer roles of the rings are read off the source (Locks/Discipline.v, T1);
   each packet is exactly Len() bytes of wire encoding by C03.  This file only closes statements
   with proved lemmas. *)
From Ring Require Import Writers.
From Ring Require ProofsWriters.
From Locks Require Import Discipline.
From Ackq Require Spec ProofsFifo.

(* in every reachable state, under every interleaving of writers and the sender at byte granularity, the
   committed stream of a connection is the concatenation of whole packets, in the order of their commits *)
Theorem C17_whole_packets : Writers.C17_whole_packets.
Proof. exact Writers.whole_packets. Qed.
Print Assumptions C17_whole_packets.

(* writeMessage takes svc.wmu before the first call on the outgoing ring and releases it by defer *)
Theorem C17_wmu_region : Discipline.wmu_region_ok = true.
Proof. exact Discipline.wmu_region. Qed.
Print Assumptions C17_wmu_region.

(* only writeMessage produces into an outgoing ring, only the sender consumes it; only the receiver
   produces into an incoming ring, only the processor consumes it *)
Theorem C17_ring_roles : Discipline.ring_roles_ok = true.
Proof. exact Discipline.ring_roles. Qed.
Print Assumptions C17_ring_roles.

(* QoS 2 messages of one publisher are handed on in the order of their PUBLISH packets, because the
   incoming ack queue releases a prefix of what was registered (C13) *)
Theorem C17_qos2_release_in_order : Ackq.Spec.C13_fifo_prefix.
Proof. exact Ackq.ProofsFifo.fifo_prefix. Qed.
Print Assumptions C17_qos2_release_in_order.

(* while a producer call on the ring is in progress, its packet is the packet of the goroutine that holds the write mutex; otherwise the producer side is idle *)
Theorem C17_one_at_a_time : Ring.Writers.C17_one_at_a_time.
Proof. exact Ring.ProofsWriters.one_at_a_time. Qed.
Print Assumptions C17_one_at_a_time.

(* the mutex holder is the one goroutine inside writeMessage *)
Theorem C17_holder_unique : Ring.ProofsWriters.C17_holder_unique.
Proof. exact Ring.ProofsWriters.holder_unique. Qed.
Print Assumptions C17_holder_unique.

(* the committed stream only ever grows by the whole packet of the current mutex holder *)
Theorem C17_log_is_holders_packets : Ring.ProofsWriters.C17_log_is_holders_packets.
Proof. exact Ring.ProofsWriters.log_is_holders_packets. Qed.
Print Assumptions C17_log_is_holders_packets.

(* one critical section commits at most one packet *)
Theorem C17_log_step_finishes_call : Ring.ProofsWriters.C17_log_step_finishes_call.
Proof. exact Ring.ProofsWriters.log_step_finishes_call. Qed.
Print Assumptions C17_log_step_finishes_call.

From Proto Require PropsOrder ProofsOrder.

(* the broker processes the complete packets of a chunk one after the other: the output of a chunk is the outputs of its packets, appended in order (any packets but DISCONNECT, which ends the connection) *)
Theorem C17_proc_compositional : Proto.PropsOrder.C17_proc_compositional.
Proof. exact Proto.ProofsOrder.proc_compositional. Qed.
Print Assumptions C17_proc_compositional.

(* PER-PUBLISHER ORDER: for QoS 0/1 PUBLISH packets p1..pn arriving on one connection the output is that of p1, then p2, ... pn *)
Theorem C17_publisher_order : Proto.PropsOrder.C17_publisher_order.
Proof. exact Proto.ProofsOrder.publisher_order. Qed.
Print Assumptions C17_publisher_order.

(* ... so every receiver gets the deliveries of p_i before those of p_j for i < j *)
Theorem C17_receiver_order : Proto.PropsOrder.C17_receiver_order.
Proof. exact Proto.ProofsOrder.receiver_order. Qed.
Print Assumptions C17_receiver_order.

(* ... explicitly: what a receiver is sent is, message by message in publication order, one delivery per matching subscription it holds *)
Theorem C17_receiver_fields : Proto.PropsOrder.C17_receiver_fields.
Proof. exact Proto.ProofsOrder.receiver_fields. Qed.
Print Assumptions C17_receiver_fields.

(* (the fuel the event driver gives proc always suffices) *)
Theorem C17_fuel_enough : Proto.PropsOrder.C17_fuel_enough.
Proof. exact Proto.ProofsOrder.fuel_enough. Qed.
Print Assumptions C17_fuel_enough.
