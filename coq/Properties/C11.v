(* C11 - Nothing happens on a connection until a valid CONNECT has been accepted.
   Model: Proto/Broker.v (event-step broker built from the codec, topic-store and ack-queue models).
   This file only closes statements with proved lemmas; the instance theorems are concrete histories
   (with the observations the implementation produced for them) re-evaluated inside Coq. *)
From Coq Require Import List NArith.
From Proto Require Import Broker Script ProofsBasic ProofsInstances Props ProofsStruct.
Import ListNotations.
Open Scope N_scope.

(* a first packet that is not accepted changes nothing in the broker, whatever bytes follow it *)
Theorem C11_refused_no_effect : forall bufsize br c authok b br' o,
  connect bufsize br c authok b = (br', o, CRefused) -> br' = br.
Proof. exact ProofsBasic.connect_refused_no_effect. Qed.
Print Assumptions C11_refused_no_effect.

(* ... and is answered by at most a CONNACK with code 1, 2 or 4, followed by the closure *)
Theorem C11_refused_outputs : forall bufsize br c authok b br' o,
  connect bufsize br c authok b = (br', o, CRefused) ->
  o = [OClose c] \/ exists code, (code = 1 \/ code = 2 \/ code = 4) /\ o = [OPkt c [32; 2; 0; code]; OClose c].
Proof. exact ProofsBasic.connect_refused_outputs. Qed.
Print Assumptions C11_refused_outputs.

(* an accepted CONNECT is answered with CONNACK code 0 *)
Theorem C11_accepted_outputs : forall bufsize br c authok b br' o rest,
  connect bufsize br c authok b = (br', o, CAccepted rest) -> exists sp, o = [OPkt c [32; 2; Codec.Wire.b2n sp; 0]].
Proof. exact ProofsBasic.connect_accepted_outputs. Qed.
Print Assumptions C11_accepted_outputs.

(* the CONNACK code of every refused first packet is the one MQTT prescribes for the reason *)
Theorem C11_codes : Props.C11_codes.
Proof. exact ProofsStruct.codes. Qed.
Print Assumptions C11_codes.
