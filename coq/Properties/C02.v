(* C02 - Receiver side of QoS 1/2.
   Model: Proto/Broker.v (event-step broker built from the codec, topic-store and ack-queue models).
   This file only closes statements with proved lemmas; the instance theorems are concrete histories
   (with the observations the implementation produced for them) re-evaluated inside Coq. *)
From Coq Require Import List NArith.
From Base Require Import Bytes.
From Codec Require Import Impl Script.
From Proto Require Import Broker Script ProofsBasic ProofsInstances Props ProofsSub.
Import ListNotations.
Open Scope N_scope.

Theorem C02_instance_c02_qos2_duplicates : run_broker [262144] h_c02_qos2_duplicates = o_c02_qos2_duplicates.
Proof. exact ProofsInstances.inst_c02_qos2_duplicates. Qed.
Print Assumptions C02_instance_c02_qos2_duplicates.

Theorem C02_instance_c02_pubrel_out_of_order : run_broker [262144] h_c02_pubrel_out_of_order = o_c02_pubrel_out_of_order.
Proof. exact ProofsInstances.inst_c02_pubrel_out_of_order. Qed.
Print Assumptions C02_instance_c02_pubrel_out_of_order.

(* QoS 1: handed on once and answered by PUBACK with the same identifier *)
Theorem C02_puback : Props.C02_puback.
Proof. exact ProofsSub.puback. Qed.
Print Assumptions C02_puback.

(* QoS 2: stored (once per identifier), answered by PUBREC, nothing handed on *)
Theorem C02_pubrec : Props.C02_pubrec.
Proof. exact ProofsSub.pubrec. Qed.
Print Assumptions C02_pubrec.

(* PUBREL: answered by PUBCOMP, releases in arrival order *)
Theorem C02_pubcomp : Props.C02_pubcomp.
Proof. exact ProofsSub.pubcomp. Qed.
Print Assumptions C02_pubcomp.

(* ... and storing a QoS 2 message touches no other session *)
Theorem C02_pubrec_other_sessions : forall br c k raw p br1 o r k',
  process_incoming br c k raw (MPub p) = (br1, o, r) -> pub_qos p = 2 -> packet_id (p_h p) < 65536 ->
  beq_bytes k k' = false -> assoc_b k' (br_sess br1) = assoc_b k' (br_sess br).
Proof. exact ProofsSub.pubrec_other_sessions. Qed.
Print Assumptions C02_pubrec_other_sessions.

From Proto Require PropsHist ProofsHist.

(* EXACTLY ONCE over histories: for any sequence of QoS 2 PUBLISH and PUBREL packets on a connection whose PUBRELs arrive in the order of first arrival of their identifiers, what the queue hands on is what the reference gives: every exchange hands its first payload on once, at its PUBREL *)
Theorem C02_qos2_once : Proto.PropsHist.C02_qos2_once.
Proof. exact Proto.ProofsHist.qos2_once. Qed.
Print Assumptions C02_qos2_once.

(* a repeated PUBLISH of an open exchange and a PUBREL of no open exchange change nothing and hand nothing on *)
Theorem C02_qos2_repeats : Proto.PropsHist.C02_qos2_repeats.
Proof. exact Proto.ProofsHist.qos2_repeats. Qed.
Print Assumptions C02_qos2_repeats.

(* one exchange inside any in-order history: nothing of it is handed on before its PUBREL, its first payload exactly then, and it is closed afterwards *)
Theorem C02_qos2_exchange : Proto.PropsHist.C02_qos2_exchange.
Proof. exact Proto.ProofsHist.qos2_exchange. Qed.
Print Assumptions C02_qos2_exchange.

(* the abstract queue run IS what process_incoming does for these packets *)
Theorem C02_q2_step_is_model : Proto.PropsHist.C02_q2_step_is_model.
Proof. exact Proto.ProofsHist.q2_step_is_model. Qed.
Print Assumptions C02_q2_step_is_model.

(* ... lifted to the broker: processing the packets equals the reference run *)
Theorem C02_qos2_once_broker : Proto.PropsHist.C02_qos2_once_broker.
Proof. exact Proto.ProofsHist.qos2_once_broker. Qed.
Print Assumptions C02_qos2_once_broker.
