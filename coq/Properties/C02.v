(* C02 - Receiver side of QoS 1/2.
   Model: Proto/Broker.v (event-step broker built from the codec, topic-store and ack-queue models).
   This file only closes statements with proved lemmas; the instance theorems are concrete histories
   (with the observations the implementation produced for them) re-evaluated inside Coq. *)
From Coq Require Import List NArith.
From Proto Require Import Broker Script ProofsBasic ProofsInstances.
Import ListNotations.
Open Scope N_scope.

Theorem C02_instance_c02_qos2_duplicates : run_broker [262144] h_c02_qos2_duplicates = o_c02_qos2_duplicates.
Proof. exact ProofsInstances.inst_c02_qos2_duplicates. Qed.
Print Assumptions C02_instance_c02_qos2_duplicates.

Theorem C02_instance_c02_pubrel_out_of_order : run_broker [262144] h_c02_pubrel_out_of_order = o_c02_pubrel_out_of_order.
Proof. exact ProofsInstances.inst_c02_pubrel_out_of_order. Qed.
Print Assumptions C02_instance_c02_pubrel_out_of_order.
