(* C06 - the topic store implements MQTT filter matching over any subscribe history.
   Model: Topics/Model.v (memtopics.go); specification and statements: Topics/Spec.v.
   This file only closes statements with proved lemmas. *)
From Topics Require Import Spec ProofsRefuted ProofsLevels ProofsTrie ProofsRetained.

(* the splitter agrees with section 4.7 on filters without empty levels ... *)
Theorem C06_levels_good : Spec.C06_levels_good.
Proof. exact ProofsLevels.levels_good. Qed.
Print Assumptions C06_levels_good.

(* ... and refuses every filter that misuses a wildcard *)
Theorem C06_invalid_refused : Spec.C06_invalid_refused.
Proof. exact ProofsLevels.invalid_refused. Qed.
Print Assumptions C06_invalid_refused.

(* after any history the reported subscribers are exactly the held pairs whose filter matches *)
Theorem C06_subscribers_partial : Spec.C06_subscribers_partial.
Proof. exact ProofsTrie.subscribers_partial. Qed.
Print Assumptions C06_subscribers_partial.

Theorem C06_subscribe_result : Spec.C06_subscribe_result.
Proof. exact ProofsTrie.subscribe_result. Qed.
Print Assumptions C06_subscribe_result.

Theorem C06_unsubscribe_result : Spec.C06_unsubscribe_result.
Proof. exact ProofsTrie.unsubscribe_result. Qed.
Print Assumptions C06_unsubscribe_result.

(* the same relation selects the retained messages *)
Theorem C06_retained_partial : Spec.C06_retained_partial.
Proof. exact ProofsRetained.retained_partial. Qed.
Print Assumptions C06_retained_partial.

(* the full statement (empty levels included) is false of the faithful model: known finding F7 *)
Theorem C06_empty_level_refuted : Spec.C06_empty_level_refuted.
Proof. exact ProofsRefuted.empty_level_refuted. Qed.
Print Assumptions C06_empty_level_refuted.

(* ---- the source functions themselves: Gallina translations regenerated from /repo on every run (Gen/Translated.v)
   equal the model functions the theorems above are about, for every input, and never panic ---- *)
From Trans Require Spec Equiv.

(* topics.nextTopicLevel, as the source has it now, is Topics.Model.next_level: level, remainder and error, for every byte string *)
Theorem C06_nextTopicLevel_is_model : Trans.Spec.T_nextTopicLevel.
Proof. exact Trans.Equiv.nextTopicLevel_equiv. Qed.
Print Assumptions C06_nextTopicLevel_is_model.
