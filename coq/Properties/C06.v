(* C06 - the topic store implements MQTT filter matching over any subscribe history.
   Model: Topics/Model.v (memtopics.go); specification and statements: Topics/Spec.v.
   This file only closes statements with proved lemmas. *)
From Topics Require Import Spec ProofsRefuted.

Theorem C06_empty_level_refuted : Spec.C06_empty_level_refuted.
Proof. exact ProofsRefuted.empty_level_refuted. Qed.
Print Assumptions C06_empty_level_refuted.
