(* C06 - the topic store implements MQTT filter matching over any subscribe history.
   Model: Topics/Model.v (memtopics.go); specification and statements: Topics/Spec.v.
   This file only closes statements with proved lemmas. *)
From Topics Require Import Spec ProofsRefuted ProofsLevels ProofsTrie ProofsRetained.

(* the splitter agrees with section 4.7 on filters without empty levels ... *)
Theorem C06_levels_good : Spec.C06_levels_good.
Proof. exact ProofsLevels.levels_good. Qed.
Print Assumptions C06_levels_good.

(* ... and refuses every filter that misuses a wildcard *)
Theorem C06_invalid_refused : Spec.C06_invalid_refused.
Proof. exact ProofsLevels.invalid_refused. Qed.
Print Assumptions C06_invalid_refused.

(* after any history the reported subscribers are exactly the held pairs whose filter matches *)
Theorem C06_subscribers_partial : Spec.C06_subscribers_partial.
Proof. exact ProofsTrie.subscribers_partial. Qed.
Print Assumptions C06_subscribers_partial.

Theorem C06_subscribe_result : Spec.C06_subscribe_result.
Proof. exact ProofsTrie.subscribe_result. Qed.
Print Assumptions C06_subscribe_result.

Theorem C06_unsubscribe_result : Spec.C06_unsubscribe_result.
Proof. exact ProofsTrie.unsubscribe_result. Qed.
Print Assumptions C06_unsubscribe_result.

(* the same relation selects the retained messages *)
Theorem C06_retained_partial : Spec.C06_retained_partial.
Proof. exact ProofsRetained.retained_partial. Qed.
Print Assumptions C06_retained_partial.

(* the full statement (empty levels included) is false of the faithful model: known finding F7 *)
Theorem C06_empty_level_refuted : Spec.C06_empty_level_refuted.
Proof. exact ProofsRefuted.empty_level_refuted. Qed.
Print Assumptions C06_empty_level_refuted.

(* ---- the source functions themselves: Gallina translations regenerated from /repo on every run (Gen/Translated.v)
   equal the model functions the theorems above are about, for every input, and never panic ---- *)
From Trans Require SpecTopics EquivTopics.

(* topics.nextTopicLevel, as the source has it now, is Topics.Model.next_level: level, remainder and error, for every byte string *)
Theorem C06_nextTopicLevel_is_model : Trans.SpecTopics.T_nextTopicLevel.
Proof. exact Trans.EquivTopics.nextTopicLevel_equiv. Qed.
Print Assumptions C06_nextTopicLevel_is_model.

From Topics Require SpecTotal ProofsTotal.

(* THE WHOLE INPUT SPACE.  What the splitter makes of ANY string, in closed form: an empty level that is not the last becomes "+", a trailing empty level is dropped, and a string is refused exactly when a non-empty level misuses a wildcard, starts with $ or # is not last *)
Theorem C06_qlevels_closed_form : Topics.SpecTotal.C06_qlevels_closed_form.
Proof. exact Topics.ProofsTotal.qlevels_closed_form. Qed.
Print Assumptions C06_qlevels_closed_form.

(* after ANY history of operations on ANY byte strings (no domain restriction), the subscribers reported for any name the splitter accepts are exactly the abstract subscriptions - keyed by the levels the splitter produces - that match those levels: finding F7 is stated exactly, not excluded *)
Theorem C06_subscribers_total : Topics.SpecTotal.C06_subscribers_total.
Proof. exact Topics.ProofsTotal.subscribers_total. Qed.
Print Assumptions C06_subscribers_total.

(* an invalid QoS is refused before anything is looked at *)
Theorem C06_subscribers_invalid_qos : Topics.SpecTotal.C06_subscribers_invalid_qos.
Proof. exact Topics.ProofsTotal.subscribers_invalid_qos. Qed.
Print Assumptions C06_subscribers_invalid_qos.

(* a name the splitter refuses: whenever the traversal returns at all, it returns the matches of the walked prefix *)
Theorem C06_subscribers_refused_name : Topics.SpecTotal.C06_subscribers_refused_name.
Proof. exact Topics.ProofsTotal.subscribers_refused_name. Qed.
Print Assumptions C06_subscribers_refused_name.

(* the result of Subscribe for every history and every argument *)
Theorem C06_subscribe_result_total : Topics.SpecTotal.C06_subscribe_result_total.
Proof. exact Topics.ProofsTotal.subscribe_result_total. Qed.
Print Assumptions C06_subscribe_result_total.

(* the result of Unsubscribe with a subscriber, for every history and every string *)
Theorem C06_unsubscribe_result_total : Topics.SpecTotal.C06_unsubscribe_result_total.
Proof. exact Topics.ProofsTotal.unsubscribe_result_total. Qed.
Print Assumptions C06_unsubscribe_result_total.

(* (with the nil subscriber the boolean reports whether a trie node exists - path nodes of refused filters included - not whether somebody held the filter) *)
Theorem C06_unsubscribe_nil_result_witness : Topics.SpecTotal.C06_unsubscribe_nil_result_witness.
Proof. exact Topics.ProofsTotal.unsubscribe_nil_result_witness. Qed.
Print Assumptions C06_unsubscribe_nil_result_witness.

(* on the domain of the section-4.7 theorem the total statement coincides with it *)
Theorem C06_total_extends_partial : Topics.SpecTotal.C06_total_extends_partial.
Proof. exact Topics.ProofsTotal.total_extends_partial. Qed.
Print Assumptions C06_total_extends_partial.

(* ... and implies it *)
Theorem C06_total_implies_partial : Topics.SpecTotal.C06_total_implies_partial.
Proof. exact Topics.ProofsTotal.total_implies_partial. Qed.
Print Assumptions C06_total_implies_partial.

(* retained messages, for every history and every accepted filter: one slot per produced level list *)
Theorem C06_retained_total : Topics.SpecTotal.C06_retained_total.
Proof. exact Topics.ProofsTotal.retained_total. Qed.
Print Assumptions C06_retained_total.

(* two names with the same produced levels share one retained slot ("/b" and "+/b"; an empty payload on "/b/" clears it) *)
Theorem C06_retained_slot_sharing : Topics.SpecTotal.C06_retained_slot_sharing.
Proof. exact Topics.ProofsTotal.retained_slot_sharing. Qed.
Print Assumptions C06_retained_slot_sharing.

(* shape of the abstract list: one entry per (subscriber, levels), never the nil subscriber, # only last *)
Theorem C06_aq_run_shape : Topics.SpecTotal.C06_aq_run_shape.
Proof. exact Topics.ProofsTotal.aq_run_shape. Qed.
Print Assumptions C06_aq_run_shape.
