(* C01 - A publish reaches exactly the clients whose current subscriptions match it.
   Model: Proto/Broker.v (event-step broker built from the codec, topic-store and ack-queue models).
   This file only closes statements with proved lemmas; the instance theorems are concrete histories
   (with the observations the implementation produced for them) re-evaluated inside Coq. *)
From Coq Require Import List NArith.
From Proto Require Import Broker Script ProofsBasic ProofsInstances Props PropsE2E ProofsForward ProofsFanout ProofsE2E.
Import ListNotations.
Open Scope N_scope.

Theorem C01_instance_c01_in_process : run_broker [262144] h_c01_in_process = o_c01_in_process.
Proof. exact ProofsInstances.inst_c01_in_process. Qed.
Print Assumptions C01_instance_c01_in_process.

Theorem C01_instance_c01_empty_levels : run_broker [262144] h_c01_empty_levels = o_c01_empty_levels.
Proof. exact ProofsInstances.inst_c01_empty_levels. Qed.
Print Assumptions C01_instance_c01_empty_levels.

Theorem C01_instance_c08_retained_and_parent : run_broker [262144] h_c08_retained_and_parent = o_c08_retained_and_parent.
Proof. exact ProofsInstances.inst_c08_retained_and_parent. Qed.
Print Assumptions C01_instance_c08_retained_and_parent.

(* whatever setters the fan-out applied to a received PUBLISH, what is written decodes to the same topic and payload with the QoS / retain / dup that were set, and a non-zero identifier iff QoS > 0 *)
Theorem C01_forward_roundtrip : Props.C01_forward_roundtrip.
Proof. exact ProofsForward.forward_roundtrip. Qed.
Print Assumptions C01_forward_roundtrip.

(* one received PUBLISH: exactly one packet (or in-process call) per matching subscriber of the store, QoS = min(publish, granted), same topic and payload, retain clear *)
Theorem C01_fanout : Props.C01_fanout.
Proof. exact ProofsFanout.fanout. Qed.
Print Assumptions C01_fanout.

(* the fan-out changes nothing in the stores but the retained message of that topic *)
Theorem C01_fanout_store : Props.C01_fanout_store.
Proof. exact ProofsFanout.fanout_store. Qed.
Print Assumptions C01_fanout_store.

(* END TO END: in a broker whose store results from any history of in-domain subscribe / unsubscribe / retain operations, a PUBLISH with a good topic name is delivered to exactly the holders of a subscription that matches under section 4.7 in the ABSTRACT subscription list: one delivery per matching pair, QoS = min, same topic and payload, retain clear; to nobody else *)
Theorem C01_end_to_end : PropsE2E.C01_end_to_end.
Proof. exact ProofsE2E.end_to_end. Qed.
Print Assumptions C01_end_to_end.

(* a SUBSCRIBE extends the history by one subscribe operation per filter *)
Theorem C01_subscribe_tracks : PropsE2E.E2E_subscribe_tracks.
Proof. exact ProofsE2E.subscribe_tracks. Qed.
Print Assumptions C01_subscribe_tracks.

(* an UNSUBSCRIBE extends the history by one unsubscribe operation per filter *)
Theorem C01_unsubscribe_tracks : PropsE2E.E2E_unsubscribe_tracks.
Proof. exact ProofsE2E.unsubscribe_tracks. Qed.
Print Assumptions C01_unsubscribe_tracks.

(* a PUBLISH the broker hands on extends it by the retain operation iff its retain flag is set *)
Theorem C01_publish_tracks : ProofsE2E.E2E_publish_tracks_fwd.
Proof. exact ProofsE2E.publish_tracks_fwd. Qed.
Print Assumptions C01_publish_tracks.

(* ... which is false of a message object that cannot be written (not reachable from the wire): it is fanned out but not stored *)
Theorem C01_publish_tracks_unencodable_refuted : ~ PropsE2E.E2E_publish_tracks.
Proof. exact ProofsE2E.publish_tracks_refuted. Qed.
Print Assumptions C01_publish_tracks_unencodable_refuted.
