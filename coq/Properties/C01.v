(* C01 - A publish reaches exactly the clients whose current subscriptions match it.
   Model: Proto/Broker.v (event-step broker built from the codec, topic-store and ack-queue models).
   This file only closes statements with proved lemmas; the instance theorems are concrete histories
   (with the observations the implementation produced for them) re-evaluated inside Coq. *)
From Coq Require Import List NArith.
From Proto Require Import Broker Script ProofsBasic ProofsInstances Props ProofsForward ProofsFanout.
Import ListNotations.
Open Scope N_scope.

Theorem C01_instance_c01_in_process : run_broker [262144] h_c01_in_process = o_c01_in_process.
Proof. exact ProofsInstances.inst_c01_in_process. Qed.
Print Assumptions C01_instance_c01_in_process.

Theorem C01_instance_c01_empty_levels : run_broker [262144] h_c01_empty_levels = o_c01_empty_levels.
Proof. exact ProofsInstances.inst_c01_empty_levels. Qed.
Print Assumptions C01_instance_c01_empty_levels.

Theorem C01_instance_c08_retained_and_parent : run_broker [262144] h_c08_retained_and_parent = o_c08_retained_and_parent.
Proof. exact ProofsInstances.inst_c08_retained_and_parent. Qed.
Print Assumptions C01_instance_c08_retained_and_parent.

(* whatever setters the fan-out applied to a received PUBLISH, what is written decodes to the same topic and payload with the QoS / retain / dup that were set, and a non-zero identifier iff QoS > 0 *)
Theorem C01_forward_roundtrip : Props.C01_forward_roundtrip.
Proof. exact ProofsForward.forward_roundtrip. Qed.
Print Assumptions C01_forward_roundtrip.

(* one received PUBLISH: exactly one packet (or in-process call) per matching subscriber of the store, QoS = min(publish, granted), same topic and payload, retain clear *)
Theorem C01_fanout : Props.C01_fanout.
Proof. exact ProofsFanout.fanout. Qed.
Print Assumptions C01_fanout.

(* the fan-out changes nothing in the stores but the retained message of that topic *)
Theorem C01_fanout_store : Props.C01_fanout_store.
Proof. exact ProofsFanout.fanout_store. Qed.
Print Assumptions C01_fanout_store.
