(* C05 - No client's bad input or sudden disconnect can hurt the broker or other clients.
   Model: Proto/Broker.v (event-step broker built from the codec, topic-store and ack-queue models).
   This file only closes statements with proved lemmas; the instance theorems are concrete histories
   (with the observations the implementation produced for them) re-evaluated inside Coq. *)
From Coq Require Import List NArith.
From Proto Require Import Broker Script ProofsBasic ProofsInstances Props ProofsStruct.
Import ListNotations.
Open Scope N_scope.

(* a first packet that is not accepted changes nothing in the broker, whatever bytes follow it *)
Theorem C05_refused_no_effect : forall bufsize br c authok b br' o,
  connect bufsize br c authok b = (br', o, CRefused) -> br' = br.
Proof. exact ProofsBasic.connect_refused_no_effect. Qed.
Print Assumptions C05_refused_no_effect.

Theorem C05_instance_c09_will_retain_server_close : run_broker [262144] h_c09_will_retain_server_close = o_c09_will_retain_server_close.
Proof. exact ProofsInstances.inst_c09_will_retain_server_close. Qed.
Print Assumptions C05_instance_c09_will_retain_server_close.

(* bytes of a connected client close no connection but its own, whatever the bytes are *)
Theorem C05_only_self_closed : Props.C05_only_self_closed.
Proof. exact ProofsStruct.only_self_closed. Qed.
Print Assumptions C05_only_self_closed.

(* a first packet closes at most its own connection (and a taken-over one is not closed by the model: the code keeps it) *)
Theorem C05_connect_only_self_closed : Props.C05_connect_only_self_closed.
Proof. exact ProofsStruct.connect_only_self_closed. Qed.
Print Assumptions C05_connect_only_self_closed.

(* the end of a connection closes only that connection *)
Theorem C05_stop_only_self_closed : Props.C05_stop_only_self_closed.
Proof. exact ProofsStruct.stop_only_self_closed. Qed.
Print Assumptions C05_stop_only_self_closed.
