(* C05 - No client's bad input or sudden disconnect can hurt the broker or other clients.
   Model: Proto/Broker.v (event-step broker built from the codec, topic-store and ack-queue models).
   This file only closes statements with proved lemmas; the instance theorems are concrete histories
   (with the observations the implementation produced for them) re-evaluated inside Coq. *)
From Coq Require Import List NArith.
From Proto Require Import Broker Script ProofsBasic ProofsInstances.
Import ListNotations.
Open Scope N_scope.

(* a first packet that is not accepted changes nothing in the broker, whatever bytes follow it *)
Theorem C05_refused_no_effect : forall bufsize br c authok b br' o,
  connect bufsize br c authok b = (br', o, CRefused) -> br' = br.
Proof. exact ProofsBasic.connect_refused_no_effect. Qed.
Print Assumptions C05_refused_no_effect.

Theorem C05_instance_c09_will_retain_server_close : run_broker [262144] h_c09_will_retain_server_close = o_c09_will_retain_server_close.
Proof. exact ProofsInstances.inst_c09_will_retain_server_close. Qed.
Print Assumptions C05_instance_c09_will_retain_server_close.
