(* Line-oriented driver for the extracted models.
   input : <model> <int>* ( '|' <int>* )*      output: <int>* ( '|' <int>* )*  *)
open Model

let rec pos_of_int i = if i = 1 then XH else if i land 1 = 0 then XO (pos_of_int (i lsr 1)) else XI (pos_of_int (i lsr 1))
let n_of_int i = if i = 0 then N0 else Npos (pos_of_int i)
let rec int_of_pos = function XH -> 1 | XO p -> 2 * int_of_pos p | XI p -> 2 * int_of_pos p + 1
let int_of_n = function N0 -> 0 | Npos p -> int_of_pos p

let split_groups toks =
  let rec go cur acc = function
    | [] -> List.rev (List.rev cur :: acc)
    | "|" :: r -> go [] (List.rev cur :: acc) r
    | t :: r -> go (n_of_int (int_of_string t) :: cur) acc r in
  go [] [] toks

let print_groups gs =
  let b = Buffer.create 256 in
  List.iteri (fun i g ->
    if i > 0 then Buffer.add_string b " |";
    List.iter (fun n -> Buffer.add_char b ' '; Buffer.add_string b (string_of_int (int_of_n n))) g) gs;
  print_string (Buffer.contents b); print_newline ()

let () =
  try
    while true do
      let line = input_line stdin in
      let toks = List.filter (fun s -> s <> "") (String.split_on_char ' ' line) in
      match toks with
      | [] -> print_newline ()
      | model :: rest ->
        let groups = split_groups rest in
        let hd, ops = (match groups with h :: o -> h, o | [] -> [], []) in
        let out =
          match model with
          | "codec" -> (match hd with [k; c] -> run_codec k c ops | _ -> [[n_of_int 98]])
          | "topics" -> run_topics ops
          | "broker" -> run_broker hd ops
          | "client" -> run_client hd ops
          | "live" -> run_live hd ops
          | "ring" -> (match hd with [s] -> run_ring s ops | _ -> [[n_of_int 98]])
          | "ackq" -> (match hd with [s] -> run_ackq s ops | _ -> [[n_of_int 98]])
          | _ -> [[n_of_int 97]] in
        print_groups out
    done
  with End_of_file -> ()
