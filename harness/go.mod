module verifharness

go 1.15

require (
	github.com/mdzio/go-logging v1.0.0
	github.com/mdzio/go-mqtt v0.0.0
)

replace github.com/mdzio/go-mqtt => /repo
