package main

// Reference codec written from the MQTT 3.1.1 specification (sections 2 and 3),
// independent of package message: the specification-level oracle of C03 / C04.

import (
	"github.com/mdzio/go-mqtt/message"
	"verifharness/hx"
)

func refVarint(n int) []byte {
	var b []byte
	for {
		d := byte(n % 128)
		n /= 128
		if n > 0 {
			b = append(b, d|0x80)
		} else {
			return append(b, d)
		}
	}
}

func refLP(s []byte) []byte {
	return append([]byte{byte(len(s) >> 8), byte(len(s))}, s...)
}

func refFixed(ty int, flags byte, body []byte) []byte {
	b := []byte{byte(ty)<<4 | flags}
	b = append(b, refVarint(len(body))...)
	return append(b, body...)
}

func be16(v uint16) []byte { return []byte{byte(v >> 8), byte(v)} }

var protoNames = map[byte]string{3: "MQIsdp", 4: "MQTT"}

func connectFlags(m *message.ConnectMessage) byte {
	var fl byte
	if m.CleanSession() {
		fl |= 2
	}
	if m.WillFlag() {
		fl |= 4
	}
	fl |= m.WillQos() << 3
	if m.WillRetain() {
		fl |= 32
	}
	if m.PasswordFlag() {
		fl |= 64
	}
	if m.UsernameFlag() {
		fl |= 128
	}
	return fl
}

// refWire is the wire encoding of the message's fields as read through the getters.
func refWire(m message.Message) ([]byte, bool) {
	switch m := m.(type) {
	case *message.PublishMessage:
		var fl byte
		if m.Dup() {
			fl |= 8
		}
		fl |= m.QoS() << 1
		if m.Retain() {
			fl |= 1
		}
		body := refLP(m.Topic())
		if m.QoS() != 0 {
			body = append(body, be16(m.PacketID())...)
		}
		body = append(body, m.Payload()...)
		return refFixed(3, fl, body), true
	case *message.PubackMessage:
		return refFixed(4, 0, be16(m.PacketID())), true
	case *message.PubrecMessage:
		return refFixed(5, 0, be16(m.PacketID())), true
	case *message.PubrelMessage:
		return refFixed(6, 2, be16(m.PacketID())), true
	case *message.PubcompMessage:
		return refFixed(7, 0, be16(m.PacketID())), true
	case *message.UnsubackMessage:
		return refFixed(11, 0, be16(m.PacketID())), true
	case *message.PingreqMessage:
		return refFixed(12, 0, nil), true
	case *message.PingrespMessage:
		return refFixed(13, 0, nil), true
	case *message.DisconnectMessage:
		return refFixed(14, 0, nil), true
	case *message.ConnackMessage:
		sp := byte(0)
		if m.SessionPresent() {
			sp = 1
		}
		return refFixed(2, 0, []byte{sp, byte(m.ReturnCode())}), true
	case *message.SubackMessage:
		return refFixed(9, 0, append(be16(m.PacketID()), m.ReturnCodes()...)), true
	case *message.SubscribeMessage:
		body := be16(m.PacketID())
		for i, t := range m.Topics() {
			body = append(body, refLP(t)...)
			body = append(body, m.Qos()[i])
		}
		return refFixed(8, 2, body), true
	case *message.UnsubscribeMessage:
		body := be16(m.PacketID())
		for _, t := range m.Topics() {
			body = append(body, refLP(t)...)
		}
		return refFixed(10, 2, body), true
	case *message.ConnectMessage:
		name, ok := protoNames[m.Version()]
		if !ok {
			return nil, false
		}
		fl := connectFlags(m)
		body := refLP([]byte(name))
		body = append(body, m.Version(), fl)
		body = append(body, be16(m.KeepAlive())...)
		body = append(body, refLP(m.ClientID())...)
		if m.WillFlag() {
			body = append(body, refLP(m.WillTopic())...)
			body = append(body, refLP(m.WillMessage())...)
		}
		// 3.1 reading kept by the library: a flagged but empty user name / password is omitted
		if m.UsernameFlag() && len(m.Username()) > 0 {
			body = append(body, refLP(m.Username())...)
		}
		if m.PasswordFlag() && len(m.Password()) > 0 {
			body = append(body, refLP(m.Password())...)
		}
		return refFixed(1, 0, body), true
	}
	return nil, false
}

func alnum(b []byte) bool {
	for _, c := range b {
		if !(c >= '0' && c <= '9' || c >= 'a' && c <= 'z' || c >= 'A' && c <= 'Z') {
			return false
		}
	}
	return true
}

func printable(b []byte) bool {
	for _, c := range b {
		if c < 0x20 || c > 0x7e {
			return false
		}
	}
	return true
}

// refOK: the message is a well-formed MQTT 3.1.1 packet value (mirrors Wire.packet_ok), so
// that decoding its encoding must succeed and give equal fields.
func refOK(m message.Message) bool {
	switch m := m.(type) {
	case *message.PublishMessage:
		return message.ValidTopic(m.Topic()) && (m.QoS() == 0 || m.PacketID() != 0) && (m.QoS() != 0 || m.PacketID() == 0)
	case *message.ConnackMessage:
		return m.ReturnCode() <= 5
	case *message.SubscribeMessage:
		if len(m.Topics()) == 0 || m.PacketID() == 0 {
			return false
		}
		return true
	case *message.UnsubscribeMessage:
		return len(m.Topics()) != 0 && m.PacketID() != 0
	case *message.ConnectMessage:
		fl := connectFlags(m)
		wq := (fl >> 3) & 3
		if !m.WillFlag() && (m.WillRetain() || wq != 0) {
			return false
		}
		if len(m.ClientID()) == 0 && !m.CleanSession() {
			return false
		}
		if !printable(m.ClientID()) || len(m.ClientID()) > 32 {
			return false
		}
		if !m.WillFlag() && (len(m.WillTopic()) != 0 || len(m.WillMessage()) != 0) {
			return false
		}
		if m.UsernameFlag() != (len(m.Username()) != 0) || m.PasswordFlag() != (len(m.Password()) != 0) {
			return false
		}
		return true
	}
	return true
}

// packetLen returns the total length of the packet announced by the fixed header of src.
func packetLen(src []byte) (int, bool) {
	if len(src) < 2 {
		return 0, false
	}
	v, mul := 0, 1
	for i := 1; i <= 4; i++ {
		if i >= len(src) {
			return 0, false
		}
		v += int(src[i]&0x7f) * mul
		mul *= 128
		if src[i] < 0x80 {
			return 1 + i + v, true
		}
	}
	return 0, false
}

// canonHeader re-encodes the remaining length of a complete packet minimally.
func canonHeader(b []byte) []byte {
	plen, ok := packetLen(b)
	if !ok || plen != len(b) {
		return b
	}
	body := b[plen-bodyLen(b):]
	return refFixed(int(b[0]>>4), b[0]&0xf, body)
}

func packetIDOnWire(kind int, b []byte) int {
	plen, ok := packetLen(b)
	if !ok || plen > len(b) {
		return -1
	}
	hl := plen - bodyLen(b)
	switch kind {
	case 8, 10:
		if plen >= hl+2 {
			return int(b[hl])<<8 | int(b[hl+1])
		}
	case 3:
		if (b[0]>>1)&3 != 0 && plen >= hl+2 {
			tl := int(b[hl])<<8 | int(b[hl+1])
			if plen >= hl+2+tl+2 {
				return int(b[hl+2+tl])<<8 | int(b[hl+2+tl+1])
			}
		}
	}
	return -1
}

func bodyLen(b []byte) int {
	v, mul := 0, 1
	for i := 1; i <= 4 && i < len(b); i++ {
		v += int(b[i]&0x7f) * mul
		mul *= 128
		if b[i] < 0x80 {
			break
		}
	}
	return v
}

type cursor struct {
	b   []byte
	pos int
	ok  bool
}

func (c *cursor) u8() byte {
	if c.pos+1 > len(c.b) {
		c.ok = false
		return 0
	}
	c.pos++
	return c.b[c.pos-1]
}
func (c *cursor) u16() int { hi := c.u8(); lo := c.u8(); return int(hi)<<8 | int(lo) }
func (c *cursor) lp() []byte {
	n := c.u16()
	if !c.ok || c.pos+n > len(c.b) {
		c.ok = false
		return nil
	}
	c.pos += n
	return c.b[c.pos-n : c.pos]
}
func (c *cursor) rest() []byte { r := c.b[c.pos:]; c.pos = len(c.b); return r }
func (c *cursor) done() bool   { return c.ok && c.pos == len(c.b) }

// refParse strictly parses one complete, well-formed MQTT 3.1.1 packet of the given kind and
// returns its fields in the format of fields().
func refParse(kind int, p []byte) (hx.Group, bool) {
	plen, ok := packetLen(p)
	if !ok || plen != len(p) {
		return nil, false
	}
	ty, fl := int(p[0]>>4), p[0]&0xf
	if ty != kind {
		return nil, false
	}
	body := p[plen-bodyLen(p):]
	c := &cursor{b: body, ok: true}
	g := hx.Group{30, int64(ty), int64(fl)}
	defFlags := map[int]byte{6: 2, 8: 2, 10: 2}
	if kind != 3 && fl != defFlags[kind] {
		return nil, false
	}
	switch kind {
	case 3:
		qos := (fl >> 1) & 3
		if qos == 3 {
			return nil, false
		}
		topic := c.lp()
		pid := 0
		if qos != 0 {
			pid = c.u16()
			if pid == 0 {
				return nil, false
			}
		}
		if !c.ok || !message.ValidTopic(topic) {
			return nil, false
		}
		payload := c.rest()
		g = append(g, int64(pid))
		g = append(g, fstr(topic)...)
		g = append(g, fstr(payload)...)
		return g, true
	case 4, 5, 6, 7, 11:
		pid := c.u16()
		if !c.done() {
			return nil, false
		}
		return append(g, int64(pid)), true
	case 12, 13, 14:
		if !c.done() {
			return nil, false
		}
		return append(g, 0), true
	case 2:
		sp, code := c.u8(), c.u8()
		if !c.done() || sp > 1 || code > 5 {
			return nil, false
		}
		return append(g, 0, int64(sp), int64(code)), true
	case 9:
		pid := c.u16()
		if !c.ok {
			return nil, false
		}
		codes := c.rest()
		for _, x := range codes {
			if x != 0 && x != 1 && x != 2 && x != 0x80 {
				return nil, false
			}
		}
		g = append(g, int64(pid))
		return append(g, fstr(codes)...), true
	case 8:
		pid := c.u16()
		if !c.ok || pid == 0 {
			return nil, false
		}
		var ts [][]byte
		var qs []byte
		for c.ok && c.pos < len(c.b) {
			t := c.lp()
			q := c.u8()
			if !c.ok || q > 2 {
				return nil, false
			}
			ts, qs = append(ts, t), append(qs, q)
		}
		if !c.done() || len(ts) == 0 {
			return nil, false
		}
		g = append(g, int64(pid), int64(len(ts)))
		for _, t := range ts {
			g = append(g, fstr(t)...)
		}
		return append(g, fstr(qs)...), true
	case 10:
		pid := c.u16()
		if !c.ok || pid == 0 {
			return nil, false
		}
		var ts [][]byte
		for c.ok && c.pos < len(c.b) {
			t := c.lp()
			if !c.ok {
				return nil, false
			}
			ts = append(ts, t)
		}
		if !c.done() || len(ts) == 0 {
			return nil, false
		}
		g = append(g, int64(pid), int64(len(ts)))
		for _, t := range ts {
			g = append(g, fstr(t)...)
		}
		return g, true
	case 1:
		name := c.lp()
		ver := c.u8()
		flags := c.u8()
		ka := c.u16()
		cid := c.lp()
		if !c.ok || protoNames[ver] == "" || protoNames[ver] != string(name) {
			return nil, false
		}
		wq := (flags >> 3) & 3
		will := flags&4 != 0
		if flags&1 != 0 || wq == 3 || (!will && (wq != 0 || flags&32 != 0)) {
			return nil, false
		}
		// the server must accept 1..23 alphanumerics, and an empty id with a clean session
		if !(len(cid) >= 1 && len(cid) <= 23 && alnum(cid) || len(cid) == 0 && flags&2 != 0) {
			return nil, false
		}
		var wt, wm, user, pass []byte
		if will {
			wt, wm = c.lp(), c.lp()
		}
		if flags&64 != 0 && flags&128 == 0 {
			return nil, false
		}
		if flags&128 != 0 {
			user = c.lp()
			if len(user) == 0 {
				return nil, false
			}
		}
		if flags&64 != 0 {
			pass = c.lp()
			if len(pass) == 0 {
				return nil, false
			}
		}
		if !c.done() {
			return nil, false
		}
		g = append(g, 0, int64(flags), int64(ver), int64(ka))
		for _, s := range [][]byte{cid, wt, wm, user, pass} {
			g = append(g, fstr(s)...)
		}
		return g, true
	}
	return nil, false
}

func refFields(kind int, packet []byte) (hx.Group, bool) { return refParse(kind, packet) }

// refAccepts: src starts with a complete well-formed packet of this kind.
func refAccepts(kind int, src []byte) bool {
	plen, ok := packetLen(src)
	if !ok || plen > len(src) {
		return false
	}
	_, ok = refParse(kind, src[:plen])
	return ok
}

type corpusCase struct {
	kind    int
	counter uint64
	ops     []hx.Group
}

func dec(kind int, b ...byte) corpusCase {
	return corpusCase{kind, 0, []hx.Group{hx.GB([]int64{opDec}, b), hx.G(opFields), hx.G(opLen), hx.G(opLenEnc, 0, 0)}}
}

// corpus: regression witnesses of the repaired defects (DESIGN.md section 8) and minimised
// earlier failures.  They run first on every check.
func corpus() []corpusCase {
	cs := []corpusCase{
		dec(3, 0x32, 0x07, 0x00, 0x03, 'a', '/', 'b'), // truncated PUBLISH packet id
		dec(3),                              // empty input
		dec(4),                              //
		dec(3, 0x30, 0x03, 0x00, 0x05, 'a'), // length prefix overrun
		dec(1, 0x10, 0x06, 0x00, 0x04, 'M', 'Q', 'T', 'T'),           // short CONNECT (ended the broker process)
		dec(4, 0x40, 0xff, 0xff, 0xff, 0xff, 0x7f, 0x00, 0x01, 0, 0), // 5-byte varint
		dec(14, 0xe0, 0x80),                        // unterminated varint
		dec(12, 0xc0, 0x80),                        //
		dec(4, 0x40, 0x02, 0x00, 0x07, 0xde, 0xad), // trailing bytes: dbuf must be the packet only
		dec(4, 0x40, 0x03, 0x00, 0x07, 0x01),       // PUBACK with remaining length 3
		dec(14, 0xe0, 0x80, 0x00),                  // non-minimal remaining length must re-encode unchanged
		dec(14, 0xe0, 0x02, 0x01, 0x02),            // DISCONNECT with a body
		dec(10, 0xa2, 0x11, 0x00, 0x09, 0, 1, 'a', 0, 1, 'b', 0, 1, 'c', 0, 1, 'd', 0, 1, 'e'), // 5 one-letter topics
		dec(8, 0x82, 0x06, 0x00, 0x01, 0x00, 0x01, 'a'),                                        // SUBSCRIBE without the QoS byte
		dec(9, 0x90, 0x01, 0x00), // SUBACK shorter than a packet id
		dec(2, 0x20, 0x01, 0x00), // CONNACK too short
		{3, 65535, []hx.Group{hx.GB([]int64{opTopic}, []byte("a")), hx.GB([]int64{opPayload}, []byte("x")), hx.G(opQos, 1), hx.G(opLenEnc, 0, 0), hx.G(opFields)}}, // packet id 0
		{8, 65535, []hx.Group{hx.GB([]int64{opSubAdd, 1}, []byte("a")), hx.G(opLenEnc, 0, 0), hx.G(opFields)}},
		{10, 131071, []hx.Group{hx.GB([]int64{opUnsAdd}, []byte("a")), hx.G(opLenEnc, 0, 0), hx.G(opFields)}},
		{3, 0, []hx.Group{hx.GB([]int64{opTopic}, []byte("a")), hx.G(opQos, 1), hx.G(opSetPid, 5), hx.G(opLenEnc, 0, 0), hx.G(opFields)}}, // empty payload
		{2, 0, []hx.Group{hx.G(opCode, 0), hx.G(opLenEnc, 0, 0)}},                                                                         // CONNACK flags byte must be written
	}
	return cs
}
