// codecdrv: correspondence driver for package message (properties C03, C04).
//
// It generates API scripts from VERIF_SEED, runs them on the real message API and writes
//
//	<out>.cases  - the scripts, in the input format of the extracted Coq model
//	<out>.impl   - the implementation's observations, in the model's output format
//	<out>.oracle - failures of the specification-level oracle (reference codec written
//	               from the MQTT 3.1.1 specification), each a concrete failing input
//	<out>.stats  - input distribution (JSON)
package main

import (
	"bytes"
	"encoding/json"
	"fmt"
	"os"
	"sort"
	"strings"
	"unsafe"

	"github.com/mdzio/go-mqtt/message"
	"verifharness/hx"
)

const (
	opLen     = 1
	opLenEnc  = 2
	opEnc     = 3
	opDec     = 4
	opFields  = 5
	opSetPid  = 6
	opDup     = 10
	opRetain  = 11
	opQos     = 12
	opTopic   = 13
	opPayload = 14
	opSP      = 20
	opCode    = 21
	opCodes   = 22
	opSubAdd  = 23
	opSubRm   = 24
	opUnsAdd  = 25
	opUnsRm   = 26
	opVer     = 30
	opClean   = 31
	opWFlag   = 32
	opWQos    = 33
	opWRet    = 34
	opUFlag   = 35
	opPFlag   = 36
	opKA      = 37
	opCid     = 38
	opWT      = 39
	opWM      = 40
	opUser    = 41
	opPass    = 42
)

var kinds = []int{1, 2, 3, 4, 5, 6, 7, 8, 9, 10, 11, 12, 13, 14}

func b2i(b bool) int64 {
	if b {
		return 1
	}
	return 0
}

func errClass(err error) int64 {
	if c, ok := err.(message.ConnackCode); ok {
		return int64(c)
	}
	return 0
}

func obsErr(err error) hx.Group {
	if err != nil {
		return hx.G(1)
	}
	return hx.G(0)
}

type flagger interface {
	Flags() byte
}

func fstr(b []byte) []int64 {
	r := []int64{int64(len(b))}
	for _, x := range b {
		r = append(r, int64(x))
	}
	return r
}

func fields(m message.Message) hx.Group {
	g := hx.Group{30, int64(m.Type()), int64(m.(flagger).Flags()), int64(m.PacketID())}
	switch m := m.(type) {
	case *message.PublishMessage:
		g = append(g, fstr(m.Topic())...)
		g = append(g, fstr(m.Payload())...)
	case *message.ConnackMessage:
		g = append(g, b2i(m.SessionPresent()), int64(m.ReturnCode()))
	case *message.SubackMessage:
		g = append(g, fstr(m.ReturnCodes())...)
	case *message.SubscribeMessage:
		g = append(g, int64(len(m.Topics())))
		for _, t := range m.Topics() {
			g = append(g, fstr(t)...)
		}
		g = append(g, fstr(m.Qos())...)
	case *message.UnsubscribeMessage:
		g = append(g, int64(len(m.Topics())))
		for _, t := range m.Topics() {
			g = append(g, fstr(t)...)
		}
	case *message.ConnectMessage:
		var fl int64
		fl |= b2i(m.CleanSession()) << 1
		fl |= b2i(m.WillFlag()) << 2
		fl |= int64(m.WillQos()) << 3
		fl |= b2i(m.WillRetain()) << 5
		fl |= b2i(m.PasswordFlag()) << 6
		fl |= b2i(m.UsernameFlag()) << 7
		g = append(g, fl, int64(m.Version()), int64(m.KeepAlive()))
		g = append(g, fstr(m.ClientID())...)
		g = append(g, fstr(m.WillTopic())...)
		g = append(g, fstr(m.WillMessage())...)
		g = append(g, fstr(m.Username())...)
		g = append(g, fstr(m.Password())...)
	}
	return g
}

func gbytes(g hx.Group, from int) []byte {
	b := make([]byte, 0, len(g)-from)
	for _, x := range g[from:] {
		b = append(b, byte(x))
	}
	return b
}

// exact returns a copy whose capacity equals its length.
func exact(b []byte) []byte {
	c := make([]byte, len(b))
	copy(c, b)
	return c[:len(c):len(c)]
}

type encRes struct {
	ok    bool
	n     int
	bytes []byte
	panic bool
	cls   int64
}

func doEncode(m message.Message, dstlen int) (r encRes) {
	if dstlen < 0 {
		dstlen = 0
	}
	dst := make([]byte, dstlen)
	for i := range dst {
		dst[i] = 0xAA
	}
	defer func() {
		if p := recover(); p != nil {
			r = encRes{panic: true}
		}
	}()
	n, err := m.Encode(dst)
	if err != nil {
		return encRes{cls: errClass(err)}
	}
	if n < 0 || n > len(dst) {
		return encRes{ok: true, n: n, bytes: nil}
	}
	return encRes{ok: true, n: n, bytes: dst[:n]}
}

func (r encRes) obs() hx.Group {
	switch {
	case r.panic:
		return hx.G(12)
	case !r.ok:
		return hx.G(11, r.cls)
	}
	return hx.GB([]int64{10, int64(r.n)}, r.bytes)
}

type decRes struct {
	ok    bool
	n     int
	panic bool
	cls   int64
	pmsg  string
}

func doDecode(m message.Message, src []byte) (r decRes) {
	defer func() {
		if p := recover(); p != nil {
			r = decRes{panic: true, pmsg: fmt.Sprint(p)}
		}
	}()
	n, err := m.Decode(src)
	if err != nil {
		return decRes{n: n, cls: errClass(err)}
	}
	return decRes{ok: true, n: n}
}

func (r decRes) obs(srclen int) hx.Group {
	switch {
	case r.panic:
		return hx.G(22)
	case !r.ok:
		return hx.G(21, r.cls, b2i(r.n >= 0 && r.n <= srclen))
	}
	return hx.G(20, int64(r.n))
}

// inside reports whether field lies within [base, base+n) of src (or is empty).
func inside(field, src []byte, n int) bool {
	if len(field) == 0 {
		return true
	}
	if len(src) == 0 {
		return false
	}
	fp := uintptr(unsafe.Pointer(&field[0]))
	sp := uintptr(unsafe.Pointer(&src[0]))
	return fp >= sp && fp+uintptr(len(field)) <= sp+uintptr(n)
}

func fieldSlices(m message.Message) [][]byte {
	switch m := m.(type) {
	case *message.PublishMessage:
		return [][]byte{m.Topic(), m.Payload()}
	case *message.SubackMessage:
		return [][]byte{m.ReturnCodes()}
	case *message.SubscribeMessage:
		return m.Topics()
	case *message.UnsubscribeMessage:
		return m.Topics()
	case *message.ConnectMessage:
		return [][]byte{m.ClientID(), m.WillTopic(), m.WillMessage(), m.Username(), m.Password()}
	}
	return nil
}

type runner struct {
	out   *hx.Out
	stats map[string]int
}

func (rn *runner) count(k string) { rn.stats[k]++ }

// run executes a script on the real API, records case and observations, applies the oracle.
// It returns the bytes of the last successful Encode (for chaining into decode scripts).
func (rn *runner) run(kind int, counter uint64, ops []hx.Group) []byte {
	m, err := message.Type(kind).New()
	if err != nil {
		panic(err)
	}
	message.VerifSetPacketIDCounter(counter)
	caseNo := rn.out.N
	var obs []hx.Group
	var lastEnc []byte
	failed := false
	// the bytes of the packet the message was decoded from, while no setter has touched it since: such a message
	// re-encodes to exactly those bytes (C03); what a decoder accepts beyond the well-formed packets (an identifier 0,
	// unused bytes inside a CONNECT) is then reproduced, not "corrected"
	var pristine []byte
	for _, op := range ops {
		if failed {
			break // a message whose Decode failed is in no defined state: the script ends here
		}
		switch op[0] {
		case opLen:
			obs = append(obs, hx.G(2, int64(m.Len())))
		case opLenEnc, opEnc:
			var dl int
			var viaLen bool
			var l int
			if op[0] == opLenEnc {
				l = m.Len()
				viaLen = true
				if op[1] != 0 {
					dl = l - int(op[2])
				} else {
					dl = l + int(op[2])
				}
			} else {
				dl = int(op[1])
			}
			r := doEncode(m, dl)
			obs = append(obs, r.obs())
			if r.ok {
				lastEnc = append([]byte(nil), r.bytes...)
				rn.count("enc_ok")
				// oracle: exactly Len() bytes, and the bytes are the reference encoding of the fields
				if viaLen && r.n != l {
					rn.out.Oracle(caseNo, "Encode wrote %d bytes but Len() was %d", r.n, l)
				}
				// (a message decoded from a non-minimal remaining-length encoding legitimately keeps it:
				//  the fixed header is compared in canonical form, the body byte for byte)
				if pristine != nil {
					if !bytes.Equal(r.bytes, pristine) {
						rn.out.Oracle(caseNo, "re-encoding the decoded message gives %x, the packet was %x", r.bytes, pristine)
					}
				} else if ref, ok := refWire(m); ok && !bytes.Equal(ref, canonHeader(r.bytes)) {
					rn.out.Oracle(caseNo, "Encode bytes %x differ from the reference wire encoding %x of the message's fields", r.bytes, ref)
				}
				// oracle: decoding the bytes yields equal fields
				m2, _ := message.Type(kind).New()
				d := doDecode(m2, exact(r.bytes))
				if refOK(m) && pristine == nil {
					if !d.ok || d.n != r.n {
						rn.out.Oracle(caseNo, "bytes %x written by Encode are not accepted by Decode (ok=%v n=%d panic=%v)", r.bytes, d.ok, d.n, d.panic)
					} else if f1, f2 := fields(m), fields(m2); !sameGroup(f1, f2) {
						rn.out.Oracle(caseNo, "decode(encode(m)) has different fields: %v vs %v", f1, f2)
					}
				}
				if pid := packetIDOnWire(kind, r.bytes); pid == 0 && pristine == nil {
					rn.out.Oracle(caseNo, "encoded packet %x carries packet identifier 0", r.bytes)
				}
			} else if r.panic {
				rn.count("enc_panic")
			} else {
				rn.count("enc_err")
			}
		case opDec:
			src := exact(gbytes(op, 1))
			r := doDecode(m, src)
			obs = append(obs, r.obs(len(src)))
			failed = !r.ok
			switch {
			case r.panic:
				rn.count("dec_panic")
				rn.out.Oracle(caseNo, "Decode panicked on %x: %s", src, r.pmsg)
			case r.ok:
				rn.count("dec_ok")
				if r.n < 0 || r.n > len(src) {
					rn.out.Oracle(caseNo, "Decode returned n=%d for an input of %d bytes", r.n, len(src))
				}
				plen, pok := packetLen(src)
				if !pok || plen > len(src) {
					rn.out.Oracle(caseNo, "Decode accepted %x which has no complete fixed header / packet", src)
				} else {
					pristine = append([]byte{}, src[:plen]...)
					for _, f := range fieldSlices(m) {
						if !inside(f, src, plen) {
							rn.out.Oracle(caseNo, "a decoded field lies outside the %d bytes of the packet in %x", plen, src)
						}
					}
					// re-encoding reproduces exactly the bytes of the packet
					l := m.Len()
					e := doEncode(m, l)
					if !e.ok || !bytes.Equal(e.bytes, src[:plen]) {
						rn.out.Oracle(caseNo, "re-encoding the decoded message gives %x (ok=%v), the packet was %x", e.bytes, e.ok, src[:plen])
					}
					// and the fields are those of the reference decoder
					if rf, ok := refFields(kind, src[:plen]); ok {
						if got := fields(m); !sameGroup(rf, got) {
							rn.out.Oracle(caseNo, "decoded fields %v differ from the reference decoding %v of %x", got, rf, src[:plen])
						}
					}
				}
			default:
				rn.count("dec_err")
				if r.n < 0 || r.n > len(src) {
					rn.out.Oracle(caseNo, "Decode failed with n=%d for an input of %d bytes", r.n, len(src))
				}
				// a well-formed packet must be accepted
				if refAccepts(kind, src) {
					rn.out.Oracle(caseNo, "Decode rejected the well-formed packet %x", src)
				}
			}
		case opFields:
			obs = append(obs, fields(m))
		case opSetPid:
			type pidSetter interface{ SetPacketID(uint16) }
			m.(pidSetter).SetPacketID(uint16(op[1]))
			obs = append(obs, hx.G(0))
			pristine = nil
		default:
			obs = append(obs, applySetter(m, op))
			pristine = nil
		}
	}
	obs = append(obs, hx.G(50, int64(message.VerifPacketIDCounter())))
	in := append([]hx.Group{hx.G(int64(kind), int64(counter))}, ops...)
	rn.out.Case("codec", in, obs)
	rn.count(fmt.Sprintf("kind_%02d", kind))
	return lastEnc
}

func sameGroup(a, b hx.Group) bool {
	if len(a) != len(b) {
		return false
	}
	for i := range a {
		if a[i] != b[i] {
			return false
		}
	}
	return true
}

func applySetter(m message.Message, op hx.Group) hx.Group {
	arg := func() int64 {
		if len(op) > 1 {
			return op[1]
		}
		return 0
	}
	switch m := m.(type) {
	case *message.PublishMessage:
		switch op[0] {
		case opDup:
			m.SetDup(arg() != 0)
			return hx.G(0)
		case opRetain:
			m.SetRetain(arg() != 0)
			return hx.G(0)
		case opQos:
			return obsErr(m.SetQoS(byte(arg())))
		case opTopic:
			return obsErr(m.SetTopic(gbytes(op, 1)))
		case opPayload:
			m.SetPayload(gbytes(op, 1))
			return hx.G(0)
		}
	case *message.ConnackMessage:
		switch op[0] {
		case opSP:
			m.SetSessionPresent(arg() != 0)
			return hx.G(0)
		case opCode:
			m.SetReturnCode(message.ConnackCode(arg()))
			return hx.G(0)
		}
	case *message.SubackMessage:
		if op[0] == opCodes {
			return obsErr(m.AddReturnCodes(gbytes(op, 1)))
		}
	case *message.SubscribeMessage:
		switch op[0] {
		case opSubAdd:
			return obsErr(m.AddTopic(gbytes(op, 2), byte(op[1])))
		case opSubRm:
			m.RemoveTopic(gbytes(op, 1))
			return hx.G(0)
		}
	case *message.UnsubscribeMessage:
		switch op[0] {
		case opUnsAdd:
			m.AddTopic(gbytes(op, 1))
			return hx.G(0)
		case opUnsRm:
			m.RemoveTopic(gbytes(op, 1))
			return hx.G(0)
		}
	case *message.ConnectMessage:
		switch op[0] {
		case opVer:
			return obsErr(m.SetVersion(byte(arg())))
		case opClean:
			m.SetCleanSession(arg() != 0)
			return hx.G(0)
		case opWFlag:
			m.SetWillFlag(arg() != 0)
			return hx.G(0)
		case opWQos:
			return obsErr(m.SetWillQos(byte(arg())))
		case opWRet:
			m.SetWillRetain(arg() != 0)
			return hx.G(0)
		case opUFlag:
			m.SetUsernameFlag(arg() != 0)
			return hx.G(0)
		case opPFlag:
			m.SetPasswordFlag(arg() != 0)
			return hx.G(0)
		case opKA:
			m.SetKeepAlive(uint16(arg()))
			return hx.G(0)
		case opCid:
			return obsErr(m.SetClientID(gbytes(op, 1)))
		case opWT:
			m.SetWillTopic(gbytes(op, 1))
			return hx.G(0)
		case opWM:
			m.SetWillMessage(gbytes(op, 1))
			return hx.G(0)
		case opUser:
			m.SetUsername(gbytes(op, 1))
			return hx.G(0)
		case opPass:
			m.SetPassword(gbytes(op, 1))
			return hx.G(0)
		}
	}
	return hx.G(99)
}

// ---------------------------------------------------------------------------------------
// generators

var boundaryLens = []int{0, 1, 2, 127, 128, 129, 16383, 16384}

func (rn *runner) str(r *hx.Rng, big bool) []byte {
	var n int
	switch {
	case big && r.Chance(30):
		n = []int{16383, 16384, 65535, 65534, 300, 127, 128}[r.Intn(7)]
	case r.Chance(15):
		n = boundaryLens[r.Intn(6)]
	default:
		n = r.Intn(12)
	}
	b := make([]byte, n)
	for i := range b {
		if r.Chance(90) {
			b[i] = "abcxyz/09 _-"[r.Intn(12)]
		} else {
			b[i] = byte(r.U64())
		}
	}
	return b
}

func (rn *runner) topicName(r *hx.Rng, big bool) []byte {
	t := rn.str(r, big)
	for i := range t {
		if t[i] == '#' || t[i] == '+' {
			t[i] = 'w'
		}
	}
	if len(t) == 0 && r.Chance(85) {
		t = []byte("t")
	}
	if r.Chance(4) {
		t = append(t, "#+"[r.Intn(2)])
	}
	return t
}

func counterValue(r *hx.Rng) uint64 {
	switch r.Intn(6) {
	case 0:
		return 65534
	case 1:
		return 65535
	case 2:
		return uint64(65536*(1+r.Intn(5))) - uint64(1+r.Intn(3))
	case 3:
		return uint64(r.Intn(100000))
	case 4:
		// just below a multiple of 2^32 (the high words of the counter)
		return uint64(1+r.Intn(1000))<<32 - uint64(1+r.Intn(3))
	default:
		return uint64(r.Intn(50))
	}
}

func (rn *runner) genBuild(r *hx.Rng, kind int, big bool) []hx.Group {
	var ops []hx.Group
	add := func(g hx.Group) { ops = append(ops, g) }
	switch kind {
	case 3:
		n := 2 + r.Intn(6)
		add(hx.GB([]int64{opTopic}, rn.topicName(r, big)))
		add(hx.GB([]int64{opPayload}, rn.payload(r, big)))
		for i := 0; i < n; i++ {
			switch r.Intn(7) {
			case 0:
				add(hx.G(opDup, int64(r.Intn(2))))
			case 1:
				add(hx.G(opRetain, int64(r.Intn(2))))
			case 2:
				q := int64(r.Intn(3))
				if r.Chance(5) {
					q = int64(3 + r.Intn(3))
				}
				add(hx.G(opQos, q))
			case 3:
				add(hx.GB([]int64{opTopic}, rn.topicName(r, false)))
			case 4:
				add(hx.GB([]int64{opPayload}, rn.payload(r, false)))
			case 5:
				add(hx.G(opSetPid, pidValue(r)))
			case 6:
				add(hx.G(opLen))
			}
		}
	case 4, 5, 6, 7, 11:
		if r.Chance(80) {
			add(hx.G(opSetPid, pidValue(r)))
		}
		if r.Chance(30) {
			add(hx.G(opSetPid, pidValue(r)))
		}
	case 12, 13, 14:
	case 2:
		if r.Chance(70) {
			add(hx.G(opSP, int64(r.Intn(2))))
		}
		c := int64(r.Intn(6))
		if r.Chance(10) {
			c = int64(6 + r.Intn(250))
		}
		add(hx.G(opCode, c))
		if r.Chance(30) {
			add(hx.G(opSP, int64(r.Intn(2))))
		}
	case 9:
		if r.Chance(90) {
			add(hx.G(opSetPid, pidValue(r)))
		}
		for i, n := 0, r.Intn(4); i < n; i++ {
			k := r.Intn(6)
			if big && r.Chance(20) {
				k = 120 + r.Intn(20)
			}
			cs := make([]byte, k)
			for j := range cs {
				cs[j] = []byte{0, 1, 2, 0x80}[r.Intn(4)]
				if r.Chance(2) {
					cs[j] = byte(3 + r.Intn(100))
				}
			}
			add(hx.GB([]int64{opCodes}, cs))
		}
	case 8:
		if r.Chance(60) {
			add(hx.G(opSetPid, pidValue(r)))
		}
		var seen [][]byte
		nt := 1 + r.Intn(8)
		if r.Chance(10) {
			nt = 0
		}
		for i := 0; i < nt; i++ {
			var t []byte
			if len(seen) > 0 && r.Chance(20) {
				t = seen[r.Intn(len(seen))]
			} else {
				t = rn.str(r, big && i == 0)
			}
			seen = append(seen, t)
			q := int64(r.Intn(3))
			if r.Chance(4) {
				q = int64(3 + r.Intn(200))
			}
			add(hx.GB([]int64{opSubAdd, q}, t))
			if r.Chance(10) {
				add(hx.GB([]int64{opSubRm}, seen[r.Intn(len(seen))]))
			}
		}
	case 10:
		if r.Chance(60) {
			add(hx.G(opSetPid, pidValue(r)))
		}
		var seen [][]byte
		nt := 1 + r.Intn(8)
		if r.Chance(10) {
			nt = 0
		}
		for i := 0; i < nt; i++ {
			var t []byte
			if len(seen) > 0 && r.Chance(20) {
				t = seen[r.Intn(len(seen))]
			} else {
				t = rn.str(r, big && i == 0)
			}
			seen = append(seen, t)
			add(hx.GB([]int64{opUnsAdd}, t))
			if r.Chance(10) {
				add(hx.GB([]int64{opUnsRm}, seen[r.Intn(len(seen))]))
			}
		}
	case 1:
		v := int64(3 + r.Intn(2))
		if r.Chance(5) {
			v = int64(r.Intn(7))
		}
		if r.Chance(95) {
			add(hx.G(opVer, v))
		}
		n := 3 + r.Intn(8)
		for i := 0; i < n; i++ {
			switch r.Intn(13) {
			case 0:
				add(hx.G(opClean, int64(r.Intn(2))))
			case 1:
				add(hx.G(opWFlag, int64(r.Intn(2))))
			case 2:
				q := int64(r.Intn(3))
				if r.Chance(5) {
					q = 3
				}
				add(hx.G(opWQos, q))
			case 3:
				add(hx.G(opWRet, int64(r.Intn(2))))
			case 4:
				add(hx.G(opUFlag, int64(r.Intn(2))))
			case 5:
				add(hx.G(opPFlag, int64(r.Intn(2))))
			case 6:
				add(hx.G(opKA, []int64{0, 1, 30, 255, 256, 65535}[r.Intn(6)]))
			case 7:
				add(hx.GB([]int64{opCid}, rn.clientID(r)))
			case 8:
				add(hx.GB([]int64{opWT}, rn.str(r, big)))
			case 9:
				add(hx.GB([]int64{opWM}, rn.str(r, big)))
			case 10:
				add(hx.GB([]int64{opUser}, rn.str(r, false)))
			case 11:
				add(hx.GB([]int64{opPass}, rn.str(r, false)))
			case 12:
				add(hx.G(opLen))
			}
		}
	}
	return ops
}

func (rn *runner) clientID(r *hx.Rng) []byte {
	n := r.Intn(10)
	if r.Chance(15) {
		n = []int{0, 23, 32, 33}[r.Intn(4)]
	}
	b := make([]byte, n)
	for i := range b {
		b[i] = byte(0x20 + r.Intn(0x5f))
		if r.Chance(2) {
			b[i] = byte(r.U64())
		}
	}
	if n > 0 && r.Chance(12) {
		// the edges of the accepted character range
		b[r.Intn(n)] = []byte{0x1f, 0x20, 0x7e, 0x7f, 0x80, 0xff, 0x00}[r.Intn(7)]
	}
	return b
}

func pidValue(r *hx.Rng) int64 {
	switch r.Intn(6) {
	case 0:
		return 0
	case 1:
		return 65535
	case 2:
		return 256
	default:
		return int64(1 + r.Intn(65535))
	}
}

func (rn *runner) payload(r *hx.Rng, big bool) []byte {
	n := r.Intn(20)
	if r.Chance(15) {
		n = 0
	}
	if big {
		// make the remaining length hit a varint boundary (topic length is small here)
		n = []int{100, 110, 120, 125, 126, 127, 128, 16370, 16380, 16383, 16384, 16390}[r.Intn(12)]
	}
	return r.Bytes(n)
}

var tailOps = [][]hx.Group{
	{hx.G(opLen), hx.G(opLenEnc, 0, 0), hx.G(opFields)},
	{hx.G(opLenEnc, 0, 0), hx.G(opFields), hx.G(opLenEnc, 0, 0)},
	{hx.G(opLenEnc, 0, 3), hx.G(opLen)},
	{hx.G(opLenEnc, 1, 1), hx.G(opLenEnc, 0, 0)},
	{hx.G(opEnc, 0), hx.G(opEnc, 1), hx.G(opLenEnc, 0, 0), hx.G(opFields)},
}

func mutate(r *hx.Rng, p []byte) []byte {
	q := append([]byte(nil), p...)
	if len(q) == 0 {
		return q
	}
	switch r.Intn(9) {
	case 8: // same remaining length, non-minimal encoding
		if len(q) > 1 && q[1] < 0x80 {
			l := q[1]
			q = append(q[:1:1], append([]byte{l | 0x80, 0x00}, q[2:]...)...)
			if r.Chance(30) {
				q = append(q[:2:2], append([]byte{0x80}, q[2:]...)...)
			}
		}
	case 0: // truncate
		return q[:r.Intn(len(q))]
	case 1: // bit flip
		i := r.Intn(len(q))
		q[i] ^= 1 << uint(r.Intn(8))
	case 2: // flags corruption
		q[0] ^= byte(1 + r.Intn(15))
	case 3: // type corruption
		q[0] = byte(r.Intn(16))<<4 | q[0]&0xf
	case 4: // remaining-length corruption
		if len(q) > 1 {
			q[1] = []byte{0, 1, 2, 3, 0x7f, 0x80, 0xff, q[1] + 1, q[1] - 1}[r.Intn(9)]
		}
	case 5: // insert a continuation byte / longer varint
		if len(q) > 1 {
			k := 1 + r.Intn(4)
			ins := make([]byte, k)
			for i := range ins {
				ins[i] = 0x80 | byte(r.Intn(128))
			}
			q = append(q[:1:1], append(ins, q[1:]...)...)
		}
	case 6: // length-prefix corruption somewhere in the body
		if len(q) > 4 {
			i := 2 + r.Intn(len(q)-3)
			q[i] = byte(r.U64())
			if r.Bool() {
				q[i] = 0
				q[i+1] = byte(r.Intn(len(q) + 3))
			}
		}
	case 7: // trailing bytes
		q = append(q, r.Bytes(1+r.Intn(5))...)
	}
	return q
}

func main() {
	outPrefix := "/verif/replays/tmp/codec"
	if len(os.Args) > 1 {
		outPrefix = os.Args[1]
	}
	nBuild := hx.EnvInt("VERIF_CODEC_N", 1500)
	seed := hx.EnvSeed()
	rn := &runner{out: hx.NewOut(outPrefix), stats: map[string]int{}}
	r := hx.NewRng(seed)
	if len(os.Args) > 3 && os.Args[2] == "-cases" {
		// replay mode: run the given case lines only
		for _, c := range hx.ReadCases(os.Args[3]) {
			if len(c) > 0 && len(c[0]) == 2 {
				rn.run(int(c[0][0]), uint64(c[0][1]), c[1:])
			}
		}
		rn.out.Close()
		writeStats(outPrefix, rn.stats, rn.out.N)
		return
	}

	// corpus first: regression witnesses of the repaired defects and earlier failures
	for _, c := range corpus() {
		rn.run(c.kind, c.counter, c.ops)
		rn.count("corpus")
	}

	var pool [][]byte // valid packets by construction, for the decode stream
	var poolKind []int
	for i := 0; i < nBuild; i++ {
		kind := kinds[r.Intn(len(kinds))]
		if r.Chance(35) {
			kind = []int{1, 3, 8, 10}[r.Intn(4)]
		}
		big := r.Chance(6)
		ops := rn.genBuild(r, kind, big)
		ops = append(ops, tailOps[r.Intn(len(tailOps))]...)
		enc := rn.run(kind, counterValue(r), ops)
		if enc != nil {
			pool = append(pool, enc)
			poolKind = append(poolKind, kind)
			// decode what was encoded, with a fresh message of the same kind, then re-encode
			post := []hx.Group{hx.GB([]int64{opDec}, enc), hx.G(opFields), hx.G(opLen), hx.G(opLenEnc, 0, 0)}
			if kind == 3 && r.Chance(60) {
				// what the broker does to a decoded PUBLISH before forwarding it
				for j, n := 0, 1+r.Intn(4); j < n; j++ {
					switch r.Intn(4) {
					case 0:
						post = append(post, hx.G(opQos, int64(r.Intn(3))))
					case 1:
						post = append(post, hx.G(opRetain, int64(r.Intn(2))))
					case 2:
						post = append(post, hx.G(opDup, int64(r.Intn(2))))
					case 3:
						post = append(post, hx.G(opSetPid, pidValue(r)))
					}
				}
				post = append(post, hx.G(opFields), hx.G(opLenEnc, 0, 0), hx.G(opFields))
			}
			rn.run(kind, counterValue(r), post)
			rn.count("roundtrip")
			// followed by other bytes
			if r.Chance(30) {
				rn.run(kind, 0, []hx.Group{hx.GB([]int64{opDec}, append(append([]byte(nil), enc...), r.Bytes(1+r.Intn(6))...)), hx.G(opFields), hx.G(opLenEnc, 0, 0)})
				rn.count("trailing")
			}
		}
	}
	// malformed stream
	for i := 0; i < nBuild; i++ {
		var src []byte
		kind := kinds[r.Intn(len(kinds))]
		switch {
		case len(pool) > 0 && r.Chance(80):
			j := r.Intn(len(pool))
			src = mutate(r, pool[j])
			if r.Chance(85) {
				kind = poolKind[j]
			}
			if r.Chance(25) {
				src = mutate(r, src)
			}
			rn.count("mutated")
		case r.Chance(50):
			src = r.Bytes(r.Intn(12))
			if len(src) > 0 {
				src[0] = byte(kind)<<4 | src[0]&0xf
				if r.Chance(70) {
					src[0] = byte(kind)<<4 | message.Type(kind).DefaultFlags()
				}
			}
			if len(src) > 1 && r.Chance(70) {
				src[1] = byte(len(src) - 2)
			}
			rn.count("random_typed")
		default:
			src = r.Bytes(r.Intn(8))
			rn.count("random")
		}
		rn.run(kind, 0, []hx.Group{hx.GB([]int64{opDec}, src), hx.G(opFields), hx.G(opLen), hx.G(opLenEnc, 0, 0)})
	}
	// every truncation of a few valid packets of every kind
	done := map[int]int{}
	for j, p := range pool {
		k := poolKind[j]
		if done[k] >= 2 || len(p) > 80 {
			continue
		}
		done[k]++
		for cut := 0; cut < len(p); cut++ {
			rn.run(k, 0, []hx.Group{hx.GB([]int64{opDec}, p[:cut]), hx.G(opFields)})
			rn.count("truncation")
		}
	}
	// packet id counter histories: consecutive automatically numbered encodes across the wrap
	for _, start := range []uint64{65530, 131066, 0, 1<<32 - 6, 1<<33 - 6, 3<<32 - 6, 1<<48 - 6, 1<<61 - 6} {
		for _, kind := range []int{3, 8, 10} {
			var ops []hx.Group
			switch kind {
			case 3:
				ops = append(ops, hx.GB([]int64{opTopic}, []byte("a/b")), hx.GB([]int64{opPayload}, []byte("x")), hx.G(opQos, 1))
			case 8:
				ops = append(ops, hx.GB([]int64{opSubAdd, 1}, []byte("a/b")))
			case 10:
				ops = append(ops, hx.GB([]int64{opUnsAdd}, []byte("a/b")))
			}
			for c := start; c < start+12; c++ {
				rn.run(kind, c, append(append([]hx.Group(nil), ops...), hx.G(opLenEnc, 0, 0), hx.G(opFields)))
				rn.count("counter")
			}
		}
	}
	rn.out.Close()
	writeStats(outPrefix, rn.stats, rn.out.N)
}

func writeStats(prefix string, stats map[string]int, n int) {
	keys := make([]string, 0, len(stats))
	for k := range stats {
		keys = append(keys, k)
	}
	sort.Strings(keys)
	m := map[string]interface{}{"cases": n}
	for _, k := range keys {
		m[k] = stats[k]
	}
	b, _ := json.MarshalIndent(m, "", " ")
	os.WriteFile(prefix+".stats", b, 0o644)
	_ = strings.TrimSpace
}
