// schedrv: controlled-schedule correspondence for the byte ring (tie T3; properties C14, C15).
//
// The verif hook points of service/buffer.go stop every goroutine at each atomic action of the
// blocking protocol; a schedule (which stopped goroutine runs next) therefore determines the
// execution.  For enumerated or random schedules of a few concurrent calls on a 16-byte ring the
// driver records the trace of hook events, which the Coq model Ring/Live.v replays event by
// event (.cases / .impl / .model), and applies the oracles of C14 / C15 directly:
//   - every byte a consumer call returns is the byte of the stream at that position,
//   - a goroutine parked in Cond.Wait whose wake condition holds while nobody is about to
//     broadcast is a lost wake-up,
//   - a mutex still held by a goroutine that is between calls is a leaked lock,
//   - after Close every blocked or later call returns.
package main

import (
	"encoding/json"
	"fmt"
	"io"
	"os"
	"strings"
	"sync"
	"sync/atomic"
	"time"

	"github.com/mdzio/go-mqtt/service"
	"verifharness/hx"
)

const (
	evCall   = 20
	evRet    = 21
	evParked = 22
)

func sb(i int64) byte { return byte((i*131 + (i >> 8) + 7) & 0xff) }

type op struct {
	kind int // 1 Read 2 ReadPeek 3 ReadWait 4 ReadCommit 5 Write 6 WriteWait 7 WriteCommit 8 Close
	n    int
}

type event struct {
	tid  int
	kind int
	a, b int64 // call: op, n; return: code, count
}

type worker struct {
	id      int
	ops     []op
	release chan struct{}
	// state as the controller sees it
	at       int  // hook point (or evCall) the goroutine is stopped at; 0 = running / none
	parkedOn byte // 'C', 'P' or 0
	signaled bool
	finished bool
	inCall   bool
}

type sched struct {
	vb      *service.VerifBuffer
	size    int64
	ws      []*worker
	events  chan event
	holder  map[byte]int // mutex -> worker id (-1 free)
	trace   []hx.Group
	snaps   []hx.Group
	free    int32 // set during clean-up: hooks and call points no longer stop anybody
	consPos int64 // stream position of the next byte the consumer obtains
	prodPos int64
	oracle  []string
	pending []event
}

func code(err error) int64 {
	switch {
	case err == nil:
		return 0
	case err == io.EOF:
		return 1
	case err.Error() == "bufio: buffer full":
		return 2
	case err == service.ErrBufferInsufficientData:
		return 3
	}
	return 5
}

// stop reports an event of worker w to the controller and waits to be released
func (s *sched) stop(w *worker, e event) {
	if atomic.LoadInt32(&s.free) != 0 {
		return
	}
	s.events <- e
	<-w.release
}

func (s *sched) snapshot() hx.Group {
	p, c, _, d, _, _ := s.vb.Probe()
	dd := int64(0)
	if d {
		dd = 1
	}
	return hx.G(1, p, c, dd)
}

func (s *sched) record(e event) {
	switch e.kind {
	case evCall:
		s.trace = append(s.trace, hx.G(int64(e.tid), evCall, e.a, e.b))
		s.snaps = append(s.snaps, s.snapshot())
	case evRet:
		s.trace = append(s.trace, hx.G(int64(e.tid), evRet))
		s.snaps = append(s.snaps, append(s.snapshot(), e.a, e.b))
	default:
		s.trace = append(s.trace, hx.G(int64(e.tid), int64(e.kind)))
		s.snaps = append(s.snaps, s.snapshot())
	}
}

func (s *sched) fail(format string, a ...interface{}) {
	s.oracle = append(s.oracle, fmt.Sprintf(format, a...))
}

// runWorker executes the worker's calls; every call start is a scheduling point too.
func (s *sched) runWorker(w *worker) {
	bf := s.vb.B
	for _, o := range w.ops {
		s.stop(w, event{tid: w.id, kind: evCall, a: int64(o.kind), b: int64(o.n)})
		var c, cnt int64
		switch o.kind {
		case 1:
			p := make([]byte, o.n)
			n, err := bf.Read(p)
			c, cnt = code(err), int64(n)
			s.checkBytes("Read", p[:n])
			s.consPos += int64(n)
		case 2:
			p, err := bf.ReadPeek(o.n)
			c, cnt = code(err), int64(len(p))
			if err == nil || err == service.ErrBufferInsufficientData {
				s.checkBytes("ReadPeek", p)
			}
		case 3:
			p, err := bf.ReadWait(o.n)
			c, cnt = code(err), int64(len(p))
			if err == nil {
				s.checkBytes("ReadWait", p)
			}
		case 4:
			n, err := bf.ReadCommit(o.n)
			c, cnt = code(err), int64(n)
			s.consPos += int64(n)
		case 5:
			p := make([]byte, o.n)
			for k := range p {
				p[k] = sb(s.prodPos + int64(k))
			}
			n, err := bf.Write(p)
			c, cnt = code(err), int64(n)
			if err == nil {
				s.prodPos += int64(n)
			}
		case 6:
			win, _, err := bf.WriteWait(o.n)
			c, cnt = code(err), int64(o.n)
			if err == nil {
				for k := 0; k < len(win) && k < o.n; k++ {
					win[k] = sb(s.prodPos + int64(k))
				}
			} else {
				cnt = 0
			}
		case 7:
			n, err := bf.WriteCommit(o.n)
			c, cnt = code(err), int64(n)
			if err == nil {
				s.prodPos += int64(n)
			}
		case 8:
			bf.Close()
		}
		if atomic.LoadInt32(&s.free) == 0 {
			s.events <- event{tid: w.id, kind: evRet, a: c, b: cnt}
		}
	}
	if atomic.LoadInt32(&s.free) == 0 {
		s.events <- event{tid: w.id, kind: -1} // finished
	}
}

func (s *sched) checkBytes(what string, p []byte) {
	for k, x := range p {
		if x != sb(s.consPos+int64(k)) {
			s.fail("%s returned byte %#x at stream position %d, the producer committed %#x there", what, x, s.consPos+int64(k), sb(s.consPos+int64(k)))
			return
		}
	}
}

func mutexOf(k int) byte {
	switch k {
	case service.VerifPreLockC, service.VerifLockedC, service.VerifUnlockedC, service.VerifPreWaitC, service.VerifWokeC, service.VerifBcastC:
		return 'C'
	case service.VerifPreLockP, service.VerifLockedP, service.VerifUnlockedP, service.VerifPreWaitP, service.VerifWokeP, service.VerifBcastP:
		return 'P'
	}
	return 0
}

// next event of worker w (events of other workers that arrive meanwhile are kept)
func (s *sched) waitEvent(w *worker, timeout time.Duration) (event, bool) {
	for i, e := range s.pending {
		if e.tid == w.id {
			s.pending = append(s.pending[:i], s.pending[i+1:]...)
			return e, true
		}
	}
	deadline := time.After(timeout)
	for {
		select {
		case e := <-s.events:
			if e.tid == w.id {
				return e, true
			}
			s.pending = append(s.pending, e)
		case <-deadline:
			return event{}, false
		}
	}
}

func (s *sched) mutexFree(m byte) bool {
	_, _, _, _, pf, cf := s.vb.Probe()
	if m == 'P' {
		return pf
	}
	return cf
}

// apply the bookkeeping for an event of worker w
func (s *sched) apply(w *worker, e event) {
	switch e.kind {
	case -1:
		w.finished = true
		w.at = 0
		return
	case evRet:
		w.inCall = false
		w.at = 0
		s.record(e)
		return
	case evCall:
		w.inCall = true
		w.at = evCall
		s.record(e)
		return
	}
	w.at = e.kind
	m := mutexOf(e.kind)
	switch e.kind {
	case service.VerifLockedC, service.VerifLockedP, service.VerifWokeC, service.VerifWokeP:
		s.holder[m] = w.id
		w.parkedOn, w.signaled = 0, false
	case service.VerifUnlockedC, service.VerifUnlockedP:
		s.holder[m] = -1
	case service.VerifBcastC, service.VerifBcastP:
		for _, u := range s.ws {
			if u.parkedOn == m {
				u.signaled = true
			}
		}
	}
	s.record(e)
}

// eligible: stopped at a point and able to make progress when released
func (s *sched) eligible(w *worker) bool {
	if w.finished || w.parkedOn != 0 || w.at == 0 {
		return false
	}
	if w.at == service.VerifPreLockC && s.holder['C'] != -1 {
		return false
	}
	if w.at == service.VerifPreLockP && s.holder['P'] != -1 {
		return false
	}
	return true
}

// step releases worker w and processes what follows until every goroutine is stopped again
func (s *sched) step(w *worker) bool {
	from := w.at
	w.at = 0
	w.release <- struct{}{}
	if from == service.VerifPreWaitC || from == service.VerifPreWaitP {
		// the goroutine parks in Cond.Wait: it has registered as a waiter once the mutex is free again
		m := mutexOf(from)
		t0 := time.Now()
		for !s.mutexFree(m) {
			if time.Since(t0) > 5*time.Second {
				s.fail("goroutine %d did not release the mutex in Cond.Wait", w.id)
				return false
			}
			time.Sleep(20 * time.Microsecond)
		}
		w.parkedOn, w.signaled = m, false
		s.holder[m] = -1
		s.trace = append(s.trace, hx.G(int64(w.id), evParked))
		s.snaps = append(s.snaps, s.snapshot())
		return true
	}
	for {
		e, ok := s.waitEvent(w, 5*time.Second)
		if !ok {
			s.fail("goroutine %d did not reach its next hook point within 5s after point %d (blocked on a mutex nobody releases?)", w.id, from)
			return false
		}
		s.apply(w, e)
		if e.kind == evRet {
			continue // the next event is the call point of the next operation, or the end
		}
		if e.kind == service.VerifUnlockedC || e.kind == service.VerifUnlockedP {
			// a waiter that was broadcast to re-acquires the mutex on its own now
			m := mutexOf(e.kind)
			for _, u := range s.ws {
				if u.parkedOn == m && u.signaled {
					ue, ok := s.waitEvent(u, 5*time.Second)
					if !ok {
						s.fail("goroutine %d was broadcast to but did not wake up within 5s", u.id)
						return false
					}
					s.apply(u, ue)
				}
			}
		}
		return true
	}
}

type scenario struct {
	name          string
	pre           []op // executed uncontrolled before the concurrent part
	threads       [][]op
	wantAllFinish bool
}

// runSchedule executes one schedule: choices[i] picks among the eligible workers at decision i
// (beyond the prefix the first eligible worker runs).  It returns the number of options seen at
// each decision.
func runSchedule(sc scenario, choices []int, rng *hx.Rng) (s *sched, options []int) {
	vb := service.VerifNewSmallBuffer(16)
	s = &sched{vb: vb, size: 16, events: make(chan event, 64), holder: map[byte]int{'C': -1, 'P': -1}}
	// uncontrolled prefix
	for _, o := range sc.pre {
		switch o.kind {
		case 5:
			p := make([]byte, o.n)
			for k := range p {
				p[k] = sb(s.prodPos + int64(k))
			}
			vb.B.Write(p)
			s.prodPos += int64(o.n)
		case 1:
			p := make([]byte, o.n)
			n, _ := vb.B.Read(p)
			s.consPos += int64(n)
		}
	}
	p0, c0, g0, _, _, _ := vb.Probe()
	header := hx.G(16, p0, c0, g0, int64(len(sc.threads)))
	for i, ops := range sc.threads {
		s.ws = append(s.ws, &worker{id: i, ops: ops, release: make(chan struct{})})
	}
	// one hook function dispatching on the goroutine: each worker goroutine registers itself
	var reg sync.Map
	service.VerifSetHooks(func(obj interface{}, k int) {
		if !vb.Is(obj) {
			return
		}
		if w, ok := reg.Load(hx.GoID()); ok {
			ww := w.(*worker)
			s.stop(ww, event{tid: ww.id, kind: k})
		}
	}, nil)
	var wg sync.WaitGroup
	for _, w := range s.ws {
		w := w
		wg.Add(1)
		go func() {
			defer wg.Done()
			reg.Store(hx.GoID(), w)
			s.runWorker(w)
		}()
	}
	// every worker arrives at its first call point
	for _, w := range s.ws {
		e, ok := s.waitEvent(w, 5*time.Second)
		if !ok {
			panic("worker did not start")
		}
		s.apply(w, e)
	}
	for d := 0; d < 400; d++ {
		var el []*worker
		for _, w := range s.ws {
			if s.eligible(w) {
				el = append(el, w)
			}
		}
		if len(el) == 0 {
			break
		}
		options = append(options, len(el))
		pick := 0
		if d < len(choices) {
			pick = choices[d] % len(el)
		} else if rng != nil {
			pick = rng.Intn(len(el))
		}
		if !s.step(el[pick]) {
			break
		}
	}
	// end of the schedule: who is left?
	p, c, _, done, pf, cf := vb.Probe()
	for _, w := range s.ws {
		if w.finished {
			continue
		}
		switch {
		case w.parkedOn == 'C' && !w.signaled:
			// a consumer call parked for data: its wake condition
			o := currentOp(w, s)
			need := int64(1)
			if o.kind == 3 {
				need = int64(o.n)
			}
			if p-c >= need || done {
				s.fail("LOST WAKE-UP: goroutine %d is parked in ccond.Wait (call %v) although pseq=%d cseq=%d done=%v and nobody is about to broadcast", w.id, o, p, c, done)
			}
		case w.parkedOn == 'P' && !w.signaled:
			o := currentOp(w, s)
			if p+int64(o.n)-s.size <= c || done {
				s.fail("LOST WAKE-UP: goroutine %d is parked in pcond.Wait (call %v) although pseq=%d cseq=%d done=%v and nobody is about to broadcast", w.id, o, p, c, done)
			}
		case w.at == service.VerifPreLockC || w.at == service.VerifPreLockP:
			m := mutexOf(w.at)
			h := s.holder[m]
			if h >= 0 && (s.ws[h].finished || !s.ws[h].inCall) {
				s.fail("LEAKED LOCK: goroutine %d waits for mutex %c which goroutine %d still holds although it is between calls", w.id, m, h)
			}
		}
	}
	allIdle := true
	for _, w := range s.ws {
		if !w.finished {
			allIdle = false
		}
	}
	if allIdle && (!pf || !cf) {
		s.fail("LEAKED LOCK: all calls have returned but a mutex is still locked (pcond.L free=%v, ccond.L free=%v)", pf, cf)
	}
	// clean up: let everything run freely; Close must unblock whatever is still waiting
	atomic.StoreInt32(&s.free, 1)
	go func() {
		for range s.events { // nobody may block on the event channel any more
		}
	}()
	for _, w := range s.ws {
		close(w.release)
	}
	closed := make(chan struct{})
	go func() { vb.B.Close(); close(closed) }()
	select {
	case <-closed:
	case <-time.After(5 * time.Second):
		s.fail("STUCK: Close did not return within 5s at the end of the schedule")
	}
	finished := make(chan struct{})
	go func() { wg.Wait(); close(finished) }()
	select {
	case <-finished:
	case <-time.After(10 * time.Second):
		s.fail("STUCK: after Close a blocked or later call did not return within 10s")
	}
	service.VerifSetHooks(nil, nil)
	s.trace = append([]hx.Group{header}, s.trace...)
	return s, options
}

func currentOp(w *worker, s *sched) op {
	// the call the worker is in: count its returns in the trace
	rets := 0
	for _, g := range s.trace {
		if len(g) == 2 && int(g[0]) == w.id && g[1] == evRet {
			rets++
		}
	}
	if rets < len(w.ops) {
		return w.ops[rets]
	}
	return op{}
}

func main() {
	outPrefix := "/verif/replays/tmp/sched"
	if len(os.Args) > 1 {
		outPrefix = os.Args[1]
	}
	out := hx.NewOut(outPrefix)
	stats := map[string]int{}
	r := hx.NewRng(hx.EnvSeed())
	budget := hx.EnvInt("VERIF_SCHED_RUNS", 1500)
	perScenario := hx.EnvInt("VERIF_SCHED_PER_SCENARIO", 60)

	emit := func(sc scenario, s *sched) {
		caseNo := out.N
		out.Case("live", s.trace, s.snaps)
		for _, m := range s.oracle {
			out.Oracle(caseNo, "%s [scenario %s]", m, sc.name)
			if strings.HasPrefix(m, "STUCK") {
				stats["stuck"]++
			}
		}
		stats["schedules"]++
		stats["events"] += len(s.trace) - 1
	}

	scs := scenarios()
	runs := 0
	for _, sc := range scs {
		// systematic exploration of the first decisions (odometer over the choice prefix), then random tails
		var choices []int
		n := 0
		for n < perScenario && runs < budget && stats["stuck"] < 4 {
			// (every stuck schedule costs its time-outs: a few witnesses are enough)
			s, options := runSchedule(sc, choices, r)
			emit(sc, s)
			n++
			runs++
			// next choice vector: increment the last position that still has an alternative, within depth 14
			depth := len(options)
			if depth > 14 {
				depth = 14
			}
			for len(choices) < depth {
				choices = append(choices, 0)
			}
			choices = choices[:depth]
			i := depth - 1
			for i >= 0 && choices[i]+1 >= options[i] {
				i--
			}
			if i < 0 {
				stats["exhausted_scenarios"]++
				break
			}
			choices[i]++
			choices = choices[:i+1]
		}
		stats["scenarios"]++
	}
	out.Close()
	m := map[string]interface{}{"cases": out.N}
	for k, v := range stats {
		m[k] = v
	}
	b, _ := json.MarshalIndent(m, "", " ")
	os.WriteFile(outPrefix+".stats", b, 0o644)
}

func scenarios() []scenario {
	w := func(n int) op { return op{5, n} }
	rd := func(n int) op { return op{1, n} }
	pk := func(n int) op { return op{2, n} }
	rw := func(n int) op { return op{3, n} }
	rc := func(n int) op { return op{4, n} }
	ww := func(n int) op { return op{6, n} }
	wc := func(n int) op { return op{7, n} }
	cl := op{8, 0}
	return []scenario{
		{name: "empty: ReadWait(4) vs Write(4)", threads: [][]op{{rw(4), rc(4)}, {w(4)}}},
		{name: "empty: ReadPeek(4) vs Write(2)", threads: [][]op{{pk(4), rc(2)}, {w(2)}}},
		{name: "empty: Read(4) vs Write(3)", threads: [][]op{{rd(4)}, {w(3)}}},
		{name: "empty: ReadWait(6) vs Write(3) Write(3)", threads: [][]op{{rw(6), rc(6)}, {w(3), w(3)}}},
		{name: "empty: ReadWait(3) vs reserve+commit(3)", threads: [][]op{{rw(3), rc(3)}, {ww(3), wc(3)}}},
		{name: "full: Write(4) vs ReadCommit(4)", pre: []op{w(16)}, threads: [][]op{{w(4)}, {rc(4)}}},
		{name: "full: Write(4) vs Read(6)", pre: []op{w(16)}, threads: [][]op{{w(4)}, {rd(6)}}},
		{name: "full: WriteWait(5) WriteCommit(5) vs peek+commit", pre: []op{w(16)}, threads: [][]op{{ww(5), wc(5)}, {pk(8), rc(8)}}},
		{name: "wrapped: Write(6) vs ReadWait(8)+commit", pre: []op{w(12), rd(10)}, threads: [][]op{{w(6)}, {rw(8), rc(8)}}},
		{name: "wrapped: Write(10) vs Read(5) Read(5)", pre: []op{w(14), rd(9)}, threads: [][]op{{w(10)}, {rd(5), rd(5)}}},
		{name: "partial: ReadPeek(8) vs Write(8)", pre: []op{w(3)}, threads: [][]op{{pk(8), rc(3)}, {w(8)}}},
		{name: "empty: ReadWait(4) vs Close", threads: [][]op{{rw(4)}, {cl}}},
		{name: "empty: ReadPeek(4) vs Close", threads: [][]op{{pk(4)}, {cl}}},
		{name: "empty: Read(4) vs Close", threads: [][]op{{rd(4)}, {cl}}},
		{name: "full: Write(4) vs Close Close", pre: []op{w(16)}, threads: [][]op{{w(4)}, {cl, cl}}},
		{name: "full: Write(4) vs Close", pre: []op{w(16)}, threads: [][]op{{w(4)}, {cl}}},
		{name: "full: WriteWait(5) vs Close", pre: []op{w(16)}, threads: [][]op{{ww(5)}, {cl}}},
		{name: "wrapped full: WriteCommit(3) vs Close", pre: []op{w(12), rd(10), w(14)}, threads: [][]op{{wc(3)}, {cl}}},
		{name: "empty: ReadWait(4) then ReadCommit vs Close", threads: [][]op{{rw(4), rc(1)}, {cl}}},
		{name: "full: WriteWait(4) vs Close, then ReadCommit", pre: []op{w(16)}, threads: [][]op{{ww(4)}, {cl}, {rc(2)}}},
		{name: "empty: ReadWait(4) vs Write(4) vs Close", threads: [][]op{{rw(4), rc(4)}, {w(4)}, {cl}}},
		{name: "full: Write(3) vs Read(3) vs Close", pre: []op{w(16)}, threads: [][]op{{w(3)}, {rd(3)}, {cl}}},
		{name: "empty: ReadWait(4) then ReadWait(4) after Close", threads: [][]op{{rw(4), rw(4)}, {cl}}},
		{name: "two closers vs blocked reader and writer", pre: []op{w(16)}, threads: [][]op{{rw(20)}, {w(2)}, {cl}, {cl}}},
	}
}
