// clientdrv: correspondence driver for the client library (properties C20, C12, C02 client role).
//
// A service.Client talks to a scripted TCP peer on 127.0.0.1 (the driver is the server).  Scripts
// of API calls and server bytes are generated from VERIF_SEED; Ping round trips are used as
// barriers, so the packets the client wrote and the callbacks it invoked are attributed to the
// event that caused them.  The scripts are the cases of the Coq client model (Client/Model.v); a
// reference written from the property texts is the specification-level oracle.
package main

import (
	"encoding/json"
	"errors"
	"fmt"
	"net"
	"os"
	"runtime"
	"sort"
	"strings"
	"sync"
	"time"

	"github.com/mdzio/go-logging"
	"github.com/mdzio/go-mqtt/message"
	"github.com/mdzio/go-mqtt/service"
	"verifharness/hx"
	"verifharness/mq"
)

const bufSize = 262144

type cbRec struct {
	kind    int // 2 publish callback, 3 completion
	cb      int
	flags   byte
	topic   string
	payload []byte
	ack     int
	err     bool
}

type peer struct {
	ln    net.Listener
	conn  net.Conn
	pkts  chan []byte
	fails []string
}

type world struct {
	p      *peer
	cln    *service.Client
	mu     sync.Mutex
	cbs    []cbRec
	closed bool
}

var caseCounter int

func (w *world) record(r cbRec) {
	w.mu.Lock()
	w.cbs = append(w.cbs, r)
	w.mu.Unlock()
}

func (w *world) takeCbs() []cbRec {
	w.mu.Lock()
	defer w.mu.Unlock()
	r := w.cbs
	w.cbs = nil
	return r
}

func (w *world) pubCb(id int) service.OnPublishFunc {
	return func(m *message.PublishMessage) error {
		var fl byte
		if m.Dup() {
			fl |= 8
		}
		fl |= m.QoS() << 1
		if m.Retain() {
			fl |= 1
		}
		w.record(cbRec{kind: 2, cb: id, flags: fl, topic: string(m.Topic()), payload: append([]byte(nil), m.Payload()...)})
		return nil
	}
}

func (w *world) doneCb(id int, ch chan struct{}) service.OnCompleteFunc {
	return w.doneCbE(id, ch, true)
}

// mayFail: the callback of an acknowledged request returns an error for some ids (a QoS 0 Publish hands the
// callback's result back to its caller, so there it never does)
func (w *world) doneCbE(id int, ch chan struct{}, mayFail bool) service.OnCompleteFunc {
	if id == 0 && ch == nil {
		return nil
	}
	return func(msg, ack message.Message, err error) error {
		if id != 0 {
			at := 0
			if ack != nil {
				at = int(ack.Type())
			}
			w.record(cbRec{kind: 3, cb: id, ack: at, err: err != nil})
		}
		if ch != nil {
			close(ch)
		}
		if mayFail && id%7 == 3 {
			// what a completion callback returns is the application's business: the completions of other requests
			// must not depend on it
			return errors.New("application error")
		}
		return nil
	}
}

// server side: read packets until a PINGREQ arrives; the others are returned
func (w *world) untilPing(timeout time.Duration) ([][]byte, bool) {
	var got [][]byte
	deadline := time.After(timeout)
	for {
		select {
		case p := <-w.p.pkts:
			if p == nil {
				w.closed = true
				return got, false
			}
			if mq.Type(p) == mq.PINGREQ {
				return got, true
			}
			got = append(got, p)
		case <-deadline:
			w.p.fails = append(w.p.fails, "STUCK: the client did not send the barrier PINGREQ within 5s")
			return got, false
		}
	}
}

func waitCh(ch chan struct{}, what string, w *world) bool {
	select {
	case <-ch:
		return true
	case <-time.After(5 * time.Second):
		w.p.fails = append(w.p.fails, "STUCK: "+what+" did not happen within 5s")
		return false
	}
}

// barrier: Ping, collect what the client wrote before it, answer, wait for the completion
func (w *world) barrier(inbound []byte) [][]byte {
	ch := make(chan struct{})
	if err := w.cln.Ping(w.doneCb(0, ch)); err != nil {
		w.p.fails = append(w.p.fails, fmt.Sprintf("barrier Ping failed: %v", err))
		return nil
	}
	got, ok := w.untilPing(5 * time.Second)
	if !ok {
		return got
	}
	w.p.conn.Write(append(append([]byte(nil), inbound...), 0xd0, 0x00))
	waitCh(ch, "the completion of the barrier ping", w)
	return got
}

func gbytes(g hx.Group, from int) []byte {
	b := make([]byte, 0, len(g))
	for _, x := range g[from:] {
		b = append(b, byte(x))
	}
	return b
}

type filt struct {
	f string
	q int
}

func takeFilters(n int, withq bool, l []int64) []filt {
	var res []filt
	for i := 0; i < n; i++ {
		q := 0
		if withq {
			q = int(l[0])
			l = l[1:]
		}
		ln := int(l[0])
		var b []byte
		for _, x := range l[1 : 1+ln] {
			b = append(b, byte(x))
		}
		res = append(res, filt{string(b), q})
		l = l[1+ln:]
	}
	return res
}

func canonObs(ok bool, pkts [][]byte, cbs []cbRec) hx.Group {
	g := hx.Group{1}
	if ok {
		g[0] = 0
	}
	for _, p := range pkts {
		g = append(g, 1, int64(len(p)))
		for _, x := range p {
			g = append(g, int64(x))
		}
	}
	var run [][]int64
	flush := func() {
		sort.Slice(run, func(i, j int) bool {
			a, b := run[i], run[j]
			for k := 0; k < len(a) && k < len(b); k++ {
				if a[k] != b[k] {
					return a[k] < b[k]
				}
			}
			return len(a) < len(b)
		})
		for _, r := range run {
			g = append(g, r...)
		}
		run = nil
	}
	for _, c := range cbs {
		switch c.kind {
		case 2:
			e := []int64{2, int64(c.cb), int64(c.flags), int64(len(c.topic))}
			for _, x := range []byte(c.topic) {
				e = append(e, int64(x))
			}
			e = append(e, int64(len(c.payload)))
			for _, x := range c.payload {
				e = append(e, int64(x))
			}
			run = append(run, e)
		case 3:
			flush()
			er := int64(0)
			if c.err {
				er = 1
			}
			g = append(g, 3, int64(c.cb), int64(c.ack), er)
		case 4:
			flush()
			g = append(g, 4)
		}
	}
	flush()
	return g
}

type runner struct {
	out   *hx.Out
	stats map[string]int
}

func (rn *runner) run(evs []hx.Group) {
	caseNo := rn.out.N
	caseCounter++
	message.VerifSetPacketIDCounter(0)
	ln, err := net.Listen("tcp", "127.0.0.1:0")
	if err != nil {
		panic(err)
	}
	defer ln.Close()
	p := &peer{ln: ln, pkts: make(chan []byte, 4096)}
	w := &world{p: p, cln: &service.Client{ConnectTimeout: 2}}
	ref := newRef()
	connackBytes := gbytes(evs[0], 1)
	accepted := make(chan struct{})
	go func() {
		c, err := ln.Accept()
		if err != nil {
			close(accepted)
			return
		}
		p.conn = c
		// read the CONNECT, answer with the scripted bytes
		var buf []byte
		tmp := make([]byte, 65536)
		for {
			n, err := c.Read(tmp)
			buf = append(buf, tmp[:n]...)
			if _, rest, ok, _ := mq.NextPacket(buf); ok {
				buf = rest
				break
			}
			if err != nil {
				close(accepted)
				return
			}
		}
		c.Write(connackBytes)
		close(accepted)
		for {
			for {
				pk, rest, ok, ferr := mq.NextPacket(buf)
				if ferr != nil {
					p.pkts <- nil
					return
				}
				if !ok {
					break
				}
				p.pkts <- append([]byte(nil), pk...)
				buf = rest
			}
			n, err := c.Read(tmp)
			buf = append(buf, tmp[:n]...)
			if err != nil {
				p.pkts <- nil
				return
			}
		}
	}()
	runtime.GC()
	g0 := runtime.NumGoroutine()
	cm := message.NewConnectMessage()
	cm.SetVersion(4)
	cm.SetClientID([]byte(fmt.Sprintf("vc%d", caseCounter)))
	cm.SetCleanSession(true)
	cm.SetKeepAlive(60)
	cerr := w.cln.Connect("tcp://"+ln.Addr().String(), cm)
	var obs []hx.Group
	switch {
	case cerr == nil:
		obs = append(obs, hx.G(0))
	default:
		if code, ok := cerr.(message.ConnackCode); ok {
			obs = append(obs, hx.G(1, int64(code)))
		} else {
			obs = append(obs, hx.G(2))
		}
	}
	for _, m := range ref.connect(connackBytes, cerr) {
		rn.out.Oracle(caseNo, "%s", m)
	}
	if cerr != nil {
		// no goroutine of the library may stay behind after a refused / failed Connect
		<-accepted
		if p.conn != nil {
			p.conn.Close()
		}
		time.Sleep(30 * time.Millisecond)
		leaked := false
		for i := 0; i < 40; i++ {
			if runtime.NumGoroutine() <= g0+1 {
				break
			}
			time.Sleep(10 * time.Millisecond)
			leaked = i == 39
		}
		if leaked && libraryGoroutines() > 0 {
			rn.out.Oracle(caseNo, "C20: goroutines of the library are still running after Connect returned %v\n%s", cerr, dump())
		}
		rn.out.Case("client", append([]hx.Group{hx.G(bufSize)}, evs[:1]...), obs)
		rn.stats["connect_refused"]++
		return
	}
	rn.stats["connect_ok"]++
	armed := make(chan struct{}, 1)
	reached := make(chan struct{}, 1)
	release := make(chan struct{}, 1)
	service.VerifSetHooks(func(obj interface{}, k int) {
		if k != service.VerifWritten {
			return
		}
		select {
		case <-armed:
			reached <- struct{}{}
			<-release
		default:
		}
	}, nil)
	for _, ev := range evs[1:] {
		if w.closed {
			obs = append(obs, hx.G(98))
			break
		}
		var pkts [][]byte
		ok := true
		switch ev[0] {
		case 1:
			m := message.NewSubscribeMessage()
			m.SetPacketID(uint16(ev[1]))
			for _, f := range takeFilters(int(ev[4]), true, ev[5:]) {
				m.AddTopic([]byte(f.f), byte(f.q))
			}
			var pc service.OnPublishFunc
			if ev[3] != 0 {
				pc = w.pubCb(int(ev[3]))
			}
			ok = w.cln.Subscribe(m, w.doneCb(int(ev[2]), nil), pc) == nil
			// the message object belongs to the application again once the call has returned: it is reused for
			// something else (the request in flight must not depend on it)
			for _, t := range m.Topics() {
				m.RemoveTopic(t)
			}
			m.AddTopic([]byte("reused/after/the/call"), 0)
			m.SetPacketID(uint16(ev[1]) + 7)
			pkts = w.barrier(nil)
		case 2:
			m := message.NewUnsubscribeMessage()
			m.SetPacketID(uint16(ev[1]))
			for _, f := range takeFilters(int(ev[3]), false, ev[4:]) {
				m.AddTopic([]byte(f.f))
			}
			ok = w.cln.Unsubscribe(m, w.doneCb(int(ev[2]), nil)) == nil
			for _, t := range m.Topics() {
				m.RemoveTopic(t)
			}
			m.AddTopic([]byte("reused/after/the/call"))
			m.SetPacketID(uint16(ev[1]) + 7)
			pkts = w.barrier(nil)
		case 3:
			b := gbytes(ev, 6)
			m := message.NewPublishMessage()
			m.SetQoS(byte(ev[1]))
			m.SetTopic(b[:ev[5]])
			m.SetPayload(b[ev[5]:])
			m.SetRetain(ev[2] != 0)
			m.SetPacketID(uint16(ev[3]))
			ok = w.cln.Publish(m, w.doneCbE(int(ev[4]), nil, ev[1] != 0)) == nil
			m.SetTopic([]byte("reused/after/the/call"))
			m.SetPayload([]byte("reused"))
			pkts = w.barrier(nil)
		case 4:
			ch := make(chan struct{})
			ok = w.cln.Ping(w.doneCb(int(ev[1]), ch)) == nil
			got, arrived := w.untilPing(5 * time.Second)
			pkts = append(got, mq.Pingreq())
			if arrived {
				p.conn.Write([]byte{0xd0, 0x00})
				waitCh(ch, "the completion of Ping", w)
			}
		case 5:
			// the bytes are followed by the answer to a barrier ping, so they are processed before it completes
			ch := make(chan struct{})
			w.cln.Ping(w.doneCb(0, ch))
			got, arrived := w.untilPing(5 * time.Second)
			pkts = append(pkts, got...)
			if arrived {
				p.conn.Write(append(gbytes(ev, 1), 0xd0, 0x00))
				wait := time.After(5 * time.Second)
			loop:
				for {
					select {
					case <-ch:
						break loop
					case pk := <-p.pkts:
						if pk == nil { // the bytes ended the connection
							w.closed = true
							break loop
						}
						pkts = append(pkts, pk)
					case <-wait:
						p.fails = append(p.fails, "STUCK: the client neither processed the server's bytes nor closed within 5s")
						break loop
					}
				}
			}
			if !w.closed {
				pkts = append(pkts, w.barrier(nil)...)
			}
		case 6:
			q, pid, done := int(ev[1]), int(ev[2]), int(ev[3])
			topic := gbytes(ev, 5)
			m := message.NewPublishMessage()
			m.SetQoS(byte(q))
			m.SetTopic(topic)
			m.SetPayload([]byte{119})
			m.SetPacketID(uint16(pid))
			armed <- struct{}{}
			ret := make(chan error, 1)
			go func() { ret <- w.cln.Publish(m, w.doneCb(done, nil)) }()
			select {
			case <-reached:
			case <-time.After(5 * time.Second):
				p.fails = append(p.fails, "STUCK: Publish did not reach the point between writing and registering")
			}
			// the peer acknowledges at once; the client processes the acknowledgement before the call registers
			ackTy := mq.PUBACK
			if q == 2 {
				ackTy = mq.PUBREC
			}
			ch := make(chan struct{})
			w.cln.Ping(w.doneCb(0, ch))
			got, arrived := w.untilPing(5 * time.Second)
			pkts = append(pkts, got...)
			if arrived {
				p.conn.Write(append(mq.Ack(ackTy, pid), 0xd0, 0x00))
				waitCh(ch, "the completion of the barrier ping", w)
			}
			release <- struct{}{}
			select {
			case e := <-ret:
				ok = e == nil
			case <-time.After(5 * time.Second):
				p.fails = append(p.fails, "STUCK: Publish did not return")
			}
			pkts = append(pkts, w.barrier(nil)...)
		}
		if w.closed {
			w.record(cbRec{kind: 4})
		}
		cbs := w.takeCbs()
		obs = append(obs, canonObs(ok, pkts, cbs))
		for _, m := range ref.check(ev, ok, pkts, cbs) {
			rn.out.Oracle(caseNo, "%s [event %v]", m, short(ev))
		}
		rn.stats[fmt.Sprintf("event_%d", ev[0])]++
	}
	for _, f := range p.fails {
		rn.out.Oracle(caseNo, "%s", f)
	}
	service.VerifSetHooks(nil, nil)
	done := make(chan struct{})
	go func() { w.cln.Disconnect(); close(done) }()
	select {
	case <-done:
	case <-time.After(5 * time.Second):
		rn.out.Oracle(caseNo, "STUCK: Client.Disconnect did not return within 5s\n%s", dump())
	}
	if p.conn != nil {
		p.conn.Close()
	}
	rn.out.Case("client", append([]hx.Group{hx.G(bufSize)}, evs...), obs)
}

func short(g hx.Group) string {
	s := fmt.Sprint([]int64(g))
	if len(s) > 140 {
		s = s[:140] + "..."
	}
	return s
}

func dump() string {
	b := make([]byte, 1<<16)
	return string(b[:runtime.Stack(b, true)])
}

func libraryGoroutines() int {
	n := 0
	for _, g := range strings.Split(dump(), "\n\n") {
		if strings.Contains(g, "go-mqtt/service.") {
			n++
		}
	}
	return n
}

func main() {
	logging.SetLevel(logging.OffLevel)
	outPrefix := "/verif/replays/tmp/client"
	if len(os.Args) > 1 {
		outPrefix = os.Args[1]
	}
	rn := &runner{out: hx.NewOut(outPrefix), stats: map[string]int{}}
	finish := func() {
		rn.out.Close()
		m := map[string]interface{}{"cases": rn.out.N}
		for k, v := range rn.stats {
			m[k] = v
		}
		b, _ := json.MarshalIndent(m, "", " ")
		os.WriteFile(outPrefix+".stats", b, 0o644)
	}
	if len(os.Args) > 3 && os.Args[2] == "-cases" {
		for _, c := range hx.ReadCases(os.Args[3]) {
			rn.run(c[1:])
		}
		finish()
		return
	}
	r := hx.NewRng(hx.EnvSeed())
	n := hx.EnvInt("VERIF_CLIENT_N", 60)
	for _, h := range corpus() {
		rn.run(h)
		rn.stats["corpus"]++
	}
	for i := 0; i < n; i++ {
		rn.run(genScript(r))
		rn.stats["script"]++
	}
	finish()
}
