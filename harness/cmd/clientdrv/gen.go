package main

import (
	"verifharness/hx"
	"verifharness/mq"
)

var cFilters = []string{"a", "a/b", "a/+", "a/#", "+/b", "#", "b/c", "c"}
var cNames = []string{"a", "a/b", "b/c", "a/c", "c", "x/y"}

func evSub(pid, done, pubcb int, fs []filt) hx.Group {
	g := hx.Group{1, int64(pid), int64(done), int64(pubcb), int64(len(fs))}
	for _, f := range fs {
		g = append(g, int64(f.q), int64(len(f.f)))
		for _, x := range []byte(f.f) {
			g = append(g, int64(x))
		}
	}
	return g
}

func evUnsub(pid, done int, fs []string) hx.Group {
	g := hx.Group{2, int64(pid), int64(done), int64(len(fs))}
	for _, f := range fs {
		g = append(g, int64(len(f)))
		for _, x := range []byte(f) {
			g = append(g, int64(x))
		}
	}
	return g
}

func evPub(q int, ret bool, pid, done int, topic string, payload []byte) hx.Group {
	r := int64(0)
	if ret {
		r = 1
	}
	return hx.GB([]int64{3, int64(q), r, int64(pid), int64(done), int64(len(topic))}, append([]byte(topic), payload...))
}

func evIn(b []byte) hx.Group { return hx.GB([]int64{5}, b) }

func connack(sp bool, code int) []byte {
	b := byte(0)
	if sp {
		b = 1
	}
	return []byte{0x20, 0x02, b, byte(code)}
}

// requests of one kind acknowledged out of order, so that one acknowledgement releases a batch of completions;
// some completion callbacks return an error (ids = 3 mod 7), some SUBSCRIBEs have no completion callback and are
// refused (0x80): every other completion must still fire, and granted subscriptions must still work
func genBatches(r *hx.Rng) []hx.Group {
	evs := []hx.Group{hx.GB([]int64{0}, connack(false, 0))}
	cb := 7 * (1 + r.Intn(3)) // the next ids are 1, 2, 3 (mod 7): one of the first three callbacks fails
	pid := 10 + r.Intn(50)
	for round, n := 0, 1+r.Intn(3); round < n; round++ {
		switch r.Intn(3) {
		case 0, 1: // QoS 1 / QoS 2 publishes
			q := 1 + r.Intn(2)
			var pids []int
			for k, m := 0, 2+r.Intn(3); k < m; k++ {
				pid++
				cb++
				evs = append(evs, evPub(q, false, pid, cb, cNames[r.Intn(len(cNames))], r.Bytes(1+r.Intn(3))))
				pids = append(pids, pid)
			}
			if q == 2 {
				for _, p := range pids {
					evs = append(evs, evIn(mq.Ack(mq.PUBREC, p)))
				}
			}
			// the acknowledgements: the youngest first, or a random order
			order := r.Intn(2)
			for len(pids) > 0 {
				j := len(pids) - 1
				if order == 1 {
					j = r.Intn(len(pids))
				}
				evs = append(evs, evIn(mq.Ack(map[int]int{1: mq.PUBACK, 2: mq.PUBCOMP}[q], pids[j])))
				pids = append(pids[:j], pids[j+1:]...)
			}
		case 2: // SUBSCRIBEs: the first is refused and may have no completion callback
			type sreq struct {
				pid   int
				f     string
				codes byte
			}
			var reqs []sreq
			for k, m := 0, 2+r.Intn(2); k < m; k++ {
				pid++
				cb++
				done := cb
				code := byte(r.Intn(3))
				if k == 0 {
					code = 0x80
					if r.Bool() {
						done = 0
					}
				}
				f := cFilters[r.Intn(len(cFilters))]
				evs = append(evs, evSub(pid, done, 100+cb, []filt{{f, int(code & 3)}}))
				reqs = append(reqs, sreq{pid, f, code})
			}
			for j := len(reqs) - 1; j >= 0; j-- {
				evs = append(evs, evIn(mq.Fixed(mq.SUBACK, 0, append(mq.U16(reqs[j].pid), reqs[j].codes))))
			}
			for k := 0; k < 3; k++ {
				evs = append(evs, evIn(mq.Publish(cNames[r.Intn(len(cNames))], r.Bytes(1+r.Intn(3)), 0, false, false, 0)))
			}
		}
	}
	return evs
}

// Unsubscribe requests with several filters of which some are not (or no longer) held locally - never
// subscribed, refused by the server, already unsubscribed - in every position; the server keeps delivering
// on all of them before and after
func genUnsubMulti(r *hx.Rng) []hx.Group {
	evs := []hx.Group{hx.GB([]int64{0}, connack(false, 0))}
	pool := []string{"a", "a/b", "b/c", "c", "a/+", "x/y"}
	pid, cb := 10+r.Intn(50), 10
	held := map[string]bool{}
	traffic := func() {
		for k := 0; k < 4; k++ {
			evs = append(evs, evIn(mq.Publish(cNames[r.Intn(len(cNames))], r.Bytes(1+r.Intn(3)), 0, false, false, 0)))
		}
	}
	for round, n := 0, 2+r.Intn(3); round < n; round++ {
		// subscribe two or three filters, one of them possibly refused
		var fs []filt
		var codes []byte
		seen := map[string]bool{}
		for k, m := 0, 2+r.Intn(2); k < m; k++ {
			f := pool[r.Intn(len(pool))]
			if seen[f] {
				continue
			}
			seen[f] = true
			fs = append(fs, filt{f, 0})
			c := byte(0)
			if r.Chance(30) {
				c = 0x80
			} else {
				held[f] = true
			}
			codes = append(codes, c)
		}
		pid++
		cb++
		evs = append(evs, evSub(pid, cb, 100+cb, fs))
		evs = append(evs, evIn(mq.Fixed(mq.SUBACK, 0, append(mq.U16(pid), codes...))))
		traffic()
		// unsubscribe a mix of held and not held filters
		var ufs []string
		useen := map[string]bool{}
		for k, m := 0, 2+r.Intn(2); k < m; k++ {
			f := pool[r.Intn(len(pool))]
			if !useen[f] {
				useen[f] = true
				ufs = append(ufs, f)
			}
		}
		pid++
		cb++
		evs = append(evs, evUnsub(pid, cb, ufs))
		evs = append(evs, evIn(mq.Ack(mq.UNSUBACK, pid)))
		for _, f := range ufs {
			delete(held, f)
		}
		traffic()
	}
	return evs
}

// more requests in flight than the initial capacity of the acknowledgement queue (16), after a number of completed
// ones that leaves the queue's head anywhere: every one of them must complete, in order, once acknowledged
func genDeepBurst(r *hx.Rng) []hx.Group {
	evs := []hx.Group{hx.GB([]int64{0}, connack(false, 0))}
	pid, cb := 10+r.Intn(50), 20
	q := 1 + r.Intn(2)
	term := map[int]int{1: mq.PUBACK, 2: mq.PUBCOMP}[q]
	for k, n := 0, r.Intn(20); k < n; k++ { // completed one at a time
		pid++
		cb++
		evs = append(evs, evPub(q, false, pid, cb, "o", r.Bytes(1)))
		if q == 2 {
			evs = append(evs, evIn(mq.Ack(mq.PUBREC, pid)))
		}
		evs = append(evs, evIn(mq.Ack(term, pid)))
	}
	var open []int
	for k, n := 0, 14+r.Intn(22); k < n; k++ {
		pid++
		cb++
		if cb%7 == 3 {
			cb++ // (callbacks of these ids return an error: not here)
		}
		evs = append(evs, evPub(q, false, pid, cb, "o", r.Bytes(1+r.Intn(2))))
		open = append(open, pid)
	}
	if q == 2 {
		for _, p := range open {
			evs = append(evs, evIn(mq.Ack(mq.PUBREC, p)))
		}
	}
	for _, p := range open {
		evs = append(evs, evIn(mq.Ack(term, p)))
	}
	return evs
}

func genScript(r *hx.Rng) []hx.Group {
	switch k := r.Intn(100); {
	case k < 8:
		return genDeepBurst(r)
	case k < 15:
		return genBatches(r)
	case k < 30:
		return genUnsubMulti(r)
	}
	var evs []hx.Group
	// the answer to CONNECT
	switch k := r.Intn(100); {
	case k < 70:
		evs = append(evs, hx.GB([]int64{0}, connack(r.Bool(), 0)))
	case k < 88:
		evs = append(evs, hx.GB([]int64{0}, connack(false, 1+r.Intn(5))))
		return evs
	default:
		bad := [][]byte{{0x20, 0x02, 0x02, 0x00}, {0x20, 0x02, 0x00, 0x09}, {0x20, 0x01, 0x00}, {0x30, 0x02, 0x00, 0x00}, {0x20, 0x03, 0x00, 0x00, 0x00}, {0x21, 0x02, 0x00, 0x00}}
		evs = append(evs, hx.GB([]int64{0}, bad[r.Intn(len(bad))]))
		return evs
	}
	type req struct {
		pid int
		fs  []filt
	}
	var pendingSubs []req  // SUBSCRIBE sent, not yet acknowledged
	var pendingUnsub []int // UNSUBSCRIBE sent
	var pendingPub1 []int  // QoS 1 sent
	var pendingPub2 []int  // QoS 2 sent, PUBREC not yet
	var pendingComp []int  // QoS 2, PUBREC answered, PUBCOMP outstanding
	var in2 []int          // inbound QoS 2 awaiting PUBREL
	nextPid := 1 + r.Intn(50)
	nextCb := 10
	spid := 300 + r.Intn(100)
	n := 8 + r.Intn(25)
	for i := 0; i < n; i++ {
		switch k := r.Intn(100); {
		case k < 16: // Subscribe
			nf := 1 + r.Intn(3)
			var fs []filt
			for j := 0; j < nf; j++ {
				f := cFilters[r.Intn(len(cFilters))]
				if r.Chance(3) {
					f = "a/#/b"
				}
				fs = append(fs, filt{f, r.Intn(3)})
			}
			nextPid++
			pid := nextPid
			if r.Chance(30) {
				pid = 0 // numbered by the library
			}
			nextCb++
			pc := 100 + nextCb
			if r.Chance(3) {
				pc = 0
			}
			done := nextCb
			if r.Chance(8) {
				done = 0 // no completion callback
			}
			evs = append(evs, evSub(pid, done, pc, fs))
			if pc != 0 && pid != 0 {
				pendingSubs = append(pendingSubs, req{pid, fs})
			}
		case k < 26 && len(pendingSubs) > 0: // SUBACK (in order mostly)
			j := 0
			if r.Chance(15) {
				j = r.Intn(len(pendingSubs))
			}
			rq := pendingSubs[j]
			pendingSubs = append(pendingSubs[:j], pendingSubs[j+1:]...)
			seen := map[string]bool{}
			var codes []byte
			for _, f := range rq.fs {
				if seen[f.f] { // AddTopic keeps one entry per topic
					continue
				}
				seen[f.f] = true
				c := byte(f.q)
				if r.Chance(10) {
					c = 0x80
				}
				codes = append(codes, c)
			}
			if r.Chance(4) {
				codes = append(codes, 0)
			}
			evs = append(evs, evIn(mq.Fixed(mq.SUBACK, 0, append(mq.U16(rq.pid), codes...))))
		case k < 31: // Unsubscribe
			nextPid++
			nextCb++
			ufs := []string{cFilters[r.Intn(len(cFilters))]}
			for r.Chance(35) && len(ufs) < 3 {
				ufs = append(ufs, cFilters[r.Intn(len(cFilters))]) // several filters, held locally or not
			}
			evs = append(evs, evUnsub(nextPid, nextCb, ufs))
			pendingUnsub = append(pendingUnsub, nextPid)
		case k < 36 && len(pendingUnsub) > 0:
			pid := pendingUnsub[0]
			pendingUnsub = pendingUnsub[1:]
			evs = append(evs, evIn(mq.Ack(mq.UNSUBACK, pid)))
		case k < 50: // Publish
			q := r.Intn(3)
			nextPid++
			nextCb++
			pid := nextPid
			if q > 0 && r.Chance(30) {
				pid = 0
			}
			evs = append(evs, evPub(q, r.Chance(15), pid, nextCb, cNames[r.Intn(len(cNames))], r.Bytes(r.Intn(6))))
			if pid != 0 {
				switch q {
				case 1:
					pendingPub1 = append(pendingPub1, pid)
				case 2:
					pendingPub2 = append(pendingPub2, pid)
				}
			}
		case k < 58 && len(pendingPub1) > 0: // PUBACK, sometimes out of order
			j := 0
			if r.Chance(25) {
				j = r.Intn(len(pendingPub1))
			}
			pid := pendingPub1[j]
			pendingPub1 = append(pendingPub1[:j], pendingPub1[j+1:]...)
			evs = append(evs, evIn(mq.Ack(mq.PUBACK, pid)))
		case k < 64 && len(pendingPub2) > 0:
			pid := pendingPub2[0]
			pendingPub2 = pendingPub2[1:]
			pendingComp = append(pendingComp, pid)
			evs = append(evs, evIn(mq.Ack(mq.PUBREC, pid)))
		case k < 70 && len(pendingComp) > 0:
			j := 0
			if r.Chance(20) {
				j = r.Intn(len(pendingComp))
			}
			pid := pendingComp[j]
			pendingComp = append(pendingComp[:j], pendingComp[j+1:]...)
			evs = append(evs, evIn(mq.Ack(mq.PUBCOMP, pid)))
		case k < 88: // the server delivers an application message
			q := r.Intn(3)
			spid++
			t := cNames[r.Intn(len(cNames))]
			b := mq.Publish(t, r.Bytes(1+r.Intn(5)), q, r.Chance(15), false, spid)
			if q == 2 {
				in2 = append(in2, spid)
				if r.Chance(20) {
					b = append(b, mq.Publish(t, []byte("dup"), 2, false, true, spid)...)
				}
			}
			evs = append(evs, evIn(b))
		case k < 93 && len(in2) > 0:
			pid := in2[0]
			in2 = in2[1:]
			b := mq.Ack(mq.PUBREL, pid)
			if r.Chance(20) {
				b = append(b, mq.Ack(mq.PUBREL, pid)...)
			}
			evs = append(evs, evIn(b))
		case k < 96:
			nextCb++
			evs = append(evs, hx.G(4, int64(nextCb)))
		case k < 98: // acknowledgements for unknown identifiers
			evs = append(evs, evIn(mq.Ack([]int{mq.PUBACK, mq.PUBREC, mq.PUBCOMP, mq.UNSUBACK}[r.Intn(4)], 60000+r.Intn(100))))
		default: // the window: the acknowledgement is processed before the call registers the request
			nextPid++
			nextCb++
			q := 1 + r.Intn(2)
			evs = append(evs, hx.GB([]int64{6, int64(q), int64(nextPid), int64(nextCb), 1}, []byte("w")))
			if q == 2 {
				pendingComp = append(pendingComp, nextPid)
			}
		}
	}
	return evs
}

func corpus() [][]hx.Group {
	ok := hx.GB([]int64{0}, connack(false, 0))
	return [][]hx.Group{
		{hx.GB([]int64{0}, connack(false, 5))},
		{hx.GB([]int64{0}, []byte{0x20, 0x02, 0x00})},
		// subscribe, SUBACK, matching and non-matching deliveries, unsubscribe, nothing afterwards
		{ok, evSub(5, 1, 101, []filt{{"a/+", 1}, {"c", 0}}), evIn(mq.Fixed(mq.SUBACK, 0, []byte{0, 5, 1, 0})), evIn(mq.Publish("a/b", []byte("1"), 1, false, false, 400)),
			evIn(mq.Publish("x/y", []byte("2"), 0, false, false, 0)), evUnsub(6, 2, []string{"a/+"}), evIn(mq.Ack(mq.UNSUBACK, 6)), evIn(mq.Publish("a/b", []byte("3"), 0, false, false, 0)), evIn(mq.Publish("c", []byte("4"), 0, true, false, 0))},
		// QoS 2 inbound with duplicates; QoS 2 outbound; completion order
		{ok, evSub(5, 1, 101, []filt{{"#", 2}}), evIn(mq.Fixed(mq.SUBACK, 0, []byte{0, 5, 2})), evIn(append(mq.Publish("q", []byte("m"), 2, false, false, 9), mq.Publish("q", []byte("m"), 2, false, true, 9)...)),
			evIn(mq.Ack(mq.PUBREL, 9)), evIn(mq.Ack(mq.PUBREL, 9)), evPub(2, false, 20, 3, "o", []byte("x")), evPub(1, false, 21, 4, "o", []byte("y")), evPub(1, false, 22, 5, "o", []byte("z")),
			evIn(mq.Ack(mq.PUBACK, 22)), evIn(mq.Ack(mq.PUBACK, 21)), evIn(mq.Ack(mq.PUBREC, 20)), evIn(mq.Ack(mq.PUBCOMP, 20)), hx.G(4, 6)},
		// finding F21: overlapping filters in one request; Unsubscribe removes another request's callback
		{ok, evSub(5, 1, 101, []filt{{"a/+", 0}, {"a/#", 0}}), evIn(mq.Fixed(mq.SUBACK, 0, []byte{0, 5, 0, 0})), evIn(mq.Publish("a/b", []byte("1"), 0, false, false, 0)),
			evSub(6, 2, 102, []filt{{"a/+", 0}}), evIn(mq.Fixed(mq.SUBACK, 0, []byte{0, 6, 0})), evUnsub(7, 3, []string{"a/+"}), evIn(mq.Ack(mq.UNSUBACK, 7)), evIn(mq.Publish("a/b", []byte("2"), 0, false, false, 0))},
		// finding F16: acknowledgement processed before the request is registered
		{ok, hx.GB([]int64{6, 1, 30, 7, 1}, []byte("w")), evPub(1, false, 31, 8, "o", []byte("y")), evIn(mq.Ack(mq.PUBACK, 31)), evIn(mq.Ack(mq.PUBACK, 30))},
		// finding F22: a request numbered by the library gets the identifier the application chose for one still in flight
		{ok, evPub(1, false, 1, 8, "o", []byte("x")), evPub(1, false, 0, 9, "o", []byte("y")), evIn(mq.Ack(mq.PUBACK, 1)), evIn(mq.Ack(mq.PUBACK, 1))},
	}
}
