package main

// Reference for the client library, written from the texts of C20 and C12 (and the client role of
// C02): what Connect must return, which packets answer which, when completion callbacks fire and
// which publish callbacks a delivered application message invokes.

import (
	"fmt"
	"sort"
	"strings"

	"github.com/mdzio/go-mqtt/message"
	"verifharness/hx"
	"verifharness/mq"
)

type rreq struct {
	pid       int
	done      int
	pubcb     int
	filters   []string // as requested (one entry per distinct filter)
	granted   map[string]bool
	acked     bool
	completed bool
	window    bool // issued through the forced ack-before-register window (finding F16)
	f22       bool // shares its identifier with a request of the other numbering (finding F22)
	stage     int  // QoS 2 outbound: 0 sent, 1 PUBREC seen
}

type refClient struct {
	subs, unsubs, pub1, pub2 []*rreq
	active                   []*rreq // completed subscribe requests
	in2                      map[int]mq.Pub
	inflight                 map[int]bool // identifiers of requests written and not yet acknowledged
	auto                     map[int]bool // ... and whether the library numbered the request
	stuck                    [4]string    // per queue: the listed finding that blocks it
	f16                      bool
}

func newRef() *refClient { return &refClient{in2: map[int]mq.Pub{}, inflight: map[int]bool{}, auto: map[int]bool{}} }

func (r *refClient) connect(connack []byte, err error) []string {
	p, rest, ok, ferr := mq.NextPacket(connack)
	wellFormed := ferr == nil && ok && len(rest) == 0 && mq.Type(p) == mq.CONNACK
	code := -1
	if wellFormed {
		if _, c, e := mq.ParseConnack(p); e == nil && c <= 5 {
			code = c
		}
	}
	switch {
	case code == 0 && err != nil:
		return []string{fmt.Sprintf("C20: the server answered CONNACK code 0 but Connect returned %v", err)}
	case code > 0:
		if cc, isCode := err.(message.ConnackCode); !isCode || int(cc) != code {
			return []string{fmt.Sprintf("C20: the server answered CONNACK code %d but Connect returned %v", code, err)}
		}
	case code < 0 && err == nil:
		return []string{fmt.Sprintf("C20: Connect succeeded although the server answered %x", connack)}
	}
	return nil
}

func matches(f, t string) bool {
	var rec func(fl, tl []string) bool
	rec = func(fl, tl []string) bool {
		switch {
		case len(fl) == 1 && fl[0] == "#":
			return true
		case len(fl) == 0 || len(tl) == 0:
			return len(fl) == 0 && len(tl) == 0
		case fl[0] == "+" || fl[0] == tl[0]:
			return rec(fl[1:], tl[1:])
		}
		return false
	}
	return rec(strings.Split(f, "/"), strings.Split(t, "/"))
}

func validFilter(f string) bool {
	if f == "" {
		return false
	}
	ls := strings.Split(f, "/")
	for i, l := range ls {
		if strings.ContainsAny(l, "#+") && len(l) != 1 {
			return false
		}
		if l == "#" && i != len(ls)-1 {
			return false
		}
	}
	return true
}

func (r *refClient) check(ev hx.Group, ok bool, pkts [][]byte, cbs []cbRec) []string {
	var fails []string
	fail := func(format string, a ...interface{}) { fails = append(fails, fmt.Sprintf(format, a...)) }
	var wantPkts []string         // acknowledgements the client must write in this event
	wantCalls := map[string]int{} // publish callbacks: "cb topic payload" -> count
	f21 := false

	deliver := func(p mq.Pub) {
		for _, rq := range r.active {
			n := 0
			for f := range rq.granted {
				if matches(f, p.Topic) {
					n++
				}
			}
			if n > 0 {
				wantCalls[fmt.Sprintf("cb=%d topic=%q payload=%x", rq.pubcb, p.Topic, p.Payload)]++
				if n > 1 {
					f21 = true // overlapping filters of one request: the library calls once per filter
				}
			}
		}
	}
	// asked: the identifier the application gave the request (0 = numbered by the library)
	newReq := func(kind string, pid, done int, asked int64) *rreq {
		if pid == 0 {
			fail("C12: the %s request was written with packet identifier 0", kind)
		}
		collided := false
		if r.inflight[pid] {
			if (asked == 0) != r.auto[pid] {
				collided = true
				// finding F22: the library numbers an id-less request from a process-wide counter without looking at the
				// identifiers the application chose for requests still in flight
				fail("F22-auto-id-collision: (C12) packet identifier %d is used by two requests in flight: one was numbered by the library, the other by the application", pid)
			} else {
				fail("C12: packet identifier %d is used by two requests in flight", pid)
			}
		}
		r.inflight[pid] = true
		r.auto[pid] = asked == 0
		return &rreq{pid: pid, done: done, granted: map[string]bool{}, f22: collided}
	}

	switch ev[0] {
	case 1:
		if ok && len(pkts) == 1 && mq.Type(pkts[0]) == mq.SUBSCRIBE {
			b := pkts[0][len(pkts[0])-bodyLen(pkts[0]):]
			rq := newReq("SUBSCRIBE", int(b[0])<<8|int(b[1]), int(ev[2]), ev[1])
			rq.pubcb = int(ev[3])
			seen := map[string]bool{}
			for _, f := range takeFilters(int(ev[4]), true, ev[5:]) {
				if !seen[f.f] {
					seen[f.f] = true
					rq.filters = append(rq.filters, f.f)
				}
			}
			r.subs = append(r.subs, rq)
		} else if ev[3] != 0 {
			fail("C12: Subscribe did not write exactly one SUBSCRIBE packet (ok=%v, packets %x)", ok, pkts)
		}
	case 2:
		if ok && len(pkts) == 1 && mq.Type(pkts[0]) == mq.UNSUBSCRIBE {
			b := pkts[0][len(pkts[0])-bodyLen(pkts[0]):]
			rq := newReq("UNSUBSCRIBE", int(b[0])<<8|int(b[1]), int(ev[2]), ev[1])
			for _, f := range takeFilters(int(ev[3]), false, ev[4:]) {
				rq.filters = append(rq.filters, f.f)
			}
			r.unsubs = append(r.unsubs, rq)
		} else {
			fail("C12: Unsubscribe did not write exactly one UNSUBSCRIBE packet (ok=%v, packets %x)", ok, pkts)
		}
	case 3, 6:
		q, done := int(ev[1]), int(ev[4])
		if ev[0] == 6 {
			done = int(ev[3])
		}
		var pub mq.Pub
		found := false
		for _, p := range pkts {
			if mq.Type(p) == mq.PUBLISH {
				if pp, err := mq.ParsePublish(p); err == nil {
					pub, found = pp, true
				}
			}
		}
		switch {
		case !ok || !found:
			fail("C12: Publish did not write a PUBLISH packet (ok=%v, packets %x)", ok, pkts)
		case q == 0:
			if done != 0 {
				// QoS 0 completes as soon as it is queued
				rq := &rreq{done: done, acked: true}
				r.pub1 = append([]*rreq{rq}, r.pub1...) // checked below like any acknowledged head entry
			}
		default:
			asked := ev[3]
			if ev[0] == 6 {
				asked = ev[2]
			}
			rq := newReq("PUBLISH", pub.PID, done, asked)
			rq.window = ev[0] == 6
			if ev[0] == 6 {
				r.f16 = true
				// the peer's acknowledgement was processed inside the window
				if q == 1 {
					rq.acked = true
					delete(r.inflight, pub.PID)
				} else {
					rq.stage = 1
					wantPkts = append(wantPkts, fmt.Sprintf("PUBREL id=%d", pub.PID))
				}
			}
			if q == 1 {
				r.pub1 = append(r.pub1, rq)
			} else {
				r.pub2 = append(r.pub2, rq)
			}
		}
	case 4:
		wantPkts = append(wantPkts, "PINGREQ")
	case 5:
		b := gbytes(ev, 1)
		for {
			p, rest, okp, err := mq.NextPacket(b)
			if err != nil || !okp {
				break
			}
			b = rest
			find := func(l []*rreq, pid int) *rreq {
				for _, x := range l {
					if x.pid == pid && !x.acked {
						return x
					}
				}
				return nil
			}
			switch mq.Type(p) {
			case mq.PUBLISH:
				pub, perr := mq.ParsePublish(p)
				if perr != nil {
					continue
				}
				switch pub.QoS {
				case 0:
					deliver(pub)
				case 1:
					wantPkts = append(wantPkts, fmt.Sprintf("PUBACK id=%d", pub.PID))
					deliver(pub)
				case 2:
					wantPkts = append(wantPkts, fmt.Sprintf("PUBREC id=%d", pub.PID))
					if _, open := r.in2[pub.PID]; !open {
						r.in2[pub.PID] = pub
					}
				}
			case mq.PUBREL:
				pid, _ := mq.ParseAck(p)
				if pub, open := r.in2[pid]; open {
					deliver(pub)
					delete(r.in2, pid)
				}
				wantPkts = append(wantPkts, fmt.Sprintf("PUBCOMP id=%d", pid))
			case mq.PUBACK:
				pid, _ := mq.ParseAck(p)
				if x := find(r.pub1, pid); x != nil {
					x.acked = true
					delete(r.inflight, pid)
				}
			case mq.PUBREC:
				pid, _ := mq.ParseAck(p)
				wantPkts = append(wantPkts, fmt.Sprintf("PUBREL id=%d", pid))
				if x := find(r.pub2, pid); x != nil {
					x.stage = 1
				}
			case mq.PUBCOMP:
				pid, _ := mq.ParseAck(p)
				if x := find(r.pub2, pid); x != nil {
					x.acked = true
					delete(r.inflight, pid)
				}
			case mq.SUBACK:
				pid, codes, _ := mq.ParseSuback(p)
				if x := find(r.subs, pid); x != nil {
					x.acked = true
					delete(r.inflight, pid)
					if len(codes) == len(x.filters) {
						for i, f := range x.filters {
							if codes[i] != 0x80 && validFilter(f) {
								x.granted[f] = true
							}
						}
					}
				}
			case mq.UNSUBACK:
				pid, _ := mq.ParseAck(p)
				if x := find(r.unsubs, pid); x != nil {
					x.acked = true
					delete(r.inflight, pid)
				}
			}
		}
	}

	// completions observed in this event
	gotCalls := map[string]int{}
	for _, c := range cbs {
		switch c.kind {
		case 2:
			gotCalls[fmt.Sprintf("cb=%d topic=%q payload=%x", c.cb, c.topic, c.payload)]++
		case 3:
			var hit *rreq
			for _, l := range [][]*rreq{r.subs, r.unsubs, r.pub1, r.pub2} {
				for _, x := range l {
					if x.done == c.cb {
						hit = x
					}
				}
			}
			switch {
			case hit == nil:
				if ev[0] != 4 || int(ev[1]) != c.cb {
					fail("C12: completion callback %d fired for no known request", c.cb)
				}
			case hit.completed:
				fail("C12: completion callback %d fired twice", c.cb)
			case !hit.acked:
				fail("C12: completion callback %d fired before the terminal acknowledgement arrived", c.cb)
			default:
				hit.completed = true
			}
		}
	}
	if ev[0] == 4 {
		seen := false
		for _, c := range cbs {
			if c.kind == 3 && c.cb == int(ev[1]) && c.ack == mq.PINGRESP {
				seen = true
			}
		}
		if !seen {
			fail("C12: the completion callback of Ping did not fire after the PINGRESP")
		}
	}
	// FIFO rule: a request whose acknowledgement and those of all earlier requests of its kind have
	// arrived must have completed by now; completed subscribe requests become active, completed
	// unsubscribe requests end their filters
	for i, l := range []*[]*rreq{&r.subs, &r.unsubs, &r.pub1, &r.pub2} {
		for len(*l) > 0 && (*l)[0].acked {
			x := (*l)[0]
			if x.done != 0 && !x.completed {
				// a listed finding explains a missing completion exactly when the request itself is its witness, or
				// when it waits behind such a request in the same queue (released in order only)
				tag := "C12"
				if x.window {
					r.stuck[i] = "F16-ack-before-register"
				}
				if x.f22 {
					r.stuck[i] = "F22-auto-id-collision"
				}
				if r.stuck[i] != "" {
					tag = r.stuck[i] + ": (C12)"
				}
				fail("%s: request id=%d was acknowledged (and so were all earlier ones) but its completion callback %d has not fired", tag, x.pid, x.done)
				break
			}
			*l = (*l)[1:]
			if l == &r.subs {
				r.active = append(r.active, x)
			}
			if l == &r.unsubs {
				for _, f := range x.filters {
					for _, a := range r.active {
						delete(a.granted, f)
					}
				}
			}
		}
	}
	// packets
	var gotPkts []string
	for _, p := range pkts {
		switch mq.Type(p) {
		case mq.PUBACK, mq.PUBREC, mq.PUBREL, mq.PUBCOMP:
			pid, _ := mq.ParseAck(p)
			gotPkts = append(gotPkts, fmt.Sprintf("%s id=%d", map[int]string{4: "PUBACK", 5: "PUBREC", 6: "PUBREL", 7: "PUBCOMP"}[mq.Type(p)], pid))
		case mq.PINGREQ:
			gotPkts = append(gotPkts, "PINGREQ")
		}
	}
	sort.Strings(gotPkts)
	sort.Strings(wantPkts)
	if strings.Join(gotPkts, ",") != strings.Join(wantPkts, ",") {
		prop := "C02"
		if strings.Contains(strings.Join(wantPkts, ",")+strings.Join(gotPkts, ","), "PUBREL") {
			prop = "C12"
		}
		fail("%s: the client answered with %v, expected %v", prop, gotPkts, wantPkts)
	}
	// publish callbacks
	same := len(gotCalls) == len(wantCalls)
	for k, n := range wantCalls {
		if gotCalls[k] != n {
			same = false
		}
	}
	if !same {
		tag := "C20"
		if f21 {
			tag = "F21-overlap: (C20)"
		}
		fail("%s: publish callbacks invoked %v, expected %v", tag, gotCalls, wantCalls)
	}
	return fails
}

func bodyLen(p []byte) int {
	v, mul := 0, 1
	for i := 1; i <= 4 && i < len(p); i++ {
		v += int(p[i]&0x7f) * mul
		mul *= 128
		if p[i] < 0x80 {
			break
		}
	}
	return v
}
