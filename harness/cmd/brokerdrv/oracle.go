package main

// Reference broker: the specification-level oracle of the broker properties, written from the
// property texts (MQTT 3.1.1) and independent of the library and of the Coq model.  It predicts,
// event by event, the packets every connection must receive, and reports every difference with
// the id of the property it falls under.
//
// Listed findings are attributed EXACTLY: besides the specification-level reference, three variants
// run in lockstep that differ from it only by what a listed finding says the library does instead
// (F7: topic levels as the splitter produces them; F18: QoS 2 exchanges released in arrival order;
// both).  A failure of the specification-level reference is tagged with a finding only if the
// variant for that finding predicts precisely what the connection in question received.

import (
	"bytes"
	"fmt"
	"sort"
	"strings"

	"verifharness/hx"
	"verifharness/mq"
)

type rmsg struct {
	payload string
	qos     int
}

type rpub struct {
	topic   string
	payload []byte
	qos     int
	retain  bool
}

type rsub struct {
	filter  string
	qos     int
	resumed bool // installed from the stored session when the connection was accepted
	kept    bool // a later SUBSCRIBE of the connection named the filter again in an entry that was refused
}

type rconn struct {
	cid      string
	clean    bool
	will     *rpub
	subs     map[string]rsub // key of the filter -> filter, granted QoS
	topics   map[string]int  // session state: filter string -> QoS
	q2       map[int]rpub    // open incoming QoS 2 exchanges
	q2seq    []int           // their order of arrival
	q2done   map[int]bool    // (fifo variant) PUBREL seen, not yet released
	live     bool
	inflight map[int]int // QoS>0 PUBLISH identifiers delivered to this connection and not acknowledged
}

type q2state struct {
	q2     map[int]rpub
	q2seq  []int
	q2done map[int]bool
}

type rret struct {
	topic string
	m     rmsg
}

type refBroker struct {
	conns       map[int]*rconn
	sessQ2      map[string]q2state // open QoS 2 exchanges are session state (CleanSession=0)
	sessions    map[string]map[string]int
	retained    map[string]rret
	inproc      map[int]map[string]rsub
	lastRefused bool // the event just checked was a first packet that must be refused
	quirk       bool // variant F7: topic levels as the library's splitter produces them
	fifo        bool // variant F18: QoS 2 exchanges are released in the order of arrival only
	closed      bool
}

func newRef(quirk, fifo bool) *refBroker {
	return &refBroker{conns: map[int]*rconn{}, sessQ2: map[string]q2state{}, sessions: map[string]map[string]int{}, retained: map[string]rret{}, inproc: map[int]map[string]rsub{},
		quirk: quirk, fifo: fifo}
}

// ---------- variant F7: what the library is known to do with empty levels ----------

// the levels the splitter produces: a leading empty level (of the string or of any remainder) becomes
// "+", a trailing empty level is dropped; ok=false where the splitter refuses the string
func qsplit(t string) (ls []string, ok bool) {
	rest := t
	for len(rest) > 0 {
		i := strings.IndexByte(rest, '/')
		var l string
		switch {
		case i < 0:
			l, rest = rest, ""
		case i == 0:
			l, rest = "+", rest[1:]
		default:
			l, rest = rest[:i], rest[i+1:]
			if l == "#" {
				return nil, false
			}
		}
		if strings.ContainsAny(l, "#+") && len(l) != 1 {
			return nil, false
		}
		if strings.HasPrefix(l, "$") {
			return nil, false
		}
		ls = append(ls, l)
	}
	return ls, true
}

func (rb *refBroker) key(s string) string {
	if rb.quirk {
		ls, _ := qsplit(s)
		return strings.Join(ls, "\x00")
	}
	return s
}

func (rb *refBroker) valid(f string) bool {
	if rb.quirk {
		_, ok := qsplit(f)
		return ok && f != ""
	}
	return validFilter(f) && !hasSys(f)
}

// does the subscription stored under key k match the topic name t
func (rb *refBroker) match(k, t string) bool {
	if rb.quirk {
		tl, ok := qsplit(t)
		if !ok {
			return false
		}
		var fl []string
		if k != "" {
			fl = strings.Split(k, "\x00")
		}
		return fmatch(fl, tl)
	}
	return matches(k, t)
}

// ---------- section 4.7 ----------

func validFilter(f string) bool {
	if f == "" {
		return false
	}
	ls := strings.Split(f, "/")
	for i, l := range ls {
		if strings.ContainsAny(l, "#+") && len(l) != 1 {
			return false
		}
		if l == "#" && i != len(ls)-1 {
			return false
		}
	}
	return true
}

func hasSys(t string) bool {
	for _, l := range strings.Split(t, "/") {
		if strings.HasPrefix(l, "$") {
			return true
		}
	}
	return false
}

func hasEmpty(t string) bool {
	for _, l := range strings.Split(t, "/") {
		if l == "" {
			return true
		}
	}
	return false
}

func fmatch(f, t []string) bool {
	switch {
	case len(f) == 1 && f[0] == "#":
		return true
	case len(f) == 0 || len(t) == 0:
		return len(f) == 0 && len(t) == 0
	case f[0] == "+" || f[0] == t[0]:
		return fmatch(f[1:], t[1:])
	}
	return false
}

func matches(f, t string) bool { return fmatch(strings.Split(f, "/"), strings.Split(t, "/")) }

func min(a, b int) int {
	if a < b {
		return a
	}
	return b
}

// ---------- expectations ----------

type want struct {
	desc string // comparable description of a packet
	prop string // property a mismatch falls under
}

type expectation struct {
	conn  map[int][]want // per connection, as a multiset (order checked separately where specified)
	close map[int]bool
	calls []string
	first map[int]string // the packet that must come first on a connection (SUBACK before retained)
}

func newExp() *expectation {
	return &expectation{conn: map[int][]want{}, close: map[int]bool{}, first: map[int]string{}}
}

func descPub(t string, p []byte, q int, r bool) string {
	return fmt.Sprintf("PUBLISH topic=%q payload=%x qos=%d retain=%v", t, p, q, r)
}

func (rb *refBroker) deliver(ex *expectation, m rpub, prop string) {
	if m.retain {
		if len(m.payload) == 0 {
			delete(rb.retained, rb.key(m.topic))
		} else if !hasSys(m.topic) {
			rb.retained[rb.key(m.topic)] = rret{m.topic, rmsg{string(m.payload), m.qos}}
		}
	}
	if hasSys(m.topic) {
		return // the store refuses '$' topics by design: outside the properties' domain
	}
	var ids []int
	for id, c := range rb.conns {
		if c.live {
			ids = append(ids, id)
		}
	}
	sort.Ints(ids)
	for _, id := range ids {
		c := rb.conns[id]
		for k, sb := range c.subs {
			if rb.match(k, m.topic) {
				pr := prop
				if sb.resumed {
					// a subscription of a resumed session: that it is active again, with its granted QoS, is C10
					pr = "C10: (" + prop + ")"
				}
				if sb.kept {
					// a refused entry of a SUBSCRIBE has no effect: the subscription granted before still applies (C07)
					pr = "C07: (" + prop + ")"
				}
				ex.conn[id] = append(ex.conn[id], want{descPub(m.topic, m.payload, min(m.qos, sb.qos), false), pr})
			}
		}
	}
	for s, subs := range rb.inproc {
		for k, sb := range subs {
			if rb.match(k, m.topic) {
				ex.calls = append(ex.calls, fmt.Sprintf("call sub=%d %s", s, descPub(m.topic, m.payload, min(m.qos, sb.qos), false)))
			}
		}
	}
}

func (rb *refBroker) retainedFor(f string, g int) []rpub {
	var res []rpub
	for k, r := range rb.retained {
		ok := false
		if rb.quirk {
			// the retained tree is searched with the filter's levels against the stored path
			fl, _ := qsplit(f)
			var tl []string
			if k != "" {
				tl = strings.Split(k, "\x00")
			}
			ok = fmatch(fl, tl)
		} else {
			ok = matches(f, k)
		}
		if ok {
			res = append(res, rpub{r.topic, []byte(r.m.payload), min(r.m.qos, g), true})
		}
	}
	return res
}

func (rb *refBroker) endConn(ex *expectation, id int, normal bool) {
	c := rb.conns[id]
	if c == nil || !c.live {
		return
	}
	c.live = false
	ex.close[id] = true
	if !c.clean {
		rb.sessions[c.cid] = c.topics
		rb.sessQ2[c.cid] = q2state{c.q2, c.q2seq, c.q2done}
	} else {
		delete(rb.sessions, c.cid)
		delete(rb.sessQ2, c.cid)
	}
	if !normal && c.will != nil {
		rb.deliver(ex, *c.will, "C09")
	}
}

// parse a CONNECT as far as the oracle needs it
type connectInfo struct {
	ok       bool // framing complete, type CONNECT, body parses
	badLevel bool
	badFlags bool
	badID    bool
	cid      string
	clean    bool
	will     *rpub
	rest     []byte
}

func parseConnect(b []byte) connectInfo {
	var ci connectInfo
	p, rest, ok, err := mq.NextPacket(b)
	if err != nil || !ok || mq.Type(p) != mq.CONNECT || p[0]&0xf != 0 {
		return ci
	}
	ci.rest = rest
	i := 1
	for p[i] >= 0x80 {
		i++
	}
	body := p[i+1:]
	pos := 0
	lp := func() ([]byte, bool) {
		if pos+2 > len(body) {
			return nil, false
		}
		n := int(body[pos])<<8 | int(body[pos+1])
		if pos+2+n > len(body) {
			return nil, false
		}
		pos += 2 + n
		return body[pos-n : pos], true
	}
	name, ok1 := lp()
	if !ok1 || pos+4 > len(body) {
		return ci
	}
	level, flags := body[pos], body[pos+1]
	pos += 4
	want := map[byte]string{3: "MQIsdp", 4: "MQTT"}[level]
	if want == "" || want != string(name) {
		ci.ok, ci.badLevel = true, true
		return ci
	}
	wq := int(flags>>3) & 3
	if flags&1 != 0 || wq == 3 || (flags&4 == 0 && (wq != 0 || flags&32 != 0)) {
		ci.ok, ci.badFlags = true, true
		return ci
	}
	cid, ok2 := lp()
	if !ok2 {
		return ci
	}
	ci.cid, ci.clean = string(cid), flags&2 != 0
	printable := true
	for _, x := range cid {
		if x < 0x20 || x > 0x7e {
			printable = false
		}
	}
	if (len(cid) == 0 && !ci.clean) || len(cid) > 32 || !printable {
		ci.ok, ci.badID = true, true
		return ci
	}
	if flags&4 != 0 {
		wt, ok3 := lp()
		wm, ok4 := lp()
		if !ok3 || !ok4 {
			return ci
		}
		ci.will = &rpub{string(wt), wm, wq, flags&32 != 0}
	}
	if flags&128 != 0 && pos < len(body) {
		if _, ok := lp(); !ok {
			return ci
		}
	}
	if flags&64 != 0 && pos < len(body) {
		if _, ok := lp(); !ok {
			return ci
		}
	}
	ci.ok = true
	return ci
}

// packets arriving on an accepted connection
func (rb *refBroker) feed(ex *expectation, id int, b []byte) {
	c := rb.conns[id]
	for c != nil && c.live {
		p, rest, ok, err := mq.NextPacket(b)
		if err != nil {
			rb.endConn(ex, id, false)
			return
		}
		if !ok {
			return
		}
		b = rest
		add := func(desc, prop string) { ex.conn[id] = append(ex.conn[id], want{desc, prop}) }
		switch mq.Type(p) {
		case mq.PUBLISH:
			pub, perr := mq.ParsePublish(p)
			if perr != nil || strings.ContainsAny(pub.Topic, "#+") {
				rb.endConn(ex, id, false)
				return
			}
			m := rpub{pub.Topic, pub.Payload, pub.QoS, pub.Retain}
			switch pub.QoS {
			case 0:
				rb.deliver(ex, m, "C01")
			case 1:
				add(fmt.Sprintf("PUBACK id=%d", pub.PID), "C02")
				rb.deliver(ex, m, "C01")
			case 2:
				add(fmt.Sprintf("PUBREC id=%d", pub.PID), "C02")
				if _, open := c.q2[pub.PID]; !open {
					c.q2[pub.PID] = m
					c.q2seq = append(c.q2seq, pub.PID)
				}
			}
		case mq.PUBREL:
			pid, aerr := mq.ParseAck(p)
			if aerr != nil {
				rb.endConn(ex, id, false)
				return
			}
			if m, open := c.q2[pid]; open && !rb.fifo {
				rb.deliver(ex, m, "C02")
				delete(c.q2, pid)
				for i, x := range c.q2seq {
					if x == pid {
						c.q2seq = append(c.q2seq[:i], c.q2seq[i+1:]...)
						break
					}
				}
			} else if open {
				// variant F18: the exchange is marked and the queue releases its completed head entries
				c.q2done[pid] = true
				for len(c.q2seq) > 0 && c.q2done[c.q2seq[0]] {
					h := c.q2seq[0]
					rb.deliver(ex, c.q2[h], "C02")
					delete(c.q2, h)
					delete(c.q2done, h)
					c.q2seq = c.q2seq[1:]
				}
			}
			add(fmt.Sprintf("PUBCOMP id=%d", pid), "C02")
		case mq.PUBACK, mq.PUBCOMP:
			pid, aerr := mq.ParseAck(p)
			if aerr != nil {
				rb.endConn(ex, id, false)
				return
			}
			delete(c.inflight, pid)
		case mq.PUBREC:
			pid, aerr := mq.ParseAck(p)
			if aerr != nil {
				rb.endConn(ex, id, false)
				return
			}
			add(fmt.Sprintf("PUBREL id=%d", pid), "C12")
		case mq.SUBSCRIBE:
			body := p[len(p)-bodyLen(p):]
			if p[0]&0xf != 2 || len(body) < 2 {
				rb.endConn(ex, id, false)
				return
			}
			pid := int(body[0])<<8 | int(body[1])
			body = body[2:]
			var fs []string
			var qs []int
			for len(body) > 0 {
				if len(body) < 2 {
					rb.endConn(ex, id, false)
					return
				}
				n := int(body[0])<<8 | int(body[1])
				if len(body) < 2+n+1 {
					rb.endConn(ex, id, false)
					return
				}
				fs, qs = append(fs, string(body[2:2+n])), append(qs, int(body[2+n]))
				body = body[2+n+1:]
			}
			if len(fs) == 0 {
				rb.endConn(ex, id, false)
				return
			}
			var codes []byte
			var rets []rpub
			for i, f := range fs {
				if !rb.valid(f) || qs[i] > 2 {
					codes = append(codes, 0x80)
					if old, held := c.subs[rb.key(f)]; held && rb.valid(f) {
						old.kept = true
						c.subs[rb.key(f)] = old
					}
					continue
				}
				g := min(qs[i], 2)
				codes = append(codes, byte(g))
				c.subs[rb.key(f)] = rsub{filter: f, qos: g}
				c.topics[f] = g
				rets = append(rets, rb.retainedFor(f, g)...)
			}
			sa := fmt.Sprintf("SUBACK id=%d codes=%x", pid, codes)
			add(sa, "C07")
			if _, set := ex.first[id]; !set {
				ex.first[id] = sa
			}
			for _, r := range rets {
				add(descPub(r.topic, r.payload, r.qos, true), "C08")
			}
		case mq.UNSUBSCRIBE:
			body := p[len(p)-bodyLen(p):]
			if p[0]&0xf != 2 || len(body) < 2 {
				rb.endConn(ex, id, false)
				return
			}
			pid := int(body[0])<<8 | int(body[1])
			body = body[2:]
			n := 0
			for len(body) > 0 {
				if len(body) < 2 || len(body) < 2+(int(body[0])<<8|int(body[1])) {
					rb.endConn(ex, id, false)
					return
				}
				l := int(body[0])<<8 | int(body[1])
				f := string(body[2 : 2+l])
				delete(c.subs, rb.key(f))
				delete(c.topics, f)
				body = body[2+l:]
				n++
			}
			if n == 0 {
				rb.endConn(ex, id, false)
				return
			}
			add(fmt.Sprintf("UNSUBACK id=%d", pid), "C07")
		case mq.PINGREQ:
			if len(p) != 2 || p[0]&0xf != 0 {
				rb.endConn(ex, id, false)
				return
			}
			add("PINGRESP", "C19")
		case mq.DISCONNECT:
			if len(p) != 2 || p[0]&0xf != 0 {
				rb.endConn(ex, id, false)
				return
			}
			rb.endConn(ex, id, true)
			return
		case mq.CONNECT, mq.CONNACK, mq.SUBACK, mq.UNSUBACK, mq.PINGRESP:
			// a protocol violation by the client that the properties say nothing about: either ignoring
			// it or ending the connection is accepted; the oracle follows the library (ignore) if the
			// packet is well formed and ends the connection otherwise
			if !clientPacketWellFormed(p) {
				rb.endConn(ex, id, false)
				return
			}
		default:
			rb.endConn(ex, id, false)
			return
		}
	}
}

func clientPacketWellFormed(p []byte) bool {
	switch mq.Type(p) {
	case mq.CONNECT:
		return parseConnect(p).ok && !parseConnect(p).badLevel && !parseConnect(p).badFlags && !parseConnect(p).badID
	case mq.UNSUBACK:
		_, err := mq.ParseAck(p)
		return err == nil
	}
	return mq.WellFormed(p) == nil
}

func bodyLen(p []byte) int {
	v, mul := 0, 1
	for i := 1; i <= 4 && i < len(p); i++ {
		v += int(p[i]&0x7f) * mul
		mul *= 128
		if p[i] < 0x80 {
			break
		}
	}
	return v
}

func descOf(p []byte) string {
	switch mq.Type(p) {
	case mq.PUBLISH:
		pub, err := mq.ParsePublish(p)
		if err != nil {
			return fmt.Sprintf("malformed PUBLISH %x", p)
		}
		return descPub(pub.Topic, pub.Payload, pub.QoS, pub.Retain)
	case mq.PUBACK, mq.PUBREC, mq.PUBREL, mq.PUBCOMP, mq.UNSUBACK:
		pid, err := mq.ParseAck(p)
		if err != nil {
			return fmt.Sprintf("malformed ack %x", p)
		}
		return fmt.Sprintf("%s id=%d", map[int]string{4: "PUBACK", 5: "PUBREC", 6: "PUBREL", 7: "PUBCOMP", 11: "UNSUBACK"}[mq.Type(p)], pid)
	case mq.SUBACK:
		pid, codes, err := mq.ParseSuback(p)
		if err != nil {
			return fmt.Sprintf("malformed SUBACK %x", p)
		}
		return fmt.Sprintf("SUBACK id=%d codes=%x", pid, codes)
	case mq.CONNACK:
		sp, code, err := mq.ParseConnack(p)
		if err != nil {
			return fmt.Sprintf("malformed CONNACK %x", p)
		}
		return fmt.Sprintf("CONNACK sp=%v code=%d", sp, code)
	case mq.PINGRESP:
		return "PINGRESP"
	}
	return fmt.Sprintf("unexpected packet %x", p)
}

// check predicts the observations of one event and compares
type failure struct {
	prop  string
	scope string // the connection (or "calls") the failure is about
	msg   string
}

func (rb *refBroker) check(ev hx.Group, obs map[int][][]byte, calls []call) []failure {
	ex := newExp()
	skipPackets := false
	unobserved := -1
	rb.lastRefused = false
	switch ev[0] {
	case 1:
		id, authok, b := int(ev[1]), ev[2] != 0, gbytes(ev, 3)
		ci := parseConnect(b)
		rb.lastRefused = !ci.ok || ci.badFlags || ci.badLevel || ci.badID || !authok
		switch {
		case !ci.ok || ci.badFlags:
			ex.close[id] = true
		case ci.badLevel:
			ex.conn[id] = []want{{"CONNACK sp=false code=1", "C11"}}
			ex.close[id] = true
		case ci.badID:
			ex.conn[id] = []want{{"CONNACK sp=false code=2", "C11"}}
			ex.close[id] = true
		case !authok:
			ex.conn[id] = []want{{"CONNACK sp=false code=4", "C11"}}
			ex.close[id] = true
		default:
			c := &rconn{cid: ci.cid, clean: ci.clean || ci.cid == "", will: ci.will, subs: map[string]rsub{}, topics: map[string]int{}, q2: map[int]rpub{}, q2done: map[int]bool{}, live: true, inflight: map[int]int{}}
			sp := false
			if !c.clean {
				if old, ok := rb.sessions[c.cid]; ok {
					sp = true
					var fs []string
					for f := range old {
						fs = append(fs, f)
					}
					sort.Strings(fs)
					for _, f := range fs {
						c.subs[rb.key(f)] = rsub{filter: f, qos: old[f], resumed: true}
						c.topics[f] = old[f]
					}
					if q, ok := rb.sessQ2[c.cid]; ok {
						c.q2, c.q2seq, c.q2done = q.q2, q.q2seq, q.q2done
					}
				}
			} else {
				delete(rb.sessions, c.cid)
				delete(rb.sessQ2, c.cid)
			}
			if c.cid == "" {
				c.cid = fmt.Sprintf("\x00anon%d", id)
			}
			if !c.clean {
				rb.sessions[c.cid] = c.topics
			}
			rb.conns[id] = c
			ca := fmt.Sprintf("CONNACK sp=%v code=0", sp)
			ex.conn[id] = []want{{ca, "C10"}}
			ex.first[id] = ca
			rb.feed(ex, id, ci.rest)
		}
	case 2:
		rb.feed(ex, int(ev[1]), gbytes(ev, 2))
	case 3:
		rb.endConn(ex, int(ev[1]), false)
	case 9:
		// the bytes are processed, then the connection ends - without DISCONNECT unless the bytes contained one
		id := int(ev[1])
		rb.feed(ex, id, gbytes(ev, 2))
		rb.endConn(ex, id, false)
		delete(ex.conn, id) // nothing can be observed on the connection itself
		delete(ex.close, id)
		delete(ex.first, id)
		unobserved = id
	case 4:
		s, q, f := int(ev[1]), int(ev[2]), string(gbytes(ev, 3))
		if rb.valid(f) && q <= 2 {
			if rb.inproc[s] == nil {
				rb.inproc[s] = map[string]rsub{}
			}
			rb.inproc[s][rb.key(f)] = rsub{filter: f, qos: q}
			for _, r := range rb.retainedFor(f, q) {
				ex.calls = append(ex.calls, fmt.Sprintf("call sub=%d %s", s, descPub(r.topic, r.payload, r.qos, true)))
			}
		}
	case 5:
		s, f := int(ev[1]), string(gbytes(ev, 2))
		if rb.inproc[s] != nil {
			delete(rb.inproc[s], rb.key(f))
		}
	case 6:
		pub, err := mq.ParsePublish(gbytes(ev, 1))
		if err == nil && !strings.ContainsAny(pub.Topic, "#+") {
			rb.deliver(ex, rpub{pub.Topic, pub.Payload, pub.QoS, pub.Retain}, "C01")
		}
	case 8:
		b := gbytes(ev, 4)
		t := string(b[:ev[3]])
		if t != "" && !strings.ContainsAny(t, "#+") {
			rb.deliver(ex, rpub{t, b[ev[3]:], int(ev[1]), ev[2] != 0}, "C01")
		}
	case 7:
		var ids []int
		for id := range rb.conns {
			ids = append(ids, id)
		}
		sort.Ints(ids)
		for _, id := range ids {
			rb.endConn(ex, id, false)
		}
		rb.closed = true
		skipPackets = true // deliveries race with the closing of their connection during Server.Close
	}

	// ---------- compare ----------
	var fails []failure
	scope := ""
	tag := func(prop, msg string) failure { return failure{prop, scope, msg} }
	ids := map[int]bool{}
	for id := range obs {
		ids[id] = true
	}
	for id := range ex.conn {
		ids[id] = true
	}
	for id := range ex.close {
		ids[id] = true
	}
	for id := range ids {
		if id == unobserved {
			continue
		}
		scope = fmt.Sprintf("conn%d", id)
		var got []string
		closed := false
		for _, p := range obs[id] {
			if p == nil {
				closed = true
				continue
			}
			if len(p) > 0 && (p[0] == 0xff || p[0] == 0xfe) && mq.Type(p) == 15 {
				fails = append(fails, tag("C17", fmt.Sprintf("the stream written to connection %d is not a sequence of whole MQTT packets: %x", id, p)))
				continue
			}
			if err := mq.WellFormed(p); err != nil {
				prop := "C17"
				if mq.Type(p) == mq.PUBLISH {
					if pub, e2 := mq.ParsePublish(p); e2 == nil && pub.QoS > 0 && pub.PID == 0 {
						prop = "C12"
					}
				}
				fails = append(fails, tag(prop, fmt.Sprintf("connection %d received a malformed packet %x: %v", id, p, err)))
			}
			got = append(got, descOf(p))
			// identifiers of unacknowledged PUBLISH packets in flight to this connection (finding F17)
			if mq.Type(p) == mq.PUBLISH {
				if pub, err := mq.ParsePublish(p); err == nil && pub.QoS > 0 {
					if c := rb.conns[id]; c != nil {
						if c.inflight[pub.PID] > 0 {
							fails = append(fails, failure{"F17", scope + "-f17", fmt.Sprintf("F17-forwarded-id: (C12) connection %d holds two unacknowledged PUBLISH packets with packet identifier %d", id, pub.PID)})
						}
						c.inflight[pub.PID]++
					}
				}
			}
		}
		if skipPackets {
			got = nil
		}
		if ex.close[id] != closed && !(ev[0] == 3 && id == int(ev[1])) {
			if ex.close[id] {
				fails = append(fails, tag("C05", fmt.Sprintf("connection %d should have been closed by the broker and was not", id)))
			} else {
				fails = append(fails, tag("C05", fmt.Sprintf("connection %d was closed by the broker although nothing it did calls for that", id)))
			}
		}
		if skipPackets {
			continue
		}
		// multiset comparison
		wantDesc := map[string]int{}
		prop := map[string]string{}
		for _, w := range ex.conn[id] {
			wantDesc[w.desc]++
			prop[w.desc] = w.prop
		}
		for _, g := range got {
			wantDesc[g]--
		}
		var missing, extra []string
		pm := "C01"
		for d, n := range wantDesc {
			for ; n > 0; n-- {
				missing = append(missing, d)
				pm = prop[d]
			}
			for ; n < 0; n++ {
				extra = append(extra, d)
			}
		}
		if len(missing)+len(extra) > 0 {
			sort.Strings(missing)
			sort.Strings(extra)
			if len(missing) == 0 {
				pm = classify(extra[0])
			}
			// an acceptable CONNECT that is not answered with return code 0 at all is C11's; a CONNACK 0 with the wrong
			// session-present flag is C10's
			for _, d := range missing {
				if strings.HasPrefix(d, "CONNACK") && strings.HasSuffix(d, "code=0") {
					answered := false
					for _, x := range extra {
						if strings.HasPrefix(x, "CONNACK") && strings.HasSuffix(x, "code=0") {
							answered = true
						}
					}
					if !answered {
						pm = "C11"
					}
				}
			}
			fails = append(fails, tag(pm, fmt.Sprintf("connection %d: missing %v, unexpected %v (received %v)", id, missing, extra, got)))
		} else if f, ok := ex.first[id]; ok && len(got) > 0 && got[0] != f {
			fails = append(fails, tag(classify(f), fmt.Sprintf("connection %d: %s must come first, received %v", id, f, got)))
		}
	}
	// in-process calls
	scope = "calls"
	var gotCalls []string
	for _, c := range calls {
		gotCalls = append(gotCalls, fmt.Sprintf("call sub=%d %s", c.sub, descPub(c.topic, c.payload, int(c.flags>>1)&3, c.flags&1 != 0)))
	}
	sort.Strings(gotCalls)
	sort.Strings(ex.calls)
	if strings.Join(gotCalls, "|") != strings.Join(ex.calls, "|") {
		p := "C01"
		if ev[0] == 4 {
			p = "C08"
		}
		fails = append(fails, tag(p, fmt.Sprintf("in-process subscribers were called with %v, expected %v", gotCalls, ex.calls)))
	}
	_ = bytes.Equal
	return fails
}

func classify(desc string) string {
	switch {
	case strings.HasPrefix(desc, "SUBACK"), strings.HasPrefix(desc, "UNSUBACK"):
		return "C07"
	case strings.HasPrefix(desc, "CONNACK"):
		return "C11"
	case strings.HasPrefix(desc, "PUBACK"), strings.HasPrefix(desc, "PUBREC"), strings.HasPrefix(desc, "PUBCOMP"):
		return "C02"
	case strings.HasPrefix(desc, "PUBREL"):
		return "C12"
	case strings.Contains(desc, "retain=true"):
		return "C08"
	case strings.HasPrefix(desc, "PUBLISH topic=\"will/"):
		return "C09" // (the histories publish wills, and nothing else, on will/...)
	}
	return "C01"
}
