package main

import "verifharness/hx"

// placeholder: replaced below by the reference broker
type refBroker struct{}

func newRef() *refBroker { return &refBroker{} }

func (r *refBroker) check(ev hx.Group, obs map[int][][]byte, calls []call) []string { return nil }
