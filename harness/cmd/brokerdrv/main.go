// brokerdrv: correspondence driver for the broker (properties C01, C02, C05, C07-C11, C17, C19).
//
// A real service.Server is driven over net.Pipe through the verif entry point VerifServe by raw
// wire-level clients.  Histories of events (connect, bytes, drop, in-process calls) are generated
// from VERIF_SEED; after every event each live connection is brought to a PINGREQ/PINGRESP
// barrier, so the packets observed per connection and event are deterministic (PUBLISH packets
// of one fan-out are compared as multisets: Go map order).  The same histories are the cases of
// the Coq broker model (Proto/Broker.v); a reference broker written from the property texts
// (oracle.go) is the specification-level oracle.
package main

import (
	"bytes"
	"encoding/json"
	"fmt"
	"io"
	"net"
	"os"
	"runtime"
	"sort"
	"strings"
	"sync"
	"time"

	"github.com/mdzio/go-logging"
	"github.com/mdzio/go-mqtt/auth"
	"github.com/mdzio/go-mqtt/message"
	"github.com/mdzio/go-mqtt/service"
	"github.com/mdzio/go-mqtt/sessions"
	"github.com/mdzio/go-mqtt/topics"
	"verifharness/hx"
	"verifharness/mq"
)

const bufSize = 262144

type verifAuth struct {
	mu sync.Mutex
	ok bool
}

func (a *verifAuth) Authenticate(id string, cred interface{}) error {
	a.mu.Lock()
	defer a.mu.Unlock()
	if a.ok {
		return nil
	}
	return auth.ErrAuthFailure
}

var theAuth = &verifAuth{ok: true}

type conn struct {
	accepted bool // the broker answered CONNACK 0: a service exists whose teardown ends with the stop-done hook
	id       int
	cli      net.Conn
	wq       chan []byte // bytes to write, in order
	pkts     chan []byte // complete packets; nil = closed
	live     bool        // accepted and not yet ended
	closed   bool        // the reader saw the end of the stream
}

type call struct {
	sub     int
	flags   byte
	topic   string
	payload []byte
}

type world struct {
	svr          *service.Server
	conns        map[int]*conn
	calls        []call
	callMu       sync.Mutex
	stopDone     chan service.VerifServiceInfo
	inproc       map[int]*service.OnPublishFunc
	serving      sync.WaitGroup // handleConnection calls in progress
	fails        []string       // harness-level failures (stuck, malformed stream)
	eofTransport bool           // the server's ends of the connections report the end of the stream with the last bytes
}

func newWorld() *world {
	topics.Unregister("mem")
	topics.Register("mem", topics.NewMemProvider())
	sessions.Unregister("mem")
	sessions.Register("mem", sessions.NewMemProvider())
	message.VerifSetPacketIDCounter(0)
	w := &world{conns: map[int]*conn{}, stopDone: make(chan service.VerifServiceInfo, 64), inproc: map[int]*service.OnPublishFunc{}}
	w.svr = &service.Server{Authenticator: "verif", ConnectTimeout: 1}
	service.VerifSetHooks(nil, func(info service.VerifServiceInfo) {
		select {
		case w.stopDone <- info:
		default:
		}
	})
	return w
}

func (w *world) fail(format string, a ...interface{}) {
	w.fails = append(w.fails, fmt.Sprintf(format, a...))
}

// eofConn is the server's end of a connection over a transport that reports the end of the stream together with the
// last bytes (as crypto/tls does when the close notification is already buffered): Read returns (n > 0, io.EOF).
// io.Reader allows that, and whatever arrived must still be processed.
type eofConn struct {
	net.Conn
	ch  chan []byte
	err error
	cur []byte
}

func newEOFConn(c net.Conn) *eofConn {
	e := &eofConn{Conn: c, ch: make(chan []byte, 64)}
	go func() {
		buf := make([]byte, 65536)
		for {
			n, err := c.Read(buf)
			if n > 0 {
				e.ch <- append([]byte(nil), buf[:n]...)
			}
			if err != nil {
				e.err = err
				close(e.ch)
				return
			}
		}
	}()
	return e
}

func (e *eofConn) Read(p []byte) (int, error) {
	if len(e.cur) == 0 {
		c, ok := <-e.ch
		if !ok {
			return 0, e.err
		}
		e.cur = c
	}
	n := copy(p, e.cur)
	e.cur = e.cur[n:]
	if len(e.cur) == 0 {
		select {
		case c, ok := <-e.ch:
			if !ok {
				return n, e.err // the last bytes and the end of the stream in one Read
			}
			e.cur = c
		case <-time.After(3 * time.Millisecond):
		}
	}
	return n, nil
}

func (w *world) open(id int) *conn {
	cli, srv := net.Pipe()
	c := &conn{id: id, cli: cli, pkts: make(chan []byte, 4096), wq: make(chan []byte, 64)}
	w.conns[id] = c
	w.serving.Add(1)
	var sc net.Conn = srv
	if w.eofTransport {
		sc = newEOFConn(srv)
	}
	go func() { defer w.serving.Done(); w.svr.VerifServe(sc) }()
	go func() { // one writer per connection keeps the order of what is sent
		for b := range c.wq {
			c.cli.SetWriteDeadline(time.Now().Add(5 * time.Second))
			c.cli.Write(b)
		}
	}()
	go func() {
		var buf []byte
		tmp := make([]byte, 65536)
		for {
			n, err := cli.Read(tmp)
			buf = append(buf, tmp[:n]...)
			for {
				p, rest, ok, ferr := mq.NextPacket(buf)
				if ferr != nil {
					c.pkts <- []byte{0xff} // not MQTT framing
					c.pkts <- nil
					return
				}
				if !ok {
					break
				}
				c.pkts <- append([]byte(nil), p...)
				buf = rest
			}
			if err != nil {
				if len(buf) > 0 {
					c.pkts <- append([]byte{0xfe}, buf...) // a partial packet before the end of the stream
				}
				c.pkts <- nil
				return
			}
		}
	}()
	return c
}

func (c *conn) write(b []byte) {
	select {
	case c.wq <- b:
	default:
	}
}

// collect reads packets of c until `pings` PINGRESP packets have been seen (the last one is the
// barrier's and is dropped), the connection closes, or a deadline passes.
func (w *world) collect(c *conn, pings int, items *[][]byte) {
	if c.closed {
		return
	}
	deadline := time.After(8 * time.Second)
	for {
		select {
		case p := <-c.pkts:
			if p == nil {
				c.closed, c.live = true, false
				*items = append(*items, nil)
				return
			}
			if mq.Type(p) == mq.PINGRESP && len(p) == 2 {
				pings--
				if pings == 0 {
					return
				}
			}
			*items = append(*items, p)
		case <-deadline:
			w.fail("STUCK: connection %d neither answered the barrier PINGREQ nor was closed within 8s\n%s", c.id, dump())
			c.live = false
			return
		}
	}
}

func dump() string {
	b := make([]byte, 1<<16)
	return string(b[:runtime.Stack(b, true)])
}

func countPings(b []byte) int {
	n := 0
	for {
		p, rest, ok, err := mq.NextPacket(b)
		if err != nil || !ok {
			return n
		}
		if mq.Type(p) == mq.PINGREQ {
			n++
		}
		b = rest
	}
}

func (w *world) barrier(c *conn, extraPings int, items *[][]byte) {
	if !c.live || c.closed {
		return
	}
	c.write(mq.Pingreq())
	w.collect(c, extraPings+1, items)
}

// execute one event; returns the items observed per connection
func (w *world) event(ev hx.Group) map[int][][]byte {
	obs := map[int][][]byte{}
	w.callMu.Lock()
	w.calls = nil
	w.callMu.Unlock()
	self := -1
	switch ev[0] {
	case 1: // connect c authok bytes
		id := int(ev[1])
		theAuth.mu.Lock()
		theAuth.ok = ev[2] != 0
		theAuth.mu.Unlock()
		b := gbytes(ev, 3)
		c := w.open(id)
		self = id
		if first, _, ok, _ := mq.NextPacket(b); ok && len(first) > 2 && (id+len(b))%2 == 0 {
			// the last byte of the first packet arrives on its own: how the bytes are cut into reads is not the client's
			// business
			c.write(b[:len(first)-1])
			c.write(b[len(first)-1:])
		} else {
			c.write(b)
		}
		var items [][]byte
		// the answer to the first packet: CONNACK or closure
		select {
		case p := <-c.pkts:
			if p == nil {
				c.closed = true
				items = append(items, nil)
			} else {
				items = append(items, p)
				if mq.Type(p) == mq.CONNACK && len(p) == 4 && p[3] == 0 {
					c.live, c.accepted = true, true
					// bytes after the CONNECT packet are processed by the new connection
					_, rest, _, _ := mq.NextPacket(b)
					w.barrier(c, countPings(rest), &items)
				} else {
					w.collect(c, 1<<30, &items) // refused: the connection must be closed
				}
			}
		case <-time.After(6 * time.Second):
			w.fail("STUCK: no answer to the first packet of connection %d within 6s", id)
		}
		obs[id] = items
	case 2: // bytes on c
		id := int(ev[1])
		c := w.conns[id]
		self = id
		for len(w.stopDone) > 0 {
			<-w.stopDone
		}
		b := gbytes(ev, 2)
		c.write(b)
		var items [][]byte
		w.barrier(c, countPings(b), &items)
		obs[id] = items
	case 3: // drop c
		id := int(ev[1])
		c := w.conns[id]
		self = id
		for len(w.stopDone) > 0 {
			<-w.stopDone
		}
		c.cli.Close()
		c.live, c.accepted, c.closed = false, false, true
		select {
		case <-w.stopDone:
		case <-time.After(8 * time.Second):
			w.fail("STUCK: teardown of connection %d did not finish within 8s after the client dropped it\n%s", id, dump())
		}
		obs[id] = [][]byte{nil}
	case 9: // the client writes the bytes and closes at once
		id := int(ev[1])
		c := w.conns[id]
		self = id
		for len(w.stopDone) > 0 {
			<-w.stopDone
		}
		wrote := make(chan struct{})
		go func() {
			c.cli.SetWriteDeadline(time.Now().Add(5 * time.Second))
			c.cli.Write(gbytes(ev, 2))
			c.cli.Close()
			close(wrote)
		}()
		<-wrote
		c.live, c.accepted, c.closed = false, false, true
		select {
		case <-w.stopDone:
		case <-time.After(8 * time.Second):
			w.fail("STUCK: teardown of connection %d did not finish within 8s after the client wrote its last bytes and closed\n%s", id, dump())
		}
		// (nothing can be observed on the connection itself any more)
	case 4: // Server.Subscribe s q topic
		s, q, topic := int(ev[1]), byte(ev[2]), string(gbytes(ev, 3))
		f, ok := w.inproc[s]
		if !ok {
			s := s
			fn := service.OnPublishFunc(func(m *message.PublishMessage) error {
				w.callMu.Lock()
				var fl byte
				if m.Dup() {
					fl |= 8
				}
				fl |= m.QoS() << 1
				if m.Retain() {
					fl |= 1
				}
				w.calls = append(w.calls, call{s, fl, string(m.Topic()), append([]byte(nil), m.Payload()...)})
				w.callMu.Unlock()
				return nil
			})
			f = &fn
			w.inproc[s] = f
		}
		w.svr.Subscribe(topic, q, f)
	case 5:
		s, topic := int(ev[1]), string(gbytes(ev, 2))
		if f, ok := w.inproc[s]; ok {
			w.svr.Unsubscribe(topic, f)
		}
	case 6:
		m := message.NewPublishMessage()
		b := gbytes(ev, 1)
		if _, err := m.Decode(b[:len(b):len(b)]); err == nil {
			w.svr.Publish(m)
		}
	case 8:
		m := message.NewPublishMessage()
		b := gbytes(ev, 4)
		m.SetQoS(byte(ev[1]))
		m.SetTopic(b[:ev[3]])
		m.SetPayload(b[ev[3]:])
		m.SetRetain(ev[2] != 0)
		w.svr.Publish(m)
	case 7:
		// (a connection is registered with the server only after handleConnection has started its
		// goroutines: let the accepts in progress finish, so that Close sees every connection)
		w.serving.Wait()
		done := make(chan struct{})
		go func() { w.svr.Close(); close(done) }()
		select {
		case <-done:
		case <-time.After(10 * time.Second):
			w.fail("STUCK: Server.Close did not return within 10s\n%s", dump())
		}
	}
	// when the event ended an accepted connection, its teardown (will, unsubscribing, session
	// removal) must have finished before the others are looked at
	if self >= 0 && ev[0] != 3 {
		if c := w.conns[self]; c != nil && c.accepted && c.closed {
			c.accepted = false
			select {
			case <-w.stopDone:
			case <-time.After(8 * time.Second):
				w.fail("STUCK: teardown of connection %d did not finish within 8s after the broker closed it\n%s", self, dump())
			}
		}
	}
	// every other live connection is brought to a barrier, in ascending order
	var ids []int
	for id, c := range w.conns {
		if id != self && (c.live || (ev[0] == 7 && !c.closed)) {
			ids = append(ids, id)
		}
	}
	sort.Ints(ids)
	for _, id := range ids {
		c := w.conns[id]
		var items [][]byte
		if ev[0] == 7 {
			w.collect(c, 1<<30, &items)
		} else {
			w.barrier(c, 0, &items)
		}
		if len(items) > 0 {
			obs[id] = items
		}
	}
	return obs
}

func gbytes(g hx.Group, from int) []byte {
	b := make([]byte, 0, len(g))
	for _, x := range g[from:] {
		b = append(b, byte(x))
	}
	return b
}

// canonical observation of an event (the format of Proto/Script.v canon)
func canon(obs map[int][][]byte, calls []call) hx.Group {
	g := hx.Group{0}
	var ids []int
	for id := range obs {
		ids = append(ids, id)
	}
	sort.Ints(ids)
	for _, id := range ids {
		var run [][]byte
		flush := func() {
			sort.Slice(run, func(i, j int) bool { return bytes.Compare(run[i], run[j]) < 0 })
			for _, p := range run {
				g = append(g, 1, int64(id), int64(len(p)))
				for _, x := range p {
					g = append(g, int64(x))
				}
			}
			run = nil
		}
		for _, p := range obs[id] {
			switch {
			case p == nil:
				flush()
				g = append(g, 2, int64(id))
			case mq.Type(p) == mq.PUBLISH:
				run = append(run, p)
			default:
				flush()
				g = append(g, 1, int64(id), int64(len(p)))
				for _, x := range p {
					g = append(g, int64(x))
				}
			}
		}
		flush()
	}
	var cs [][]byte
	for _, c := range calls {
		b := []byte{3}
		_ = b
		var e []int64
		e = append(e, 3, int64(c.sub), int64(c.flags), int64(len(c.topic)))
		for _, x := range []byte(c.topic) {
			e = append(e, int64(x))
		}
		e = append(e, int64(len(c.payload)))
		for _, x := range c.payload {
			e = append(e, int64(x))
		}
		// sort key: the numbers themselves, as bytes (all < 256 except the subscriber id)
		k := make([]byte, 0, len(e)*2)
		for _, x := range e {
			k = append(k, byte(x>>8), byte(x))
		}
		cs = append(cs, k)
	}
	sort.Slice(cs, func(i, j int) bool { return bytes.Compare(cs[i], cs[j]) < 0 })
	for _, k := range cs {
		for i := 0; i < len(k); i += 2 {
			g = append(g, int64(k[i])<<8|int64(k[i+1]))
		}
	}
	return g
}

type runner struct {
	out   *hx.Out
	stats map[string]int
}

type ofail struct {
	msg    string // the failure
	suffix string // where in the history
}

// exec runs one history on a fresh broker and returns the canonical observations, the oracle's
// failures and the indices of the events that were first packets the broker must refuse
func (rn *runner) exec(evs []hx.Group, count bool) (obsAll []hx.Group, fails []ofail, refused []int) {
	w := newWorld()
	for _, ev := range evs {
		if ev[0] == 9 {
			w.eofTransport = true
		}
	}
	// the specification-level reference and the variants that explain the listed findings F7 / F18
	refs := []*refBroker{newRef(false, false), newRef(true, false), newRef(false, true), newRef(true, true)}
	tags := []string{"", "empty-level", "F18-pubrel-order", "F18-pubrel-order+empty-level"}
	for i, ev := range evs {
		obs := w.event(ev)
		w.callMu.Lock()
		calls := append([]call(nil), w.calls...)
		w.callMu.Unlock()
		if ev[0] == 7 {
			// packets written during Server.Close race with the closing of their connection
			for id, items := range obs {
				var kept [][]byte
				for _, p := range items {
					if p == nil {
						kept = append(kept, p)
					}
				}
				obs[id] = kept
			}
		}
		obsAll = append(obsAll, canon(obs, calls))
		var res [][]failure
		for _, r := range refs {
			res = append(res, r.check(ev, obs, calls))
		}
		if refs[0].lastRefused {
			refused = append(refused, i)
		}
		suffix := fmt.Sprintf(" [event %d: %v]", i, short(ev))
		for _, m := range res[0] {
			if m.prop == "F17" {
				fails = append(fails, ofail{m.msg, suffix})
				continue
			}
			// a listed finding explains the failure if its variant predicts exactly what this connection received
			text := m.prop + ": " + m.msg
			for v := 1; v < len(refs); v++ {
				explained := true
				for _, x := range res[v] {
					if x.scope == m.scope {
						explained = false
					}
				}
				if explained {
					if refs[v].quirk && m.prop != "C01" && m.prop != "C08" {
						m.prop = "C01" // the message was handed on as it must be; who receives it is the topic store's matching
					}
					text = tags[v] + ": (" + m.prop + ") " + m.msg
					break
				}
			}
			fails = append(fails, ofail{text, suffix})
		}
		if count {
			rn.stats[fmt.Sprintf("event_%d", ev[0])]++
		}
	}
	for _, f := range w.fails {
		fails = append(fails, ofail{f, ""})
	}
	// clean up: end whatever is still open
	// (their teardown must be over before the next history starts: it may still publish wills and
	// use the process-wide packet id counter)
	for len(w.stopDone) > 0 {
		<-w.stopDone
	}
	pendingStops := 0
	for _, c := range w.conns {
		if c.accepted && !c.closed {
			pendingStops++
		}
		c.cli.Close()
		close(c.wq)
	}
	for ; pendingStops > 0; pendingStops-- {
		select {
		case <-w.stopDone:
		case <-time.After(8 * time.Second):
			fails = append(fails, ofail{fmt.Sprintf("STUCK: teardown of a connection did not finish within 8s at the end of the history\n%s", dump()), ""})
			pendingStops = 1
		}
	}
	service.VerifSetHooks(nil, nil)
	return
}

// a failure that a listed finding explains
func isTagged(msg string) bool {
	return strings.HasPrefix(msg, "empty-level") || strings.HasPrefix(msg, "F18-") || strings.HasPrefix(msg, "F17-")
}

func (rn *runner) run(evs []hx.Group) {
	caseNo := rn.out.N
	obsAll, fails, refused := rn.exec(evs, true)
	// C11: is a failure the effect of a first packet that had to be refused?  The counterfactual decides: the
	// same history without the refused first packets, on the implementation again
	unexplained := false
	for _, f := range fails {
		if !isTagged(f.msg) && !strings.HasPrefix(f.msg, "C11:") && !strings.HasPrefix(f.msg, "STUCK") {
			unexplained = true
		}
	}
	if unexplained && len(refused) > 0 {
		var evs2 []hx.Group
		for i, ev := range evs {
			if len(refused) > 0 && refused[0] == i {
				refused = refused[1:]
				continue
			}
			evs2 = append(evs2, ev)
		}
		_, fails2, _ := rn.exec(evs2, false)
		still := map[string]int{}
		for _, f := range fails2 {
			still[f.msg]++
		}
		for i, f := range fails {
			if isTagged(f.msg) || strings.HasPrefix(f.msg, "STUCK") {
				continue
			}
			if still[f.msg] > 0 {
				still[f.msg]--
				continue
			}
			if j := strings.Index(f.msg, ": "); j > 0 && !strings.HasPrefix(f.msg, "C11:") {
				fails[i].msg = "C11: (" + f.msg[:j] + ") without the refused first packets of this history the following does not happen: " + f.msg[j+2:]
				rn.stats["attributed_to_refused_first_packet"]++
			}
		}
	}
	for _, f := range fails {
		rn.out.Oracle(caseNo, "%s%s", f.msg, f.suffix)
	}
	rn.out.Case("broker", append([]hx.Group{hx.G(bufSize)}, evs...), obsAll)
}

func short(g hx.Group) string {
	s := fmt.Sprint([]int64(g))
	if len(s) > 160 {
		s = s[:160] + "..."
	}
	return s
}

func main() {
	logging.SetLevel(logging.OffLevel)
	if os.Getenv("VERIF_LOG") != "" {
		logging.SetLevel(logging.TraceLevel)
	}
	auth.Register("verif", theAuth)
	outPrefix := "/verif/replays/tmp/broker"
	if len(os.Args) > 1 {
		outPrefix = os.Args[1]
	}
	rn := &runner{out: hx.NewOut(outPrefix), stats: map[string]int{}}
	finish := func() {
		rn.out.Close()
		m := map[string]interface{}{"cases": rn.out.N}
		for k, v := range rn.stats {
			m[k] = v
		}
		b, _ := json.MarshalIndent(m, "", " ")
		os.WriteFile(outPrefix+".stats", b, 0o644)
	}
	if len(os.Args) > 3 && os.Args[2] == "-cases" {
		for _, c := range hx.ReadCases(os.Args[3]) {
			rn.run(c[1:])
		}
		finish()
		return
	}
	r := hx.NewRng(hx.EnvSeed())
	n := hx.EnvInt("VERIF_BROKER_N", 150)
	focus := os.Getenv("VERIF_BROKER_FOCUS")
	for _, h := range corpus() {
		rn.run(h)
		rn.stats["corpus"]++
	}
	for i := 0; i < n; i++ {
		rn.run(genHistory(r, focus))
		rn.stats["history"]++
	}
	// requests with many filters: their own stream, so that the histories above stay the same for a given seed
	rb := hx.NewRng(hx.EnvSeed() + 7919)
	for i, nb := 0, 3+n/40; i < nb; i++ {
		rn.run(genBigSubscribe(rb, i+int(hx.EnvSeed())))
		rn.stats["big-subscribe"]++
	}
	for i, nb := 0, 2+n/60; i < nb; i++ {
		rn.run(genOddConnects(rb, i+int(hx.EnvSeed())))
		rn.stats["odd-connects"]++
	}
	finish()
	_ = io.EOF
}
