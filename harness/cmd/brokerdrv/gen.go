package main

import (
	"fmt"
	"strings"

	"verifharness/hx"
	"verifharness/mq"
)

var filterVocab = []string{"a", "a/b", "a/+", "a/#", "+/b", "#", "b/c", "a/b/c", "+/+", "b/#", "c/d", "+"}
var nameVocab = []string{"a", "a/b", "b/c", "a/b/c", "b", "c/d", "a/c"}
var badFilters = []string{"a/#/b", "a#", "+b", "", "a/b+", "#/x"}
var clientIDs = []string{"ca", "cb", "cc", "cd", "ce"}

type gconn struct {
	id       int
	cid      string
	subs     []string
	pending2 []int // QoS 2 identifiers sent and not yet released, in order
	nextPid  int
}

type gen struct {
	r      *hx.Rng
	evs    []hx.Group
	live   []*gconn
	nextID int
	inproc map[int][]string
}

func evConnect(id int, authok bool, b []byte) hx.Group {
	a := int64(1)
	if !authok {
		a = 0
	}
	return hx.GB([]int64{1, int64(id), a}, b)
}
func evBytes(id int, b []byte) hx.Group { return hx.GB([]int64{2, int64(id)}, b) }
func evDrop(id int) hx.Group            { return hx.G(3, int64(id)) }

func (g *gen) liveCid(cid string) bool {
	for _, c := range g.live {
		if c.cid == cid && cid != "" {
			return true
		}
	}
	return false
}

func (g *gen) remove(c *gconn) {
	for i, x := range g.live {
		if x == c {
			g.live = append(g.live[:i], g.live[i+1:]...)
			return
		}
	}
}

func (g *gen) payload() []byte {
	r := g.r
	switch {
	case r.Chance(8):
		return nil
	case r.Chance(3):
		return r.Bytes(9000 + r.Intn(8000))
	}
	return r.Bytes(1 + r.Intn(12))
}

func (g *gen) connect() {
	r := g.r
	g.nextID++
	id := g.nextID
	cid := clientIDs[r.Intn(len(clientIDs))]
	if r.Chance(10) {
		cid = ""
	}
	if g.liveCid(cid) {
		return
	}
	o := mq.ConnectOpts{ClientID: cid, Clean: r.Chance(45), KeepAlive: []int{0, 60, 600}[r.Intn(3)], Flags: -1}
	if cid == "" {
		o.Clean = true
	}
	if r.Chance(40) {
		// a client usually reconnects with the same will topic and payload; QoS and retain vary
		o.Will, o.WillTopic, o.WillMsg, o.WillQoS, o.WillRet = true, "will/"+nameVocab[r.Intn(3)], r.Bytes(1+r.Intn(5)), r.Intn(3), r.Chance(20)
		if cid != "" && r.Chance(75) {
			o.WillTopic, o.WillMsg = "will/"+cid, []byte("gone "+cid)
		}
	}
	if r.Chance(20) {
		o.User, o.Pass = "u", "p"
	}
	authok := !r.Chance(5)
	pkt := mq.Connect(o)
	bad := false
	switch k := r.Intn(100); {
	case k < 3: // unsupported protocol level
		o.Level, o.Proto = byte(5+r.Intn(3)), "MQTT"
		pkt, bad = mq.Connect(o), true
	case k < 5: // protocol name / level mismatch
		o.Level, o.Proto = 4, "MQIsdp"
		pkt, bad = mq.Connect(o), true
	case k < 8: // unacceptable client identifier
		o.ClientID = []string{strings.Repeat("x", 33), "a\x01b", "dev\x7f01", "\x7f", "a\x1fb", "caf\xc3\xa9", "\x80"}[r.Intn(7)]
		pkt, bad = mq.Connect(o), true
	case k < 10: // empty identifier without clean session
		o.ClientID, o.Clean = "", false
		pkt, bad = mq.Connect(o), true
	case k < 12: // reserved connect flag set / will QoS 3
		o.Flags = []int{1, 0x1c, 0x08, 0x20}[r.Intn(4)]
		pkt, bad = mq.Connect(o), true
	case k < 15: // another packet type first
		pkt, bad = [][]byte{mq.Pingreq(), mq.Publish("a", []byte("x"), 0, true, false, 0), mq.Subscribe(1, []string{"#"}, []int{0}), mq.Disconnect(), {0x00, 0x00}, {0xf0, 0x00}}[r.Intn(6)], true
	case k < 17: // garbage / broken framing
		pkt, bad = [][]byte{{0x10, 0xff, 0xff, 0xff, 0xff, 0x7f}, {0x10, 0x02, 0x00, 0x04}, {0x10, 0x06, 0x00, 0x04, 'M', 'Q', 'T', 'T'}}[r.Intn(3)], true
	}
	b := pkt
	if !bad && authok && r.Chance(25) {
		// further packets right behind the CONNECT
		b = append(append([]byte(nil), pkt...), mq.Subscribe(9, []string{filterVocab[r.Intn(len(filterVocab))]}, []int{r.Intn(3)})...)
		if r.Bool() {
			b = append(b, mq.Pingreq()...)
		}
	} else if (bad || !authok) && r.Chance(40) {
		// packets after a first packet that will be refused must have no effect
		b = append(append([]byte(nil), pkt...), mq.Publish("a/b", []byte("ghost"), 0, true, false, 0)...)
		b = append(b, mq.Subscribe(3, []string{"#"}, []int{1})...)
	}
	g.evs = append(g.evs, evConnect(id, authok, b))
	if !bad && authok {
		c := &gconn{id: id, cid: o.ClientID, nextPid: 1 + r.Intn(100)}
		g.live = append(g.live, c)
	}
}

func (g *gen) step() {
	r := g.r
	if len(g.live) == 0 || r.Chance(12) {
		g.connect()
		return
	}
	c := g.live[r.Intn(len(g.live))]
	switch k := r.Intn(100); {
	case k < 22: // SUBSCRIBE
		n := 1 + r.Intn(3)
		if r.Chance(10) {
			n = 5 + r.Intn(4)
		}
		var fs []string
		var qs []int
		for i := 0; i < n; i++ {
			f := filterVocab[r.Intn(len(filterVocab))]
			if r.Chance(6) {
				f = badFilters[r.Intn(len(badFilters))]
			}
			q := r.Intn(3)
			if r.Chance(3) {
				q = 3
			}
			fs, qs = append(fs, f), append(qs, q)
			c.subs = append(c.subs, f)
		}
		g.evs = append(g.evs, evBytes(c.id, mq.Subscribe(1+r.Intn(65535), fs, qs)))
	case k < 30: // UNSUBSCRIBE
		n := 1 + r.Intn(3)
		if r.Chance(10) {
			n = 5
		}
		var fs []string
		for i := 0; i < n; i++ {
			if len(c.subs) > 0 && r.Chance(80) {
				fs = append(fs, c.subs[r.Intn(len(c.subs))])
			} else {
				fs = append(fs, filterVocab[r.Intn(len(filterVocab))])
			}
		}
		g.evs = append(g.evs, evBytes(c.id, mq.Unsubscribe(1+r.Intn(65535), fs)))
	case k < 62: // PUBLISH
		q := r.Intn(3)
		pid := 0
		if q > 0 {
			c.nextPid = c.nextPid%65535 + 1
			pid = c.nextPid
		}
		t := nameVocab[r.Intn(len(nameVocab))]
		// DUP on a packet the broker sees for the first time: the retransmission of a PUBLISH that got lost
		pkt := mq.Publish(t, g.payload(), q, r.Chance(25), q > 0 && r.Chance(12), pid)
		if q == 2 {
			c.pending2 = append(c.pending2, pid)
		}
		if r.Chance(10) { // two packets in one write
			pkt = append(pkt, mq.Publish(nameVocab[r.Intn(len(nameVocab))], g.payload(), 0, false, false, 0)...)
		}
		g.evs = append(g.evs, evBytes(c.id, pkt))
	case k < 72: // PUBREL (in order), or a duplicate PUBLISH, or a repeated PUBREL
		if len(c.pending2) == 0 {
			g.evs = append(g.evs, evBytes(c.id, mq.Ack(mq.PUBREL, 1+r.Intn(500))))
			return
		}
		pid := c.pending2[0]
		switch {
		case r.Chance(15):
			g.evs = append(g.evs, evBytes(c.id, mq.Publish("a/b", []byte("dup"), 2, false, true, pid)))
		default:
			c.pending2 = c.pending2[1:]
			b := mq.Ack(mq.PUBREL, pid)
			if r.Chance(15) {
				b = append(b, mq.Ack(mq.PUBREL, pid)...)
			}
			g.evs = append(g.evs, evBytes(c.id, b))
			if r.Chance(12) {
				// a late retransmission (DUP) after the exchange was released: a new exchange with that identifier
				g.evs = append(g.evs, evBytes(c.id, mq.Publish("a/b", []byte("late dup"), 2, false, true, pid)))
				c.pending2 = append(c.pending2, pid)
			}
		}
	case k < 77: // acknowledgements a subscriber sends
		ty := []int{mq.PUBACK, mq.PUBREC, mq.PUBCOMP}[r.Intn(3)]
		g.evs = append(g.evs, evBytes(c.id, mq.Ack(ty, 1+r.Intn(300))))
	case k < 80:
		g.evs = append(g.evs, evBytes(c.id, mq.Pingreq()))
	case k < 84: // DISCONNECT
		g.evs = append(g.evs, evBytes(c.id, mq.Disconnect()))
		g.remove(c)
	case k < 89: // abrupt close
		g.evs = append(g.evs, evDrop(c.id))
		g.remove(c)
	case k < 92: // protocol error: the connection must be ended, nobody else hurt
		bad := [][]byte{
			{0x00, 0x00}, {0xf0, 0x00}, {0x31, 0x02, 0x00, 0x05}, {0x82, 0x03, 0x00, 0x01, 0x00}, {0x30, 0x80, 0x80, 0x80, 0x80, 0x01},
			{0x40, 0x03, 0x00, 0x01, 0x00}, {0x36, 0x03, 0x00, 0x01, 'a'}, {0x30, 0x03, 0x00, 0x01, '#'}, {0xe0, 0x01, 0x00},
		}[r.Intn(9)]
		g.evs = append(g.evs, evBytes(c.id, bad))
		g.remove(c)
	case k < 95: // in-process subscribe / unsubscribe
		s := 1000 + r.Intn(2)
		if len(g.inproc[s]) > 0 && r.Chance(40) {
			f := g.inproc[s][r.Intn(len(g.inproc[s]))]
			g.evs = append(g.evs, hx.GB([]int64{5, int64(s)}, []byte(f)))
		} else {
			f := filterVocab[r.Intn(len(filterVocab))]
			g.inproc[s] = append(g.inproc[s], f)
			g.evs = append(g.evs, hx.GB([]int64{4, int64(s), int64(r.Intn(3))}, []byte(f)))
		}
	case k < 98: // in-process publish
		q := r.Intn(3)
		pid := 0
		if q > 0 {
			pid = 1 + r.Intn(1000) // (a decoded QoS>0 PUBLISH with identifier 0 is not a valid packet)
		}
		t := nameVocab[r.Intn(len(nameVocab))]
		if r.Bool() {
			// built with the setters, as an application would: the identifier is assigned by the library
			ret := int64(0)
			if r.Chance(30) {
				ret = 1
			}
			g.evs = append(g.evs, hx.GB([]int64{8, int64(q), ret, int64(len(t))}, append([]byte(t), g.payload()...)))
		} else {
			g.evs = append(g.evs, hx.GB([]int64{6}, mq.Publish(t, g.payload(), q, r.Chance(30), false, pid)))
		}
	default: // a second CONNECT, a CONNACK, a SUBACK from a client: ignored
		b := [][]byte{mq.Connect(mq.ConnectOpts{ClientID: "zz", Clean: true, Flags: -1}), {0x20, 0x02, 0x00, 0x00}, {0x90, 0x03, 0x00, 0x01, 0x00}, {0xd0, 0x00}}[r.Intn(4)]
		g.evs = append(g.evs, evBytes(c.id, b))
	}
}

// several connections hold the same filter at different QoS; they leave in a random order (UNSUBSCRIBE,
// DISCONNECT, abrupt close) while a publisher keeps publishing at QoS 1 / 2
func genHotFilter(r *hx.Rng) []hx.Group {
	var evs []hx.Group
	f := filterVocab[r.Intn(len(filterVocab))]
	t := strings.NewReplacer("+", "k", "#", "k").Replace(f)
	n := 3 + r.Intn(3)
	evs = append(evs, evConnect(1, true, mq.Connect(mq.ConnectOpts{ClientID: "pub", Clean: true, KeepAlive: 60, Flags: -1})))
	var live []int
	for i := 0; i < n; i++ {
		id := 2 + i
		evs = append(evs, evConnect(id, true, mq.Connect(mq.ConnectOpts{ClientID: fmt.Sprintf("s%d", id), Clean: r.Bool(), KeepAlive: 60, Flags: -1})))
		evs = append(evs, evBytes(id, mq.Subscribe(10+i, []string{f}, []int{r.Intn(3)})))
		live = append(live, id)
	}
	pid := 1
	pub := func() {
		q := 1 + r.Intn(2)
		pid++
		evs = append(evs, evBytes(1, mq.Publish(t, r.Bytes(1+r.Intn(6)), q, false, false, pid)))
		if q == 2 {
			evs = append(evs, evBytes(1, mq.Ack(mq.PUBREL, pid)))
		}
	}
	pub()
	for len(live) > 1 {
		j := r.Intn(len(live))
		id := live[j]
		live = append(live[:j], live[j+1:]...)
		switch r.Intn(3) {
		case 0:
			evs = append(evs, evBytes(id, mq.Unsubscribe(99, []string{f})))
		case 1:
			evs = append(evs, evBytes(id, mq.Disconnect()))
		default:
			evs = append(evs, evDrop(id))
		}
		pub()
		if r.Chance(25) {
			evs = append(evs, evBytes(live[r.Intn(len(live))], mq.Subscribe(77, []string{f}, []int{r.Intn(3)})))
			pub()
		}
	}
	return evs
}

// one client identifier connects again and again (mostly CleanSession=0) with the same will topic and
// payload but varying will QoS / retain, or without a will, and ends in every possible way; a watcher
// holds will/# and a late subscriber looks at what was retained
func genWillSessions(r *hx.Rng) []hx.Group {
	var evs []hx.Group
	evs = append(evs, evConnect(1, true, mq.Connect(mq.ConnectOpts{ClientID: "watch", Clean: true, KeepAlive: 60, Flags: -1})))
	evs = append(evs, evBytes(1, mq.Subscribe(1, []string{"will/#"}, []int{2})))
	id := 1
	for i, n := 0, 3+r.Intn(4); i < n; i++ {
		id++
		o := mq.ConnectOpts{ClientID: "dev", Clean: r.Chance(20), KeepAlive: 60, Flags: -1}
		if r.Chance(80) {
			o.Will, o.WillTopic, o.WillMsg, o.WillQoS, o.WillRet = true, "will/dev", []byte("gone"), r.Intn(3), r.Chance(35)
			if r.Chance(15) {
				o.WillMsg = []byte("other")
			}
			if r.Chance(15) {
				// a will the topic store refuses to route: the rest of the teardown must not depend on it
				o.WillTopic = []string{"$will/dev", "will/$dev"}[r.Intn(2)]
			}
		}
		evs = append(evs, evConnect(id, true, mq.Connect(o)))
		if r.Chance(30) {
			evs = append(evs, evBytes(id, mq.Publish("a", []byte("x"), 0, false, false, 0)))
		}
		switch r.Intn(4) {
		case 0:
			evs = append(evs, evBytes(id, mq.Disconnect()))
		case 1:
			evs = append(evs, evBytes(id, []byte{0xf0, 0x00}))
		default:
			evs = append(evs, evDrop(id))
		}
		if r.Chance(40) {
			id++
			evs = append(evs, evConnect(id, true, mq.Connect(mq.ConnectOpts{ClientID: "late", Clean: true, KeepAlive: 60, Flags: -1})))
			evs = append(evs, evBytes(id, mq.Subscribe(2, []string{"will/dev"}, []int{r.Intn(3)})))
			evs = append(evs, evBytes(id, mq.Disconnect()))
		}
		if r.Chance(20) {
			evs = append(evs, evBytes(1, mq.Publish("will/dev", nil, 0, true, false, 0))) // clear what was retained
		}
	}
	return evs
}

// first packets that are refused (credentials, protocol level, flags, framing) but name the client
// identifier of a stored session or of a live connection, with another CleanSession flag and another
// will: the stored session, the live connection and its will must be what they were
func genIntruder(r *hx.Rng) []hx.Group {
	var evs []hx.Group
	evs = append(evs, evConnect(1, true, mq.Connect(mq.ConnectOpts{ClientID: "watch", Clean: true, KeepAlive: 60, Flags: -1})))
	evs = append(evs, evBytes(1, mq.Subscribe(1, []string{"will/#"}, []int{1})))
	id := 1
	dev := func(clean bool) int {
		id++
		o := mq.ConnectOpts{ClientID: "dev", Clean: clean, KeepAlive: 60, Flags: -1, Will: true, WillTopic: "will/dev", WillMsg: []byte("gone"), WillQoS: r.Intn(2)}
		evs = append(evs, evConnect(id, true, mq.Connect(o)))
		return id
	}
	intrude := func() {
		id++
		o := mq.ConnectOpts{ClientID: "dev", Clean: r.Bool(), KeepAlive: 60, Flags: -1, User: "bad", Pass: "x"}
		if r.Chance(70) {
			o.Will, o.WillTopic, o.WillMsg, o.WillQoS, o.WillRet = true, "will/dev", []byte("pwned"), r.Intn(3), r.Chance(30)
		}
		authok := false
		switch r.Intn(6) {
		case 0:
			o.Level, o.Proto, authok = 5, "MQTT", r.Bool()
		case 1:
			o.Flags, authok = []int{1, 0x1c, 0x08}[r.Intn(3)], r.Bool()
		}
		b := mq.Connect(o)
		if r.Chance(30) {
			b = append(b, mq.Subscribe(3, []string{"#"}, []int{1})...)
			b = append(b, mq.Publish("t/x", []byte("ghost"), 0, true, false, 0)...)
		}
		evs = append(evs, evConnect(id, authok, b))
	}
	d := dev(false)
	evs = append(evs, evBytes(d, mq.Subscribe(2, []string{"t/x", "t/+"}[:1+r.Intn(2)], []int{1, 0})))
	for round, n := 0, 2+r.Intn(3); round < n; round++ {
		if r.Bool() {
			// stored session
			if r.Bool() {
				evs = append(evs, evBytes(d, mq.Disconnect()))
			} else {
				evs = append(evs, evDrop(d))
			}
			for k := 1 + r.Intn(2); k > 0; k-- {
				intrude()
			}
			d = dev(false)
		} else {
			// live connection
			for k := 1 + r.Intn(2); k > 0; k-- {
				intrude()
			}
			evs = append(evs, evDrop(d))
			d = dev(false)
		}
		evs = append(evs, evBytes(1, mq.Publish("t/x", r.Bytes(1+r.Intn(4)), 1, false, false, 20+round)))
		evs = append(evs, evBytes(d, mq.Ack(mq.PUBACK, 20+round)))
	}
	return evs
}

// one client identifier with a persistent session: it subscribes, re-subscribes the same filters at other QoS,
// unsubscribes, ends in every way and comes back (sometimes with CleanSession=1, sometimes after somebody else
// used the identifier); after every resumption in-process publishes at QoS 2 probe every filter of the pool, so
// that the granted QoS of what was restored shows in the deliveries
func genSessions(r *hx.Rng) []hx.Group {
	var evs []hx.Group
	pool := []string{"s/a", "s/b", "s/+", "s/#", "t"}
	names := []string{"s/a", "s/b", "t"}
	id := 0
	conn := func(clean bool) int {
		id++
		evs = append(evs, evConnect(id, true, mq.Connect(mq.ConnectOpts{ClientID: "dev", Clean: clean, KeepAlive: 60, Flags: -1})))
		return id
	}
	probe := func() {
		for _, t := range names {
			evs = append(evs, hx.GB([]int64{8, 2, 0, int64(len(t))}, append([]byte(t), r.Bytes(1+r.Intn(3))...)))
		}
	}
	d := conn(r.Chance(15))
	pid := 1
	for round, n := 0, 2+r.Intn(3); round < n; round++ {
		for k, m := 0, 2+r.Intn(4); k < m; k++ {
			pid++
			switch r.Intn(5) {
			case 0:
				evs = append(evs, evBytes(d, mq.Unsubscribe(pid, []string{pool[r.Intn(len(pool))]})))
			default:
				nf := 1 + r.Intn(2)
				var fs []string
				var qs []int
				if r.Chance(35) {
					// a rejected entry in front of the accepted ones: a malformed filter, or a held filter with an invalid QoS
					if r.Bool() {
						fs, qs = append(fs, badFilters[r.Intn(len(badFilters))]), append(qs, r.Intn(3))
					} else {
						fs, qs = append(fs, pool[r.Intn(len(pool))]), append(qs, 3+r.Intn(200))
					}
				}
				for j := 0; j < nf; j++ {
					fs, qs = append(fs, pool[r.Intn(len(pool))]), append(qs, r.Intn(3))
				}
				if r.Chance(20) {
					fs, qs = append(fs, fs[len(fs)-1]), append(qs, 3+r.Intn(200)) // the filter just granted, again, with an invalid QoS
				}
				evs = append(evs, evBytes(d, mq.Subscribe(pid, fs, qs)))
			}
		}
		if r.Chance(55) {
			probe()
		}
		switch r.Intn(3) {
		case 0:
			evs = append(evs, evBytes(d, mq.Disconnect()))
		case 1:
			evs = append(evs, evBytes(d, []byte{0xf0, 0x00}))
		default:
			evs = append(evs, evDrop(d))
		}
		if r.Chance(15) {
			// somebody uses the identifier with CleanSession=1 in between: the stored session is discarded
			x := conn(true)
			evs = append(evs, evBytes(x, mq.Disconnect()))
		}
		d = conn(r.Chance(15))
		probe()
	}
	return evs
}

// many QoS 2 exchanges in flight at once on one connection (more than the initial capacity of the session's
// queue, after a number of completed exchanges that leaves the queue's head anywhere), released in order, out
// of order, with repeated PUBLISH and PUBREL packets; a subscriber at QoS 0 sees what is handed on
func genDeepQos2(r *hx.Rng) []hx.Group {
	var evs []hx.Group
	evs = append(evs, evConnect(1, true, mq.Connect(mq.ConnectOpts{ClientID: "sub", Clean: true, KeepAlive: 60, Flags: -1})))
	evs = append(evs, evBytes(1, mq.Subscribe(1, []string{"q/#"}, []int{0})))
	evs = append(evs, evConnect(2, true, mq.Connect(mq.ConnectOpts{ClientID: "pub", Clean: r.Bool(), KeepAlive: 60, Flags: -1})))
	pid := 1 + r.Intn(1000)
	for k, n := 0, r.Intn(20); k < n; k++ { // completed exchanges first
		pid++
		evs = append(evs, evBytes(2, mq.Publish("q/a", r.Bytes(2), 2, false, false, pid)))
		evs = append(evs, evBytes(2, mq.Ack(mq.PUBREL, pid)))
	}
	var open []int
	for k, n := 0, 14+r.Intn(24); k < n; k++ {
		pid++
		open = append(open, pid)
		b := mq.Publish("q/b", r.Bytes(1+r.Intn(3)), 2, false, false, pid)
		if r.Chance(10) {
			b = append(b, mq.Publish("q/b", []byte("again"), 2, false, true, pid)...)
		}
		evs = append(evs, evBytes(2, b))
	}
	inOrder := r.Chance(70)
	for len(open) > 0 {
		j := 0
		if !inOrder && r.Chance(30) {
			j = r.Intn(len(open))
		}
		b := mq.Ack(mq.PUBREL, open[j])
		if r.Chance(8) {
			b = append(b, mq.Ack(mq.PUBREL, open[j])...)
		}
		evs = append(evs, evBytes(2, b))
		open = append(open[:j], open[j+1:]...)
	}
	return evs
}

// retained messages on leaf and inner topics of a small tree, updated and cleared, and new subscriptions with every
// shape of wildcard filter over that tree (a "+" level followed by "#", "+" at the end, "#" alone, ...): each must be
// sent exactly the retained messages its filter matches
func genRetainedTree(r *hx.Rng) []hx.Group {
	var evs []hx.Group
	names := []string{"s", "s/k", "s/h", "s/h/t", "s/h/t/u", "x", "x/y"}
	filters := []string{"s/+/#", "+/#", "+/+/#", "s/#", "s/+", "#", "+", "s/+/t", "s/h/#", "+/+", "s/+/+/#", "s/k/#", "x/#", "+/y"}
	evs = append(evs, evConnect(1, true, mq.Connect(mq.ConnectOpts{ClientID: "rp", Clean: true, KeepAlive: 60, Flags: -1})))
	for k, n := 0, 3+r.Intn(6); k < n; k++ {
		t := names[r.Intn(len(names))]
		var pl []byte
		if !r.Chance(15) {
			pl = r.Bytes(1 + r.Intn(3))
		}
		evs = append(evs, evBytes(1, mq.Publish(t, pl, 0, true, false, 0)))
	}
	id := 1
	for k, n := 0, 3+r.Intn(5); k < n; k++ {
		id++
		evs = append(evs, evConnect(id, true, mq.Connect(mq.ConnectOpts{ClientID: "rs" + string(rune('a'+k)), Clean: true, KeepAlive: 60, Flags: -1})))
		nf := 1 + r.Intn(3)
		var fs []string
		var qs []int
		for j := 0; j < nf; j++ {
			fs, qs = append(fs, filters[r.Intn(len(filters))]), append(qs, r.Intn(3))
		}
		evs = append(evs, evBytes(id, mq.Subscribe(1+k, fs, qs)))
		if r.Chance(40) {
			t := names[r.Intn(len(names))]
			var pl []byte
			if !r.Chance(30) {
				pl = r.Bytes(1 + r.Intn(3))
			}
			evs = append(evs, evBytes(1, mq.Publish(t, pl, 0, true, false, 0)))
		}
		if r.Chance(50) {
			evs = append(evs, evBytes(id, mq.Disconnect()))
		}
	}
	return evs
}

// connections whose client writes its last packets and closes at once, over a transport that reports the end of the
// stream together with the last bytes: a DISCONNECT among them discards the will, publishes among them are
// delivered, anything else ends the connection as a failure (will published)
func genSendClose(r *hx.Rng) []hx.Group {
	var evs []hx.Group
	evs = append(evs, evConnect(1, true, mq.Connect(mq.ConnectOpts{ClientID: "watch", Clean: true, KeepAlive: 60, Flags: -1})))
	evs = append(evs, evBytes(1, mq.Subscribe(1, []string{"will/#", "d/#"}, []int{1, 1})))
	id := 1
	for k, n := 0, 2+r.Intn(4); k < n; k++ {
		id++
		cid := "sc" + string(rune('a'+k))
		o := mq.ConnectOpts{ClientID: cid, Clean: r.Bool(), KeepAlive: 60, Flags: -1, Will: true, WillTopic: "will/" + cid, WillMsg: []byte("gone"), WillQoS: r.Intn(2), WillRet: r.Chance(20)}
		evs = append(evs, evConnect(id, true, mq.Connect(o)))
		var b []byte
		if r.Chance(60) {
			b = append(b, mq.Publish("d/x", r.Bytes(1+r.Intn(4)), r.Intn(2), false, false, 10+k)...)
		}
		if r.Chance(65) {
			b = append(b, mq.Disconnect()...)
		}
		if len(b) == 0 {
			b = mq.Pingreq()
		}
		evs = append(evs, hx.GB([]int64{9, int64(id)}, b))
	}
	return evs
}

// SUBSCRIBE / UNSUBSCRIBE requests with many filters (the SUBACK's remaining length crosses the one-byte limit at 126
// return codes) and forwarded PUBLISH packets whose remaining length lies on either side of 127 / 128
func genBigSubscribe(r *hx.Rng, k int) []hx.Group {
	var evs []hx.Group
	sizes := []int{125, 126, 127, 128, 129, 200, 60 + r.Intn(200)}
	n := sizes[k%len(sizes)]
	evs = append(evs, evConnect(1, true, mq.Connect(mq.ConnectOpts{ClientID: "bigs", Clean: true, KeepAlive: 60, Flags: -1})))
	evs = append(evs, evConnect(2, true, mq.Connect(mq.ConnectOpts{ClientID: "bigp", Clean: true, KeepAlive: 60, Flags: -1})))
	var fs []string
	var qs []int
	for i := 0; i < n; i++ {
		f := "b/" + string(rune('a'+i%26)) + string(rune('a'+(i/26)%26))
		switch {
		case r.Chance(4):
			f = badFilters[r.Intn(len(badFilters))]
		case r.Chance(5) && i > 0:
			f = fs[r.Intn(i)]
		}
		q := r.Intn(3)
		if r.Chance(3) {
			q = 3
		}
		fs, qs = append(fs, f), append(qs, q)
	}
	evs = append(evs, evBytes(1, mq.Subscribe(1+r.Intn(65535), fs, qs)))
	last := "b/" + string(rune('a'+(n-1)%26)) + string(rune('a'+((n-1)/26)%26))
	evs = append(evs, evBytes(2, mq.Publish(last, []byte("x"), 0, false, false, 0)))
	evs = append(evs, evBytes(2, mq.Publish("b/aa", []byte("y"), 1, false, false, 3)))
	// forwarded packets around the one-byte remaining-length limit: 2 + len(topic) + payload = 126 .. 129
	for _, rl := range []int{126, 127, 128, 129} {
		evs = append(evs, evBytes(2, mq.Publish("b/aa", r.Bytes(rl-2-4), 0, false, false, 0)))
	}
	m := n/2 + r.Intn(n/2)
	evs = append(evs, evBytes(1, mq.Unsubscribe(1+r.Intn(65535), fs[:m])))
	evs = append(evs, evBytes(2, mq.Publish("b/aa", []byte("z"), 0, false, false, 0)))
	evs = append(evs, evBytes(2, mq.Publish(last, []byte("w"), 0, false, false, 0)))
	return evs
}

// CONNECT packets with unusual but acceptable combinations: a password without a user name, a user name without a
// password, keep-alive 0, an empty client identifier (the broker changes the message it stores in these cases), each
// followed by a PINGREQ, and then by a second client that takes the same identifier with CleanSession=0: nothing of
// the first attempt may be left behind
func genOddConnects(r *hx.Rng, k int) []hx.Group {
	var evs []hx.Group
	id := 0
	for n := 0; n < 4; n++ {
		cid := []string{"odd", "", "odd2"}[(k+n)%3]
		o := mq.ConnectOpts{ClientID: cid, Clean: cid == "" || r.Bool(), KeepAlive: []int{0, 60}[(k+n/2)%2], Flags: -1}
		switch (k + n) % 4 {
		case 0, 1:
			o.Pass = "secret"
		case 2:
			o.User = "user"
		}
		if r.Chance(40) {
			o.Will, o.WillTopic, o.WillMsg = true, "will/odd", []byte("gone")
		}
		id++
		evs = append(evs, evConnect(id, true, mq.Connect(o)))
		evs = append(evs, evBytes(id, mq.Pingreq()))
		if r.Bool() {
			evs = append(evs, evBytes(id, mq.Subscribe(2, []string{"odd/t"}, []int{1})))
		}
		if r.Bool() {
			evs = append(evs, evBytes(id, mq.Disconnect()))
		} else {
			evs = append(evs, evDrop(id))
		}
		if cid != "" {
			id++
			evs = append(evs, evConnect(id, true, mq.Connect(mq.ConnectOpts{ClientID: cid, Clean: false, KeepAlive: 60, Flags: -1})))
			evs = append(evs, evBytes(id, mq.Pingreq()))
			evs = append(evs, evBytes(id, mq.Publish("odd/t", []byte("x"), 0, false, false, 0)))
			evs = append(evs, evBytes(id, mq.Disconnect()))
		}
	}
	return evs
}

func genHistory(r *hx.Rng, focus string) []hx.Group {
	switch k := r.Intn(100); {
	case k < 18:
		return genHotFilter(r)
	case k < 32:
		return genWillSessions(r)
	case k < 40:
		return genIntruder(r)
	case k < 50:
		return genSessions(r)
	case k < 56:
		return genDeepQos2(r)
	case k < 62:
		return genRetainedTree(r)
	case k < 67:
		return genSendClose(r)
	}
	g := &gen{r: r, inproc: map[int][]string{}}
	n := 12 + r.Intn(40)
	g.connect()
	g.connect()
	for i := 0; i < n; i++ {
		g.step()
	}
	if r.Chance(15) {
		g.evs = append(g.evs, hx.G(7))
	}
	return g.evs
}

// corpus: regression witnesses of repaired defects and the listed findings
func corpus() [][]hx.Group {
	cn := func(id int, cid string, clean bool) hx.Group {
		return evConnect(id, true, mq.Connect(mq.ConnectOpts{ClientID: cid, Clean: clean, KeepAlive: 60, Flags: -1}))
	}
	cw := func(id int, cid string, clean bool, wt string, wq int, wr bool) hx.Group {
		return evConnect(id, true, mq.Connect(mq.ConnectOpts{ClientID: cid, Clean: clean, KeepAlive: 60, Will: true, WillTopic: wt, WillMsg: []byte("gone " + cid), WillQoS: wq, WillRet: wr, Flags: -1}))
	}
	sub := func(id, pid int, fs []string, qs []int) hx.Group { return evBytes(id, mq.Subscribe(pid, fs, qs)) }
	pub := func(id int, t, p string, q int, ret bool, pid int) hx.Group {
		return evBytes(id, mq.Publish(t, []byte(p), q, ret, false, pid))
	}
	return [][]hx.Group{
		// SUBSCRIBE with a rejected filter in the middle: one SUBACK with 0x80, the others take effect
		{cn(1, "ca", true), cn(2, "cb", true), sub(1, 5, []string{"ok/1", "bad/#/x", "ok/2"}, []int{1, 1, 2}), pub(2, "ok/1", "m1", 0, false, 0), pub(2, "ok/2", "m2", 1, false, 7)},
		// UNSUBSCRIBE with five filters
		{cn(1, "ca", true), cn(2, "cb", true), sub(1, 5, []string{"t/1", "t/2", "t/3", "t/4", "t/5"}, []int{0, 0, 0, 0, 0}),
			evBytes(1, mq.Unsubscribe(6, []string{"t/1", "t/2", "t/3", "t/4", "t/5"})), pub(2, "t/5", "x", 0, false, 0), pub(2, "t/4", "x", 0, false, 0)},
		// resumed session takes the will of the new CONNECT
		{cn(9, "w", true), sub(9, 1, []string{"will/#"}, []int{1}), cn(1, "ca", false), evBytes(1, mq.Disconnect()), cw(2, "ca", false, "will/a", 1, false), evDrop(2),
			cw(3, "ca", false, "will/b", 0, false), evBytes(3, mq.Disconnect()), cn(4, "ca", false), evDrop(4)},
		// x/# matches x; retained clear keeps the parent; retained update isolation; empty payload downgrade
		{cn(1, "ca", true), cn(2, "cb", true), sub(1, 1, []string{"sport/#"}, []int{0}), pub(2, "sport", "s", 1, false, 3), pub(2, "a", "A", 1, true, 4), pub(2, "a/b", "B", 0, true, 0),
			pub(2, "a/b", "", 0, true, 0), sub(1, 2, []string{"a/#"}, []int{0}), pub(2, "a", "", 1, true, 5), sub(1, 3, []string{"#"}, []int{1})},
		// QoS 2: duplicates and repeated PUBREL; exactly one hand-over per exchange, at PUBREL
		{cn(1, "ca", true), cn(2, "cb", true), sub(1, 1, []string{"q/#"}, []int{2}), pub(2, "q/1", "m1", 2, false, 10), evBytes(2, mq.Publish("q/1", []byte("m1"), 2, false, true, 10)),
			pub(2, "q/2", "m2", 2, false, 11), evBytes(2, mq.Ack(mq.PUBREL, 10)), evBytes(2, mq.Ack(mq.PUBREL, 10)), evBytes(2, mq.Ack(mq.PUBREL, 11)), pub(2, "q/1", "m3", 2, false, 10), evBytes(2, mq.Ack(mq.PUBREL, 10))},
		// finding F18: PUBREL out of order, identifier reused before the earlier exchange was released
		{cn(1, "ca", true), cn(2, "cb", true), sub(1, 1, []string{"#"}, []int{2}), pub(2, "t", "m1", 2, false, 1), pub(2, "t", "m2", 2, false, 2), evBytes(2, mq.Ack(mq.PUBREL, 2)),
			pub(2, "t", "m3", 2, false, 2), evBytes(2, mq.Ack(mq.PUBREL, 1)), evBytes(2, mq.Ack(mq.PUBREL, 2))},
		// finding F17: two publishers use identifier 1: the subscriber holds two unacknowledged PUBLISH with identifier 1
		{cn(1, "ca", true), cn(2, "cb", true), cn(3, "cc", true), sub(1, 1, []string{"t"}, []int{1}), pub(2, "t", "from-2", 1, false, 1), pub(3, "t", "from-3", 1, false, 1)},
		// finding F7: empty levels
		{cn(1, "ca", true), cn(2, "cb", true), sub(1, 1, []string{"/b", "a/"}, []int{0, 0}), pub(2, "x/b", "1", 0, false, 0), pub(2, "a", "2", 0, false, 0), pub(2, "a/", "3", 0, false, 0)},
		// sessions: subscriptions survive with CleanSession=0, are gone with CleanSession=1
		{cn(1, "ca", false), sub(1, 1, []string{"s/+", "s/x"}, []int{1, 2}), evBytes(1, mq.Disconnect()), cn(2, "cb", true), pub(2, "s/x", "while away", 1, false, 1), cn(3, "ca", false),
			pub(2, "s/x", "back", 1, false, 2), evDrop(3), cn(4, "ca", true), pub(2, "s/x", "clean", 0, false, 0), evBytes(4, mq.Disconnect()), cn(5, "ca", false), pub(2, "s/x", "fresh", 0, false, 0)},
		// will with retain and QoS 2, server close
		{cn(9, "w", true), sub(9, 1, []string{"will/#"}, []int{2}), cw(1, "ca", true, "will/a", 2, true), evBytes(1, []byte{0xf0, 0x00}), cn(2, "cb", true), sub(2, 2, []string{"will/+"}, []int{1}),
			cw(3, "cc", true, "will/c", 1, false), hx.G(7)},
		// in-process subscriber and publisher
		{hx.GB([]int64{4, 1000, 1}, []byte("a/#")), cn(1, "ca", true), sub(1, 1, []string{"a/b"}, []int{2}), pub(1, "a/b", "x", 2, true, 5), evBytes(1, mq.Ack(mq.PUBREL, 5)),
			hx.GB([]int64{8, 1, 1, 3}, []byte("a/bsrv")), hx.GB([]int64{4, 1001, 0}, []byte("#")), hx.GB([]int64{5, 1000}, []byte("a/#")), pub(1, "a", "y", 0, false, 0)},
	}
}

var _ = fmt.Sprint
