// ringdrv: correspondence driver for the byte ring service/buffer.go (properties C14, C15, C17).
//
//  1. sequential histories of producer and consumer calls on small rings (16..64 bytes, so that
//     wrap-around happens constantly) and on rings of the real minimum size, written as cases for
//     the Coq model Ring/Seq.v; the bytes are a position-dependent pseudo-random stream, so the
//     oracle checks every byte a consumer call returns against the stream position it must have;
//  2. concurrent producer/consumer pairs on real buffers (Write/Read, reserve+commit/peek+commit,
//     ReadFrom/WriteTo pumps, writeMessage path) checked against the stream oracle only, every call
//     under a deadline (a stuck call is reported with a goroutine dump).
package main

import (
	"bytes"
	"encoding/json"
	"errors"
	"fmt"
	"io"
	"os"
	"runtime"
	"sync"
	"time"

	"github.com/mdzio/go-mqtt/service"
	"verifharness/hx"
)

// the byte at stream position i
func sb(i int64) byte { return byte((i*131 + (i >> 8) + 7) & 0xff) }

func streamBytes(from int64, n int) []byte {
	b := make([]byte, n)
	for k := range b {
		b[k] = sb(from + int64(k))
	}
	return b
}

type runner struct {
	out   *hx.Out
	stats map[string]int
}

func errCode(err error) int64 {
	switch {
	case err == nil:
		return 0
	case err == io.EOF:
		return 1
	case err.Error() == "bufio: buffer full":
		return 2
	case err == service.ErrBufferInsufficientData:
		return 3
	}
	return 5
}

func gbytes(g hx.Group, from int) []byte {
	b := make([]byte, 0, len(g))
	for _, x := range g[from:] {
		b = append(b, byte(x))
	}
	return b
}

// run executes a sequential history (ops that cannot block) on a real buffer.
func (rn *runner) run(size int64, small bool, ops []hx.Group) {
	var vb *service.VerifBuffer
	if small {
		vb = service.VerifNewSmallBuffer(size)
	} else {
		var err error
		vb, err = service.VerifNewBuffer(size)
		if err != nil {
			panic(err)
		}
		size = vb.Size()
	}
	bf := vb.B
	caseNo := rn.out.N
	var obs []hx.Group
	var consumed int64 // stream position of the next byte the consumer must see
	checkBytes := func(what string, from int64, b []byte) {
		for k, x := range b {
			if x != sb(from+int64(k)) {
				rn.out.Oracle(caseNo, "%s returned byte %#x at stream position %d, the producer committed %#x there", what, x, from+int64(k), sb(from+int64(k)))
				return
			}
		}
	}
	for _, op := range ops {
		switch op[0] {
		case 1:
			p := gbytes(op, 1)
			n, err := bf.Write(p)
			if err != nil {
				obs = append(obs, hx.G(errCode(err)))
			} else {
				obs = append(obs, hx.G(0, int64(n)))
			}
			rn.stats["write"]++
		case 2:
			w, wrap, err := bf.WriteWait(int(op[1]))
			if err != nil {
				obs = append(obs, hx.G(errCode(err)))
			} else {
				pseq, _, _, _, _, _ := vb.Probe()
				wr := int64(0)
				if wrap {
					wr = 1
				}
				obs = append(obs, hx.G(0, pseq&(size-1), int64(len(w)), wr))
			}
			rn.stats["writewait"]++
		case 3: // fill the window returned by the last WriteWait
			p := gbytes(op, 1)
			w, _, err := bf.WriteWait(len(p))
			if err != nil || len(w) < len(p) {
				panic("generator: fill without a fitting window")
			}
			copy(w, p)
			obs = append(obs, hx.G(0))
		case 4:
			n, err := bf.WriteCommit(int(op[1]))
			if err != nil {
				obs = append(obs, hx.G(errCode(err)))
			} else {
				obs = append(obs, hx.G(0, int64(n)))
			}
			rn.stats["writecommit"]++
		case 5:
			p := make([]byte, op[1])
			n, err := bf.Read(p)
			if err != nil {
				obs = append(obs, hx.G(errCode(err)))
			} else {
				obs = append(obs, hx.GB([]int64{0}, p[:n]))
				checkBytes("Read", consumed, p[:n])
				consumed += int64(n)
			}
			rn.stats["read"]++
		case 6:
			p, err := bf.ReadPeek(int(op[1]))
			if err != nil && err != service.ErrBufferInsufficientData {
				obs = append(obs, hx.G(errCode(err)))
			} else {
				short := int64(0)
				if err != nil {
					short = 1
				}
				obs = append(obs, hx.GB([]int64{0, short}, p))
				checkBytes("ReadPeek", consumed, p)
			}
			rn.stats["readpeek"]++
		case 7:
			p, err := bf.ReadWait(int(op[1]))
			if err != nil {
				obs = append(obs, hx.G(errCode(err)))
			} else {
				obs = append(obs, hx.GB([]int64{0}, p))
				checkBytes("ReadWait", consumed, p)
				if len(p) != int(op[1]) {
					rn.out.Oracle(caseNo, "ReadWait(%d) returned %d bytes", op[1], len(p))
				}
			}
			rn.stats["readwait"]++
		case 8:
			n, err := bf.ReadCommit(int(op[1]))
			if err != nil {
				obs = append(obs, hx.G(errCode(err)))
			} else {
				obs = append(obs, hx.G(0, int64(n)))
				consumed += int64(n)
			}
			rn.stats["readcommit"]++
		case 9:
			bf.Close()
			obs = append(obs, hx.G(0))
		case 10:
			pseq, cseq, gate, done, pfree, cfree := vb.Probe()
			d := int64(0)
			if done {
				d = 1
			}
			obs = append(obs, hx.G(pseq, cseq, gate, d))
			if !pfree || !cfree {
				rn.out.Oracle(caseNo, "an internal mutex of the buffer is still locked between calls (pcond.L free=%v, ccond.L free=%v)", pfree, cfree)
			}
			if cseq != consumed {
				rn.out.Oracle(caseNo, "consumer cursor %d but the consumer obtained %d bytes", cseq, consumed)
			}
		case 11:
			p := gbytes(op, 1)
			n, wrap, err := vb.VerifWriteMessagePath(p)
			if err != nil {
				obs = append(obs, hx.G(errCode(err)))
			} else {
				wr := int64(0)
				if wrap {
					wr = 1
				}
				obs = append(obs, hx.G(0, int64(n), wr))
			}
			rn.stats["writemessage"]++
		}
	}
	rn.out.Case("ring", append([]hx.Group{hx.G(size)}, ops...), obs)
}

// genHistory generates calls that cannot block, tracking the cursors itself.
func genHistory(r *hx.Rng, size int64, n int) []hx.Group {
	var ops []hx.Group
	var pseq, cseq int64
	done := false
	maxChunk := int(size)
	if maxChunk > 40 {
		maxChunk = 40
	}
	for i := 0; i < n; i++ {
		free := size - (pseq - cseq)
		avail := pseq - cseq
		switch k := r.Intn(100); {
		case k < 22: // Write
			if done {
				ops = append(ops, hx.GB([]int64{1}, streamBytes(pseq, 1+r.Intn(4))))
				continue
			}
			if free == 0 {
				continue
			}
			l := 1 + r.Intn(maxChunk)
			if int64(l) > free || r.Chance(15) {
				l = int(free)
			}
			ops = append(ops, hx.GB([]int64{1}, streamBytes(pseq, l)))
			pseq += int64(l)
		case k < 36: // reserve, fill, commit (the non-wrapping path) or writeMessage path
			if done || free == 0 {
				continue
			}
			l := 1 + r.Intn(maxChunk)
			if int64(l) > free {
				l = int(free)
			}
			if r.Bool() {
				ops = append(ops, hx.GB([]int64{11}, streamBytes(pseq, l)))
				pseq += int64(l)
				continue
			}
			ops = append(ops, hx.G(2, int64(l)))
			if (pseq&(size-1))+int64(l) <= size {
				ops = append(ops, hx.GB([]int64{3}, streamBytes(pseq, l)), hx.G(4, int64(l)))
				pseq += int64(l)
			}
		case k < 58: // Read
			if avail == 0 && !done {
				continue
			}
			l := 1 + r.Intn(maxChunk)
			ops = append(ops, hx.G(5, int64(l)))
			// mirror of Read's arithmetic to keep the cursors in step
			if avail > 0 {
				cindex := cseq & (size - 1)
				var nn int64
				if int64(l) < avail {
					nn = min64(int64(l), size-cindex)
				} else if cindex+avail < size {
					nn = min64(int64(l), avail)
				} else {
					nn = min64(int64(l), size-cindex)
				}
				cseq += nn
			}
		case k < 72: // ReadPeek
			if avail == 0 && !done {
				continue
			}
			l := 1 + r.Intn(maxChunk+4)
			if r.Chance(3) {
				l = int(size) + 1
			}
			ops = append(ops, hx.G(6, int64(l)))
		case k < 82: // ReadWait
			l := 1 + r.Intn(maxChunk)
			if int64(l) > avail && !done {
				if avail == 0 {
					continue
				}
				l = int(avail)
			}
			if r.Chance(3) {
				l = int(size) + 1
			}
			ops = append(ops, hx.G(7, int64(l)))
		case k < 94: // ReadCommit
			l := r.Intn(maxChunk)
			if r.Chance(70) && avail > 0 {
				l = int(min64(int64(l), avail))
			}
			if r.Chance(2) {
				l = int(size) + 1
			}
			ops = append(ops, hx.G(8, int64(l)))
			if int64(l) <= size && cseq+int64(l) <= pseq {
				cseq += int64(l)
			}
		case k < 97:
			ops = append(ops, hx.G(10))
		default:
			if r.Chance(30) {
				ops = append(ops, hx.G(9))
				done = true
			}
		}
	}
	ops = append(ops, hx.G(10))
	return ops
}

func min64(a, b int64) int64 {
	if a < b {
		return a
	}
	return b
}

// ---------- concurrent producer / consumer pairs (stream oracle only) ----------

type chunkReader struct {
	r     *hx.Rng
	pos   int64
	total int64
}

func (c *chunkReader) Read(p []byte) (int, error) {
	if c.pos >= c.total {
		return 0, io.EOF
	}
	n := 1 + c.r.Intn(len(p))
	if int64(n) > c.total-c.pos {
		n = int(c.total - c.pos)
	}
	for k := 0; k < n; k++ {
		p[k] = sb(c.pos + int64(k))
	}
	c.pos += int64(n)
	if c.r.Chance(5) {
		runtime.Gosched()
	}
	return n, nil
}

type checkWriter struct {
	pos  int64
	bad  string
	slow *hx.Rng
}

func (w *checkWriter) Write(p []byte) (int, error) {
	if w.slow != nil && w.slow.Chance(25) {
		// a slow socket: the block handed to the writer is a view into the ring and must stay what it is until the
		// writer is done with it, whatever the producer does meanwhile
		time.Sleep(300 * time.Microsecond)
	}
	for k, x := range p {
		if x != sb(w.pos+int64(k)) && w.bad == "" {
			w.bad = fmt.Sprintf("byte %#x at stream position %d, expected %#x", x, w.pos+int64(k), sb(w.pos+int64(k)))
		}
	}
	w.pos += int64(len(p))
	return len(p), nil
}

var errStuck = errors.New("stuck")

func withDeadline(d time.Duration, f func()) error {
	ch := make(chan struct{})
	go func() { f(); close(ch) }()
	select {
	case <-ch:
		return nil
	case <-time.After(d):
		return errStuck
	}
}

func dump() string {
	b := make([]byte, 1<<16)
	return string(b[:runtime.Stack(b, true)])
}

func (rn *runner) concurrent(r *hx.Rng, mode int, size int64, total int64) {
	var vb *service.VerifBuffer
	if size < 16384 {
		vb = service.VerifNewSmallBuffer(size)
	} else {
		vb, _ = service.VerifNewBuffer(size)
	}
	bf := vb.B
	caseNo := rn.out.N
	name := []string{"Write/Read", "reserve+commit/peek+commit", "ReadFrom/WriteTo", "writeMessage/ReadWait+commit"}[mode]
	var wg sync.WaitGroup
	var perr, cerr string
	var got int64
	prng, crng := hx.NewRng(r.U64()), hx.NewRng(r.U64())
	maxChunk := int(size / 2)
	if maxChunk > 3000 {
		maxChunk = 3000
	}
	if size >= 16384 && mode != 2 {
		maxChunk = int(size * 3 / 4) // calls that ask for more than one read block (8192 bytes) of space at once
	}
	producer := func() {
		defer wg.Done()
		switch mode {
		case 0, 3:
			var pos int64
			for pos < total {
				l := 1 + prng.Intn(maxChunk)
				if int64(l) > total-pos {
					l = int(total - pos)
				}
				var err error
				if mode == 0 {
					_, err = bf.Write(streamBytes(pos, l))
				} else {
					_, _, err = vb.VerifWriteMessagePath(streamBytes(pos, l))
				}
				if err != nil {
					perr = err.Error()
					return
				}
				pos += int64(l)
			}
		case 1:
			var pos int64
			for pos < total {
				l := 1 + prng.Intn(maxChunk)
				if int64(l) > total-pos {
					l = int(total - pos)
				}
				w, _, err := bf.WriteWait(l)
				if err != nil {
					perr = err.Error()
					return
				}
				if len(w) < l {
					l = len(w) // the window ends at the end of the ring: commit what fits
				}
				copy(w, streamBytes(pos, l))
				if _, err := bf.WriteCommit(l); err != nil {
					perr = err.Error()
					return
				}
				pos += int64(l)
			}
		case 2:
			_, err := bf.ReadFrom(&chunkReader{r: prng, total: total})
			if err != nil && err != io.EOF {
				perr = err.Error()
			}
		}
	}
	consumer := func() {
		defer wg.Done()
		switch mode {
		case 0:
			for got < total {
				p := make([]byte, 1+crng.Intn(maxChunk))
				n, err := bf.Read(p)
				if err != nil {
					cerr = err.Error()
					return
				}
				for k := 0; k < n; k++ {
					if p[k] != sb(got+int64(k)) && cerr == "" {
						cerr = fmt.Sprintf("Read returned byte %#x at stream position %d, expected %#x", p[k], got+int64(k), sb(got+int64(k)))
					}
				}
				got += int64(n)
			}
		case 1, 3:
			for got < total {
				var p []byte
				var err error
				if mode == 1 {
					p, err = bf.ReadPeek(1 + crng.Intn(maxChunk))
					if err == service.ErrBufferInsufficientData {
						err = nil
					}
				} else {
					// (a consumer that waits for l bytes while the producer waits for room for its call would be the
					// harness's own deadlock: the two requests together must fit the ring)
					l := 1 + crng.Intn(int(size)-maxChunk)
					if int64(l) > total-got {
						l = int(total - got)
					}
					p, err = bf.ReadWait(l)
				}
				if err != nil {
					cerr = err.Error()
					return
				}
				if crng.Chance(20) {
					runtime.Gosched() // give the producer a chance to overwrite what we are looking at
				}
				for k := range p {
					if p[k] != sb(got+int64(k)) && cerr == "" {
						cerr = fmt.Sprintf("peeked byte %#x at stream position %d, expected %#x", p[k], got+int64(k), sb(got+int64(k)))
					}
				}
				if _, err := bf.ReadCommit(len(p)); err != nil {
					cerr = err.Error()
					return
				}
				got += int64(len(p))
			}
		case 2:
			w := &checkWriter{slow: crng}
			_, err := bf.WriteTo(w)
			if err != nil && err != io.EOF {
				cerr = err.Error()
			}
			got = w.pos
			if w.bad != "" {
				cerr = w.bad
			}
		}
	}
	wg.Add(2)
	stuck := withDeadline(20*time.Second, func() {
		go producer()
		go consumer()
		wg.Wait()
	})
	switch {
	case stuck != nil:
		p, c, g, d, pf, cf := vb.Probe()
		rn.out.Oracle(caseNo, "concurrent %s on a %d-byte ring did not finish within 20s: pseq=%d cseq=%d gate=%d done=%v pmutex-free=%v cmutex-free=%v consumer got %d of %d bytes\\n%s", name, size, p, c, g, d, pf, cf, got, total, dump())
		bf.Close()
	case perr != "" || cerr != "":
		rn.out.Oracle(caseNo, "concurrent %s on a %d-byte ring: producer error %q, consumer error %q", name, size, perr, cerr)
	case mode == 2 && got <= total && got >= total-size:
		// the pumps: ReadFrom closes the ring when its source ends, and a closed ring hands out nothing more -
		// what was still in the ring then is not drained (the consumer's bytes are a prefix, which is what C14 asks)
	case got != total:
		rn.out.Oracle(caseNo, "concurrent %s on a %d-byte ring: consumer obtained %d bytes, producer committed %d", name, size, got, total)
	}
	_, _, _, _, pf, cf := vb.Probe()
	if stuck == nil && (!pf || !cf) {
		rn.out.Oracle(caseNo, "concurrent %s: an internal mutex is still locked at quiescence (pcond.L free=%v, ccond.L free=%v)", name, pf, cf)
	}
	rn.stats["concurrent"]++
	rn.stats["concurrent_bytes"] += int(got)
	_ = bytes.Equal
}

// Close while calls are blocked, repeated Close, calls after Close: every call must return promptly.
func (rn *runner) closeScenarios(r *hx.Rng) {
	caseNo := rn.out.N
	type scen struct {
		name string
		f    func(vb *service.VerifBuffer) []func() error
	}
	full := func(vb *service.VerifBuffer) {
		vb.B.Write(make([]byte, vb.Size()))
	}
	scens := []scen{
		{"blocked ReadWait, Close, ReadWait", func(vb *service.VerifBuffer) []func() error {
			return []func() error{func() error { _, e := vb.B.ReadWait(4); return e }}
		}},
		{"blocked ReadPeek, Close, ReadPeek", func(vb *service.VerifBuffer) []func() error {
			return []func() error{func() error { _, e := vb.B.ReadPeek(4); return e }}
		}},
		{"blocked Read, Close, Read", func(vb *service.VerifBuffer) []func() error {
			return []func() error{func() error { _, e := vb.B.Read(make([]byte, 4)); return e }}
		}},
		{"blocked Write on a full ring, Close, Close", func(vb *service.VerifBuffer) []func() error {
			full(vb)
			return []func() error{func() error { _, e := vb.B.Write([]byte{1, 2}); return e }}
		}},
		{"blocked WriteWait on a full ring, Close, WriteCommit", func(vb *service.VerifBuffer) []func() error {
			full(vb)
			return []func() error{func() error { _, _, e := vb.B.WriteWait(3); return e }}
		}},
		{"blocked reader and blocked writer, Close", func(vb *service.VerifBuffer) []func() error {
			return []func() error{
				func() error { _, e := vb.B.ReadWait(int(vb.Size())); return e },
				func() error { _, e := vb.B.Write(make([]byte, vb.Size()+0)); _, e = vb.B.Write([]byte{1}); return e },
			}
		}},
	}
	for _, sc := range scens {
		vb := service.VerifNewSmallBuffer(32)
		blocked := sc.f(vb)
		results := make(chan error, len(blocked))
		for _, f := range blocked {
			f := f
			go func() { results <- f() }()
		}
		time.Sleep(time.Duration(5+r.Intn(20)) * time.Millisecond)
		ncl := 1 + r.Intn(3)
		if err := withDeadline(5*time.Second, func() {
			for i := 0; i < ncl; i++ {
				vb.B.Close()
			}
		}); err != nil {
			rn.out.Oracle(caseNo, "%s: Close did not return within 5s\\n%s", sc.name, dump())
			continue
		}
		for range blocked {
			select {
			case err := <-results:
				if err != io.EOF && err != nil {
					rn.out.Oracle(caseNo, "%s: a blocked call returned %v after Close instead of end-of-stream", sc.name, err)
				}
			case <-time.After(5 * time.Second):
				rn.out.Oracle(caseNo, "%s: a blocked call did not return within 5s after Close\\n%s", sc.name, dump())
			}
		}
		// later calls return promptly
		later := []func() error{
			func() error { _, e := vb.B.ReadWait(int(vb.Size())); return e },
			func() error { _, e := vb.B.Write([]byte{1}); return e },
			func() error { _, e := vb.B.ReadCommit(0); return e },
			func() error { _, _, e := vb.B.WriteWait(1); return e },
			func() error { return vb.B.Close() },
		}
		for i, f := range later {
			if err := withDeadline(5*time.Second, func() { f() }); err != nil {
				rn.out.Oracle(caseNo, "%s: call #%d after Close did not return within 5s\\n%s", sc.name, i, dump())
				break
			}
		}
		_, _, _, _, pf, cf := vb.Probe()
		if !pf || !cf {
			rn.out.Oracle(caseNo, "%s: an internal mutex is still locked afterwards (pcond.L free=%v, ccond.L free=%v)", sc.name, pf, cf)
		}
		rn.stats["close_scenarios"]++
	}
}

func main() {
	outPrefix := "/verif/replays/tmp/ring"
	if len(os.Args) > 1 {
		outPrefix = os.Args[1]
	}
	rn := &runner{out: hx.NewOut(outPrefix), stats: map[string]int{}}
	finish := func() {
		rn.out.Close()
		m := map[string]interface{}{"cases": rn.out.N}
		for k, v := range rn.stats {
			m[k] = v
		}
		b, _ := json.MarshalIndent(m, "", " ")
		os.WriteFile(outPrefix+".stats", b, 0o644)
	}
	if len(os.Args) > 3 && os.Args[2] == "-cases" {
		for _, c := range hx.ReadCases(os.Args[3]) {
			rn.run(c[0][0], c[0][0] < 16384, c[1:])
		}
		finish()
		return
	}
	r := hx.NewRng(hx.EnvSeed())
	nHist := hx.EnvInt("VERIF_RING_N", 600)
	nConc := hx.EnvInt("VERIF_RING_CONC", 40)
	for i := 0; i < nHist; i++ {
		size := []int64{16, 16, 32, 64}[r.Intn(4)]
		rn.run(size, true, genHistory(r, size, 30+r.Intn(120)))
		rn.stats["history_small"]++
	}
	for i := 0; i < 2; i++ { // the constructor path with its minimum size rule (the model is slow on big rings)
		rn.run(16384, false, genHistory(r, 16384, 40))
		rn.stats["history_real"]++
	}
	for i := 0; i < nConc; i++ {
		mode := i % 4
		size := []int64{16, 64, 1024}[r.Intn(3)]
		if mode != 2 && i%3 == 2 {
			size = []int64{16384, 32768}[r.Intn(2)] // rings of real size with large calls
		}
		if mode == 2 {
			size = 16384 // the pumps need a whole read block of space
		}
		total := int64(20000 + r.Intn(60000))
		if mode == 2 {
			total *= 8
		}
		rn.concurrent(r, mode, size, total)
	}
	rn.closeScenarios(r)
	finish()
}
