// ackqdrv: correspondence driver for sessions.Ackqueue (property C13).
//
// Histories of Wait / Ack / Acked on real ack queues (created with a small initial capacity so
// that growth while wrapped happens constantly), written as cases for the Coq model, with a
// plain FIFO list as the specification-level oracle.
package main

import (
	"bytes"
	"encoding/json"
	"fmt"
	"os"

	"github.com/mdzio/go-mqtt/message"
	"github.com/mdzio/go-mqtt/sessions"
	"verifharness/hx"
)

type entry struct {
	mtype, state, pid, cb int
	msg, ack              []byte
}

func (e entry) String() string {
	return fmt.Sprintf("{type %d state %d id %d cb %d msg %x ack %x}", e.mtype, e.state, e.pid, e.cb, e.msg, e.ack)
}

// mkRequest builds a request message of the given type; the payload makes requests distinguishable
func mkRequest(mtype, qos, pid int, tag byte) message.Message {
	switch mtype {
	case 3:
		m := message.NewPublishMessage()
		m.SetTopic([]byte{'t', '/', 'a' + tag%20})
		m.SetPayload([]byte{tag, tag + 1})
		m.SetQoS(byte(qos))
		m.SetPacketID(uint16(pid))
		return m
	case 8:
		m := message.NewSubscribeMessage()
		m.AddTopic([]byte{'s', '/', 'a' + tag%20}, byte(tag%3))
		m.SetPacketID(uint16(pid))
		return m
	case 10:
		m := message.NewUnsubscribeMessage()
		m.AddTopic([]byte{'u', '/', 'a' + tag%20})
		m.SetPacketID(uint16(pid))
		return m
	case 12:
		return message.NewPingreqMessage()
	case 4:
		m := message.NewPubackMessage()
		m.SetPacketID(uint16(pid))
		return m
	case 14:
		return message.NewDisconnectMessage()
	}
	panic("unexpected request type")
}

func mkAck(atype, pid int, tag byte) message.Message {
	t := message.Type(atype)
	m, err := t.New()
	if err != nil {
		panic(err)
	}
	type pidSetter interface{ SetPacketID(uint16) }
	if ps, ok := m.(pidSetter); ok && atype != 12 && atype != 13 && atype != 14 {
		ps.SetPacketID(uint16(pid))
	}
	switch m := m.(type) {
	case *message.SubackMessage:
		m.AddReturnCode(tag % 3)
	case *message.PublishMessage:
		m.SetTopic([]byte("x"))
		m.SetPayload([]byte{tag})
	}
	return m
}

func encode(m message.Message) []byte {
	b := make([]byte, m.Len())
	n, err := m.Encode(b)
	if err != nil {
		panic(err)
	}
	return b[:n]
}

type runner struct {
	out   *hx.Out
	stats map[string]int
}

func sameEntries(a, b []entry) bool {
	if len(a) != len(b) {
		return false
	}
	for i := range a {
		x, y := a[i], b[i]
		if x.mtype != y.mtype || x.state != y.state || x.pid != y.pid || x.cb != y.cb || !bytes.Equal(x.msg, y.msg) || !bytes.Equal(x.ack, y.ack) {
			return false
		}
	}
	return true
}

var terminal = map[int]bool{4: true, 6: true, 7: true, 9: true, 11: true}
var indexed = map[int]bool{4: true, 5: true, 6: true, 7: true, 9: true, 11: true}

func (rn *runner) run(size int, ops []hx.Group) {
	aq := sessions.VerifNewAckqueue(size)
	caseNo := rn.out.N
	var obs []hx.Group
	// the specification: a FIFO list
	var fifo []entry
	var ping entry
	maxInflight := 0
	for _, op := range ops {
		switch op[0] {
		case 1: // Wait mtype qos pid cb msgbytes  (the bytes are what the harness computed from the message)
			mtype, qos, pid, cb := int(op[1]), int(op[2]), int(op[3]), int(op[4])
			m := mkRequest(mtype, qos, pid, byte(cb))
			err := aq.Wait(m, cb)
			if err != nil {
				obs = append(obs, hx.G(1))
			} else {
				obs = append(obs, hx.G(0))
			}
			want := (mtype == 3 && qos != 0) || mtype == 8 || mtype == 10 || mtype == 12
			if want != (err == nil) {
				rn.out.Oracle(caseNo, "Wait(type %d, qos %d) returned %v", mtype, qos, err)
			}
			if err == nil {
				msg := toBytes(op, 5)
				if mtype == 12 {
					ping = entry{12, 0, 0, cb, msg, nil}
				} else {
					dup := false
					for _, e := range fifo {
						if e.pid == pid {
							dup = true
						}
					}
					if !dup {
						fifo = append(fifo, entry{mtype, 0, pid, cb, msg, nil})
					}
				}
			}
			if len(fifo) > maxInflight {
				maxInflight = len(fifo)
			}
			rn.stats["wait"]++
		case 2: // Ack atype pid ackbytes
			atype, pid := int(op[1]), int(op[2])
			a := mkAck(atype, pid, byte(op[3]))
			err := aq.Ack(a)
			if err != nil {
				obs = append(obs, hx.G(1))
			} else {
				obs = append(obs, hx.G(0))
			}
			if (indexed[atype] || atype == 13) != (err == nil) {
				rn.out.Oracle(caseNo, "Ack(type %d) returned %v", atype, err)
			}
			ab := toBytes(op, 4)
			if indexed[atype] {
				for i := range fifo {
					if fifo[i].pid == pid {
						fifo[i].state, fifo[i].ack = atype, ab
					}
				}
			} else if atype == 13 && ping.mtype == 12 {
				ping.state, ping.ack = 13, ab
			}
			rn.stats["ack"]++
		case 3: // Acked
			res := aq.Acked()
			g := hx.Group{int64(len(res))}
			var got []entry
			for _, am := range res {
				cb, _ := am.OnComplete.(int)
				e := entry{int(am.Mtype), int(am.State), int(am.Pktid), cb, append([]byte(nil), am.Msgbuf...), append([]byte(nil), am.Ackbuf...)}
				got = append(got, e)
				g = append(g, int64(e.mtype), int64(e.state), int64(e.pid), int64(e.cb), int64(len(e.msg)))
				for _, c := range e.msg {
					g = append(g, int64(c))
				}
				g = append(g, int64(len(e.ack)))
				for _, c := range e.ack {
					g = append(g, int64(c))
				}
			}
			obs = append(obs, g)
			var want []entry
			if ping.state == 13 {
				want = append(want, ping)
				ping = entry{}
			}
			for len(fifo) > 0 && terminal[fifo[0].state] {
				want = append(want, fifo[0])
				fifo = fifo[1:]
			}
			if !sameEntries(got, want) {
				rn.out.Oracle(caseNo, "Acked() handed back %v, the FIFO list specification hands back %v", got, want)
			}
			rn.stats["acked"]++
			rn.stats["handed_back"] += len(got)
		case 4:
			s, c, h, t := aq.VerifShape()
			obs = append(obs, hx.G(s, c, h, t))
			if int(c) != len(fifo) {
				rn.out.Oracle(caseNo, "queue holds %d entries, specification %d", c, len(fifo))
			}
		}
	}
	if maxInflight > rn.stats["max_inflight"] {
		rn.stats["max_inflight"] = maxInflight
	}
	rn.out.Case("ackq", append([]hx.Group{hx.G(int64(size))}, ops...), obs)
}

func toBytes(g hx.Group, from int) []byte {
	b := make([]byte, 0, len(g))
	for _, x := range g[from:] {
		b = append(b, byte(x))
	}
	return b
}

func opWait(mtype, qos, pid, cb int) hx.Group {
	return hx.GB([]int64{1, int64(mtype), int64(qos), int64(pid), int64(cb)}, encode(mkRequest(mtype, qos, pid, byte(cb))))
}

func opAck(atype, pid int, tag byte) hx.Group {
	return hx.GB([]int64{2, int64(atype), int64(pid), int64(tag)}, encode(mkAck(atype, pid, tag)))
}

var ackTypes = []int{4, 5, 6, 7, 9, 11, 13}

func genHistory(r *hx.Rng, n int, ids int, burst bool) []hx.Group {
	var ops []hx.Group
	cb := 1
	for i := 0; i < n; i++ {
		k := r.Intn(100)
		if burst && i < n/2 {
			k = r.Intn(45) // mostly registrations first: many in flight
		}
		switch {
		case k < 40:
			mtype := []int{3, 3, 3, 8, 10}[r.Intn(5)]
			qos := 1 + r.Intn(2)
			if r.Chance(3) {
				qos = 0
			}
			if r.Chance(2) {
				mtype = []int{4, 14}[r.Intn(2)]
			}
			ops = append(ops, opWait(mtype, qos, 1+r.Intn(ids), cb))
			cb = cb%250 + 1
		case k < 44:
			ops = append(ops, opWait(12, 0, 0, cb))
			cb = cb%250 + 1
		case k < 80:
			at := ackTypes[r.Intn(len(ackTypes))]
			if r.Chance(2) {
				at = []int{3, 8, 12, 14}[r.Intn(4)]
			}
			ops = append(ops, opAck(at, 1+r.Intn(ids+1), byte(r.Intn(200))))
		case k < 97:
			ops = append(ops, hx.G(3))
		default:
			ops = append(ops, hx.G(4))
		}
	}
	ops = append(ops, hx.G(3), hx.G(4))
	return ops
}

// exhaustive: all operation sequences of the given depth over a small alphabet
func enumerate(depth int, alphabet []hx.Group, f func([]hx.Group)) {
	var rec func(cur []hx.Group)
	rec = func(cur []hx.Group) {
		if len(cur) == depth {
			f(append(append([]hx.Group(nil), cur...), hx.G(3)))
			return
		}
		for _, a := range alphabet {
			rec(append(cur, a))
		}
	}
	rec(nil)
}

func main() {
	outPrefix := "/verif/replays/tmp/ackq"
	if len(os.Args) > 1 {
		outPrefix = os.Args[1]
	}
	rn := &runner{out: hx.NewOut(outPrefix), stats: map[string]int{}}
	finish := func() {
		rn.out.Close()
		m := map[string]interface{}{"cases": rn.out.N}
		for k, v := range rn.stats {
			m[k] = v
		}
		b, _ := json.MarshalIndent(m, "", " ")
		os.WriteFile(outPrefix+".stats", b, 0o644)
	}
	if len(os.Args) > 3 && os.Args[2] == "-cases" {
		for _, c := range hx.ReadCases(os.Args[3]) {
			rn.run(int(c[0][0]), c[1:])
		}
		finish()
		return
	}
	r := hx.NewRng(hx.EnvSeed())
	nHist := hx.EnvInt("VERIF_ACKQ_N", 300)
	depth := hx.EnvInt("VERIF_ACKQ_DEPTH", 4)

	// corpus: out-of-order acknowledgement, growth while wrapped
	rn.run(2, []hx.Group{opWait(3, 1, 1, 1), opWait(3, 1, 2, 2), opAck(4, 2, 9), hx.G(3), opAck(4, 1, 8), hx.G(3), hx.G(4)})
	rn.run(2, []hx.Group{opWait(3, 2, 1, 1), opWait(3, 2, 2, 2), opAck(6, 1, 1), hx.G(3), opWait(3, 2, 3, 3), opWait(3, 2, 4, 4), opWait(3, 2, 5, 5), hx.G(4),
		opAck(6, 2, 2), opAck(6, 3, 3), opAck(6, 4, 4), opAck(6, 5, 5), hx.G(3), hx.G(4)})

	// exhaustive small scope: all sequences over 3 identifiers
	var alpha []hx.Group
	for id := 1; id <= 3; id++ {
		alpha = append(alpha, opWait(3, 2, id, id), opAck(5, id, byte(id)), opAck(6, id, byte(10+id)))
	}
	alpha = append(alpha, hx.G(3), opWait(12, 0, 0, 9), opAck(13, 0, 0))
	enumerate(depth, alpha, func(ops []hx.Group) { rn.run(2, ops); rn.stats["exhaustive"]++ })

	// random histories: few ids (collisions, reuse) and many ids (hundreds in flight, growth while wrapped)
	for i := 0; i < nHist; i++ {
		size := []int{1, 2, 4, 16}[r.Intn(4)]
		switch r.Intn(3) {
		case 0:
			rn.run(size, genHistory(r, 20+r.Intn(60), 4, false))
		case 1:
			rn.run(size, genHistory(r, 100+r.Intn(200), 40, r.Bool()))
		default:
			rn.run(size, genHistory(r, 300+r.Intn(500), 400, true))
		}
		rn.stats["history"]++
	}
	finish()
}
