// topicsdrv: correspondence driver for topics.MemTopics (property C06).
//
// Histories of Subscribe / Unsubscribe / Subscribers / Retain / Retained on a fresh
// topics.NewMemProvider() through its public API (plus the verif export of nextTopicLevel),
// written as cases for the Coq model, with an independent MQTT 3.1.1 section 4.7 matcher over
// an abstract store as the specification-level oracle.
package main

import (
	"bytes"
	"encoding/json"
	"fmt"
	"os"
	"sort"
	"strings"

	"github.com/mdzio/go-mqtt/message"
	"github.com/mdzio/go-mqtt/topics"
	"verifharness/hx"
)

type subObj struct{ id int }

var ptrs [64]subObj

// subscriber identities of different kinds; distinct ids are distinct subscribers
func subscriber(id int) interface{} {
	switch {
	case id == 0:
		return nil
	case id%3 == 0:
		return &ptrs[id%64]
	case id%3 == 1:
		return fmt.Sprintf("s%d", id)
	default:
		return id
	}
}

func subID(s interface{}) int {
	switch s := s.(type) {
	case *subObj:
		for i := range ptrs {
			if s == &ptrs[i] {
				return i
			}
		}
	case string:
		var id int
		fmt.Sscanf(s, "s%d", &id)
		return id
	case int:
		return s
	}
	return -1
}

// ---------- specification: MQTT 3.1.1 section 4.7 ----------

func split(t []byte) []string { return strings.Split(string(t), "/") }

func specValidFilter(f []byte) bool {
	if len(f) == 0 {
		return false
	}
	ls := split(f)
	for i, l := range ls {
		if strings.ContainsAny(l, "#+") && len(l) != 1 {
			return false
		}
		if l == "#" && i != len(ls)-1 {
			return false
		}
	}
	return true
}

func specValidName(t []byte) bool {
	return len(t) > 0 && !bytes.ContainsAny(t, "#+")
}

func fmatch(f, t []string) bool {
	switch {
	case len(f) == 1 && f[0] == "#":
		return true
	case len(f) == 0 || len(t) == 0:
		return len(f) == 0 && len(t) == 0
	case f[0] == "+" || f[0] == t[0]:
		return fmatch(f[1:], t[1:])
	}
	return false
}

// outside the property's domain: a level starting with '$' (the store refuses those)
func hasSys(t []byte) bool {
	for _, l := range split(t) {
		if strings.HasPrefix(l, "$") {
			return true
		}
	}
	return false
}

func hasEmptyLevel(t []byte) bool {
	for _, l := range split(t) {
		if l == "" {
			return true
		}
	}
	return false
}

// the levels the implementation really uses (known finding "empty-level"): a leading empty
// level (of the topic or of any remainder) becomes "+", a trailing empty level is dropped
func quirkLevels(t []byte) []string {
	var ls []string
	rest := string(t)
	for len(rest) > 0 {
		i := strings.IndexByte(rest, '/')
		switch {
		case i < 0:
			ls = append(ls, rest)
			rest = ""
		case i == 0:
			ls = append(ls, "+")
			rest = rest[1:]
		default:
			ls = append(ls, rest[:i])
			rest = rest[i+1:]
		}
	}
	return ls
}

type specSub struct {
	sub    int
	filter string
	qos    int
}

type spec struct {
	subs     []specSub
	retained map[string]specMsg
	// what the implementation is known to do with empty levels (finding F7): subscriptions and retained
	// messages keyed by the levels the splitter produces, so different strings can share one entry
	qsubs map[string][]specSub // quirk path -> entries (subscriber, last filter string, qos)
	qret  map[string]specMsgT
}

type specMsgT struct {
	topic string
	m     specMsg
}

func qpath(t []byte) string { return strings.Join(quirkLevels(t), "\x00") }

func (sp *spec) qsubscribers(topic []byte, q int) []pair {
	var res []pair
	tl := quirkLevels(topic)
	for path, es := range sp.qsubs {
		if quirkMatch(strings.Split(path, "\x00"), tl) || (path == "" && len(tl) == 0) {
			for _, e := range es {
				res = append(res, pair{e.sub, min(q, e.qos)})
			}
		}
	}
	sortPairs(res)
	return res
}

type specMsg struct {
	payload string
	qos     int
}

func (m specMsg) String() string { return fmt.Sprintf("%q/q%d", m.payload, m.qos) }

type pair struct{ s, q int }

func sortPairs(p []pair) {
	sort.Slice(p, func(i, j int) bool {
		if p[i].s != p[j].s {
			return p[i].s < p[j].s
		}
		return p[i].q < p[j].q
	})
}

func min(a, b int) int {
	if a < b {
		return a
	}
	return b
}

func (sp *spec) subscribers(topic []byte, q int, quirk bool) []pair {
	var res []pair
	tl := split(topic)
	if quirk {
		tl = quirkLevels(topic)
	}
	for _, s := range sp.subs {
		fl := split([]byte(s.filter))
		if quirk {
			fl = quirkLevels([]byte(s.filter))
		}
		ok := fmatch(fl, tl)
		if quirk {
			ok = quirkMatch(fl, tl)
		}
		if ok {
			res = append(res, pair{s.sub, min(q, s.qos)})
		}
	}
	sortPairs(res)
	return res
}

// matching as the trie does it on quirk levels: a "+" level in the *name* (from an empty level)
// only meets filter levels "+" (and "#")
func quirkMatch(f, t []string) bool {
	switch {
	case len(f) == 1 && f[0] == "#":
		return true
	case len(f) == 0 || len(t) == 0:
		return len(f) == 0 && len(t) == 0
	case f[0] == "+" || f[0] == t[0]:
		return quirkMatch(f[1:], t[1:])
	}
	return false
}

type runner struct {
	out   *hx.Out
	stats map[string]int
}

func (rn *runner) count(k string) { rn.stats[k]++ }

func toBytes(g hx.Group, from int) []byte {
	b := make([]byte, 0, len(g))
	for _, x := range g[from:] {
		b = append(b, byte(x))
	}
	return b
}

func samePairs(a, b []pair) bool {
	if len(a) != len(b) {
		return false
	}
	for i := range a {
		if a[i] != b[i] {
			return false
		}
	}
	return true
}

func (rn *runner) run(ops []hx.Group) {
	mt := topics.NewMemProvider()
	sp := &spec{retained: map[string]specMsg{}, qsubs: map[string][]specSub{}, qret: map[string]specMsgT{}}
	caseNo := rn.out.N
	var obs []hx.Group
	sawEmpty := false // an empty level occurred in this history: failures fall into the known empty-level finding
	oracle := func(format string, a ...interface{}) {
		rn.out.Oracle(caseNo, "%s", fmt.Sprintf(format, a...))
	}
	for _, op := range ops {
		if op[0] >= 1 && op[0] <= 5 {
			from := map[int64]int{1: 3, 2: 2, 3: 2, 4: 3, 5: 1}[op[0]]
			t := toBytes(op, from)
			if op[0] == 4 {
				t = t[:op[2]]
			}
			if len(t) > 0 && hasEmptyLevel(t) {
				sawEmpty = true
			}
		}
		switch op[0] {
		case 1: // Subscribe q s topic
			q, s, topic := int(op[1]), int(op[2]), toBytes(op, 3)
			g, err := mt.Subscribe(topic, byte(q), subscriber(s))
			if err != nil {
				obs = append(obs, hx.G(1))
			} else {
				obs = append(obs, hx.G(0, int64(g)))
			}
			rn.count("subscribe")
			// oracle
			valid := specValidFilter(topic) && q <= 2 && s != 0
			switch {
			case hasSys(topic):
			case !valid && err == nil:
				oracle("Subscribe accepted the invalid filter %q (qos %d, sub %d)", topic, q, s)
			case valid && err != nil:
				oracle("Subscribe rejected the valid filter %q: %v", topic, err)
			case valid && int(g) != min(q, int(topics.MaxQosAllowed)):
				oracle("Subscribe %q granted QoS %d for requested %d", topic, g, q)
			}
			if err == nil {
				found := false
				for i := range sp.subs {
					if sp.subs[i].sub == s && sp.subs[i].filter == string(topic) {
						sp.subs[i].qos, found = int(g), true
					}
				}
				if !found {
					sp.subs = append(sp.subs, specSub{s, string(topic), int(g)})
				}
				qp := qpath(topic)
				qfound := false
				for i := range sp.qsubs[qp] {
					if sp.qsubs[qp][i].sub == s {
						sp.qsubs[qp][i].qos, qfound = int(g), true
					}
				}
				if !qfound {
					sp.qsubs[qp] = append(sp.qsubs[qp], specSub{s, string(topic), int(g)})
				}
			}
		case 2: // Unsubscribe s topic
			s, topic := int(op[1]), toBytes(op, 2)
			err := mt.Unsubscribe(topic, subscriber(s))
			if err != nil {
				obs = append(obs, hx.G(1))
			} else {
				obs = append(obs, hx.G(0))
			}
			rn.count("unsubscribe")
			had := false
			var keep []specSub
			for _, x := range sp.subs {
				if x.filter == string(topic) && (s == 0 || x.sub == s) {
					had = true
					continue
				}
				keep = append(keep, x)
			}
			qp := qpath(topic)
			hadQ := false
			var qkeep []specSub
			for _, x := range sp.qsubs[qp] {
				if s == 0 || x.sub == s {
					hadQ = true
					continue
				}
				qkeep = append(qkeep, x)
			}
			if s != 0 && !hasSys(topic) && specValidFilter(topic) && had != (err == nil) {
				tag := "MATCH"
				if hadQ == (err == nil) && sawEmpty {
					tag = "empty-level"
				}
				oracle("%s: Unsubscribe(%q, sub %d) returned %v, the subscription held=%v", tag, topic, s, err, had)
			}
			if err == nil {
				sp.subs = keep
				if len(qkeep) == 0 {
					delete(sp.qsubs, qp)
				} else {
					sp.qsubs[qp] = qkeep
				}
			}
		case 3: // Subscribers q topic
			q, topic := int(op[1]), toBytes(op, 2)
			var subs []interface{}
			var qoss []byte
			err := mt.Subscribers(topic, byte(q), &subs, &qoss)
			if err != nil {
				obs = append(obs, hx.G(1))
				if q <= 2 && specValidName(topic) && !hasSys(topic) {
					oracle("Subscribers(%q) failed for a valid topic name: %v", topic, err)
				}
			} else {
				var got []pair
				for i, s := range subs {
					got = append(got, pair{subID(s), int(qoss[i])})
				}
				sortPairs(got)
				g := hx.Group{0}
				for _, p := range got {
					g = append(g, int64(p.s), int64(p.q))
				}
				obs = append(obs, g)
				if specValidName(topic) && !hasSys(topic) && q <= 2 {
					want := sp.subscribers(topic, q, false)
					if !samePairs(got, want) {
						tag := "MATCH"
						if sawEmpty && samePairs(got, sp.qsubscribers(topic, q)) {
							tag = "empty-level" // explained exactly by the known treatment of empty levels
						}
						oracle("%s: Subscribers(%q, qos %d) = %v, section 4.7 over the held subscriptions %v gives %v", tag, topic, q, got, sp.subs, want)
					}
				}
			}
			rn.count("subscribers")
		case 4: // Retain q tlen topic payload
			q, tl := int(op[1]), int(op[2])
			topic, payload := toBytes(op, 3)[:tl], toBytes(op, 3)[tl:]
			m := message.NewPublishMessage()
			if err := m.SetTopic(topic); err != nil {
				panic("generator produced an invalid topic name")
			}
			m.SetPayload(payload)
			m.SetQoS(byte(q))
			if q > 0 {
				m.SetPacketID(77)
			}
			m.SetRetain(true)
			err := mt.Retain(m)
			if err != nil {
				obs = append(obs, hx.G(1))
			} else {
				obs = append(obs, hx.G(0))
			}
			// overwrite the source buffers: the store must hold its own copy
			for i := range topic {
				topic[i] = 'X'
			}
			for i := range payload {
				payload[i] = 'Y'
			}
			t := string(toBytes(op, 3)[:tl])
			if !hasSys([]byte(t)) {
				qp := qpath([]byte(t))
				if len(payload) == 0 {
					_, had := sp.retained[t]
					_, hadQ := sp.qret[qp]
					if had && err != nil {
						tag := "MATCH"
						if !hadQ && sawEmpty {
							tag = "empty-level"
						}
						oracle("%s: clearing the retained message of %q failed: %v", tag, t, err)
					}
					delete(sp.retained, t)
					if err == nil {
						delete(sp.qret, qp)
					}
				} else {
					sp.qret[qp] = specMsgT{t, specMsg{string(toBytes(op, 3)[tl:]), q}}
					if err != nil {
						oracle("Retain(%q) failed: %v", t, err)
					}
					sp.retained[t] = specMsg{string(toBytes(op, 3)[tl:]), q}
				}
			}
			rn.count("retain")
		case 5: // Retained filter
			filter := toBytes(op, 1)
			var msgs []*message.PublishMessage
			err := mt.Retained(filter, &msgs)
			if err != nil {
				obs = append(obs, hx.G(1))
				if specValidFilter(filter) && !hasSys(filter) {
					oracle("Retained(%q) failed for a valid filter: %v", filter, err)
				}
			} else {
				sort.Slice(msgs, func(i, j int) bool { return bytes.Compare(msgs[i].Topic(), msgs[j].Topic()) < 0 })
				g := hx.Group{0}
				got := map[string]specMsg{}
				for _, m := range msgs {
					g = append(g, int64(m.QoS()), int64(len(m.Topic())))
					for _, c := range m.Topic() {
						g = append(g, int64(c))
					}
					g = append(g, int64(len(m.Payload())))
					for _, c := range m.Payload() {
						g = append(g, int64(c))
					}
					if _, dup := got[string(m.Topic())]; dup {
						oracle("Retained(%q) returned two messages for topic %q", filter, m.Topic())
					}
					got[string(m.Topic())] = specMsg{string(m.Payload()), int(m.QoS())}
					if !m.Retain() {
						oracle("Retained(%q): stored message for %q lost its retain flag", filter, m.Topic())
					}
				}
				obs = append(obs, g)
				if specValidFilter(filter) && !hasSys(filter) {
					want, wantQ := map[string]specMsg{}, map[string]specMsg{}
					for t, m := range sp.retained {
						if fmatch(split(filter), split([]byte(t))) {
							want[t] = m
						}
					}
					for path, tm := range sp.qret {
						if quirkMatchR(quirkLevels(filter), strings.Split(path, "\x00")) {
							wantQ[tm.topic] = tm.m
						}
					}
					if !sameMsgs(got, want) {
						tag := "MATCH"
						if sawEmpty && sameMsgs(got, wantQ) {
							tag = "empty-level"
						}
						oracle("%s: Retained(%q) = %v, section 4.7 over the stored messages %v gives %v", tag, filter, got, sp.retained, want)
					}
				}
			}
			rn.count("retained")
		case 6:
			topic := toBytes(op, 1)
			l, rem, err := topics.VerifNextTopicLevel(topic)
			if err != nil {
				obs = append(obs, hx.G(1))
			} else {
				g := hx.Group{0, int64(len(l))}
				for _, c := range l {
					g = append(g, int64(c))
				}
				for _, c := range rem {
					g = append(g, int64(c))
				}
				obs = append(obs, g)
			}
			rn.count("nextlevel")
		}
	}
	rn.out.Case("topics", append([]hx.Group{hx.G()}, ops...), obs)
}

// retained lookup as the trie does it on quirk levels (filter side may contain wildcards)
func quirkMatchR(f, t []string) bool { return quirkMatch(f, t) }

func anyEmptyLevel(m map[string]specMsg) bool {
	for t := range m {
		if hasEmptyLevel([]byte(t)) {
			return true
		}
	}
	return false
}

func sameMsgs(a, b map[string]specMsg) bool {
	if len(a) != len(b) {
		return false
	}
	for k, v := range a {
		if b[k] != v {
			return false
		}
	}
	return true
}

// ---------- generators ----------

var vocab = []string{"a", "b", "c", "ab", "+", "#", "", "a", "b", "+", "x1"}
var rareLevels = []string{"$x", "a#", "+b", "#a", "a+", "##", "$", "a$b"}

func genTopic(r *hx.Rng, filter bool) []byte {
	n := 1 + r.Intn(4)
	var ls []string
	for i := 0; i < n; i++ {
		var l string
		switch {
		case r.Chance(3):
			l = rareLevels[r.Intn(len(rareLevels))]
		case filter:
			l = vocab[r.Intn(len(vocab))]
			if l == "#" && i != n-1 && r.Chance(85) {
				l = "a"
			}
		default:
			l = []string{"a", "b", "c", "ab", "", "a", "b", "x1"}[r.Intn(8)]
			if l == "" && r.Chance(60) {
				l = "c"
			}
		}
		ls = append(ls, l)
	}
	return []byte(strings.Join(ls, "/"))
}

func gb(prefix []int64, b []byte) hx.Group { return hx.GB(prefix, b) }

// several subscribers on one filter with different QoS, removed in a random order, queried in between
func genHotNode(r *hx.Rng) []hx.Group {
	var ops []hx.Group
	f := genTopic(r, true)
	for hasEmptyLevel(f) || !specValidFilter(f) || hasSys(f) {
		f = genTopic(r, true)
	}
	t := []byte(strings.NewReplacer("+", "k", "#", "k").Replace(string(f)))
	n := 3 + r.Intn(5)
	var live []int
	for i := 1; i <= n; i++ {
		ops = append(ops, gb([]int64{1, int64(r.Intn(3)), int64(i)}, f))
		live = append(live, i)
	}
	ops = append(ops, gb([]int64{3, 2}, t))
	for len(live) > 0 {
		j := r.Intn(len(live))
		ops = append(ops, gb([]int64{2, int64(live[j])}, f))
		live = append(live[:j], live[j+1:]...)
		ops = append(ops, gb([]int64{3, int64(1 + r.Intn(2))}, t))
		if r.Chance(30) {
			k := 1 + r.Intn(n)
			ops = append(ops, gb([]int64{1, int64(r.Intn(3)), int64(k)}, f))
			present := false
			for _, x := range live {
				if x == k {
					present = true
				}
			}
			if !present {
				live = append(live, k)
			}
		}
		if len(ops) > 60 {
			break
		}
	}
	return ops
}

func genHistory(r *hx.Rng, n int) []hx.Group {
	var ops []hx.Group
	var filters [][]byte
	var names [][]byte
	nsubs := 2 + r.Intn(6)
	for i := 0; i < n; i++ {
		switch k := r.Intn(100); {
		case k < 30:
			f := genTopic(r, true)
			if len(filters) > 0 && r.Chance(25) {
				f = filters[r.Intn(len(filters))]
			}
			filters = append(filters, f)
			q := int64(r.Intn(3))
			if r.Chance(3) {
				q = 3
			}
			s := int64(1 + r.Intn(nsubs))
			if r.Chance(2) {
				s = 0
			}
			ops = append(ops, gb([]int64{1, q, s}, f))
		case k < 42:
			f := genTopic(r, true)
			if len(filters) > 0 && r.Chance(85) {
				f = filters[r.Intn(len(filters))]
			}
			s := int64(1 + r.Intn(nsubs))
			if r.Chance(4) {
				s = 0
			}
			ops = append(ops, gb([]int64{2, s}, f))
		case k < 70:
			t := genTopic(r, false)
			q := int64(r.Intn(3))
			if r.Chance(2) {
				q = 3
			}
			ops = append(ops, gb([]int64{3, q}, t))
		case k < 85:
			t := genTopic(r, false)
			if !message.ValidTopic(t) {
				continue
			}
			if len(names) > 0 && r.Chance(40) {
				t = names[r.Intn(len(names))]
			}
			names = append(names, t)
			p := r.Bytes(1 + r.Intn(5))
			if r.Chance(25) {
				p = nil
			}
			ops = append(ops, gb([]int64{4, int64(r.Intn(3)), int64(len(t))}, append(append([]byte(nil), t...), p...)))
		case k < 97:
			ops = append(ops, gb([]int64{5}, genTopic(r, true)))
		default:
			ops = append(ops, gb([]int64{6}, genTopic(r, r.Bool())))
		}
	}
	return ops
}

func enumLevels(alpha []string, maxLevels int) [][]byte {
	var res [][]byte
	var rec func(cur []string)
	rec = func(cur []string) {
		if len(cur) > 0 {
			res = append(res, []byte(strings.Join(cur, "/")))
		}
		if len(cur) == maxLevels {
			return
		}
		for _, a := range alpha {
			rec(append(append([]string(nil), cur...), a))
		}
	}
	rec(nil)
	return res
}

func main() {
	outPrefix := "/verif/replays/tmp/topics"
	if len(os.Args) > 1 {
		outPrefix = os.Args[1]
	}
	rn := &runner{out: hx.NewOut(outPrefix), stats: map[string]int{}}
	if len(os.Args) > 3 && os.Args[2] == "-cases" {
		for _, c := range hx.ReadCases(os.Args[3]) {
			rn.run(c[1:])
		}
		rn.finish(outPrefix)
		return
	}
	r := hx.NewRng(hx.EnvSeed())
	nHist := hx.EnvInt("VERIF_TOPICS_N", 400)
	maxLevels := hx.EnvInt("VERIF_TOPICS_LEVELS", 3)

	// corpus: regression witnesses of repaired defects and the known empty-level finding
	b := func(s string) []byte { return []byte(s) }
	rn.run([]hx.Group{gb([]int64{1, 1, 1}, b("sport/#")), gb([]int64{3, 1}, b("sport")), gb([]int64{3, 2}, b("sport/a/b"))})
	rn.run([]hx.Group{gb([]int64{4, 1, 1}, b("aA")), gb([]int64{4, 1, 3}, b("a/bB")), gb([]int64{4, 0, 3}, b("a/b")), gb([]int64{5}, b("a")), gb([]int64{5}, b("#"))})
	rn.run([]hx.Group{gb([]int64{1, 1, 1}, b("#$x")), gb([]int64{1, 1, 1}, b("+$")), gb([]int64{6}, b("#$x/a"))})
	rn.run([]hx.Group{gb([]int64{1, 1, 1}, b("/b")), gb([]int64{3, 1}, b("x/b")), gb([]int64{1, 1, 2}, b("a/")), gb([]int64{3, 1}, b("a"))})

	// exhaustive: every filter x every topic name of up to maxLevels levels over {a, b, "", +, #}
	filters := enumLevels([]string{"a", "b", "", "+", "#"}, maxLevels)
	names := enumLevels([]string{"a", "b", ""}, maxLevels)
	for _, f := range filters {
		ops := []hx.Group{gb([]int64{1, 1, 5}, f)}
		for _, t := range names {
			if len(t) == 0 {
				continue
			}
			ops = append(ops, gb([]int64{3, 2}, t))
		}
		rn.run(ops)
		rn.count("exhaustive_filter")
	}
	{
		var ops []hx.Group
		for i, t := range names {
			if !message.ValidTopic(t) {
				continue
			}
			ops = append(ops, gb([]int64{4, int64(i % 3), int64(len(t))}, append(append([]byte(nil), t...), byte('p'), byte(i))))
		}
		for _, f := range filters {
			ops = append(ops, gb([]int64{5}, f))
		}
		rn.run(ops)
		rn.count("exhaustive_retained")
	}
	// random histories
	for i := 0; i < nHist; i++ {
		rn.run(genHistory(r, 10+r.Intn(50)))
		rn.count("history")
		if i%4 == 0 {
			rn.run(genHotNode(r))
			rn.count("hot_node")
		}
	}
	rn.finish(outPrefix)
}

func (rn *runner) finish(prefix string) {
	rn.out.Close()
	m := map[string]interface{}{"cases": rn.out.N}
	for k, v := range rn.stats {
		m[k] = v
	}
	b, _ := json.MarshalIndent(m, "", " ")
	os.WriteFile(prefix+".stats", b, 0o644)
}
