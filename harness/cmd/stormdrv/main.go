// stormdrv: concurrent workloads on a real broker (oracle only; properties C17, C05, C16, C18, C19).
//
//	storm     many publishers deliver to shared subscribers at once, with payload sizes that make
//	          the 256 KiB outgoing rings wrap mid-packet: every byte each subscriber receives must
//	          parse as whole well-formed packets, and each publisher's messages must arrive in
//	          order (C17); run under the race detector it is the workload of C18
//	cut       a subscriber is cut off at a random moment while publishers deliver to it: the
//	          publishers and a witness pair must not notice (C05)
//	teardown  connections end for every cause in every buffer condition (idle, own outgoing ring
//	          full, incoming ring full behind a third party's full ring, cross-blocked pairs) and
//	          in every order: each teardown must finish, Server.Close must return, and no goroutine
//	          of the library may remain (C16)
//	keepalive silent and active clients with a keep-alive of one second (C19)
package main

import (
	"encoding/binary"
	"encoding/json"
	"fmt"
	"net"
	"os"
	"runtime"
	"sort"
	"strings"
	"sync"
	"sync/atomic"
	"time"

	"github.com/mdzio/go-logging"
	"github.com/mdzio/go-mqtt/message"
	"github.com/mdzio/go-mqtt/service"
	"github.com/mdzio/go-mqtt/sessions"
	"github.com/mdzio/go-mqtt/topics"
	"verifharness/hx"
	"verifharness/mq"
)

type failures struct {
	mu sync.Mutex
	l  []string
}

func (f *failures) add(format string, a ...interface{}) {
	f.mu.Lock()
	f.l = append(f.l, fmt.Sprintf(format, a...))
	f.mu.Unlock()
}

type broker struct {
	svr      *service.Server
	stopDone chan service.VerifServiceInfo
	serving  sync.WaitGroup
}

func newBroker() *broker {
	topics.Unregister("mem")
	topics.Register("mem", topics.NewMemProvider())
	sessions.Unregister("mem")
	sessions.Register("mem", sessions.NewMemProvider())
	b := &broker{svr: &service.Server{ConnectTimeout: 2}, stopDone: make(chan service.VerifServiceInfo, 1024)}
	service.VerifSetHooks(nil, func(info service.VerifServiceInfo) { b.stopDone <- info })
	return b
}

// client: a raw wire-level client over net.Pipe
type client struct {
	id   string
	c    net.Conn
	buf  []byte
	wmu  sync.Mutex
	dead int32
}

func (b *broker) connect(id string, keepAlive int, will *mq.ConnectOpts) (*client, error) {
	c, _, err := b.connectSession(id, keepAlive, will, true)
	return c, err
}

// connectSession also chooses the CleanSession flag and reports the session-present flag of the CONNACK
func (b *broker) connectSession(id string, keepAlive int, will *mq.ConnectOpts, clean bool) (*client, bool, error) {
	cli, srv := net.Pipe()
	b.serving.Add(1)
	go func() { defer b.serving.Done(); b.svr.VerifServe(srv) }()
	o := mq.ConnectOpts{ClientID: id, Clean: clean, KeepAlive: keepAlive, Flags: -1}
	if will != nil {
		o.Will, o.WillTopic, o.WillMsg, o.WillQoS = true, will.WillTopic, will.WillMsg, will.WillQoS
	}
	c := &client{id: id, c: cli}
	go cli.Write(mq.Connect(o))
	p, err := c.read(5 * time.Second)
	if err != nil || mq.Type(p) != mq.CONNACK || p[3] != 0 {
		return nil, false, fmt.Errorf("connect %s: %v %x", id, err, p)
	}
	return c, p[2]&1 != 0, nil
}

func (c *client) write(b []byte) error {
	c.wmu.Lock()
	defer c.wmu.Unlock()
	c.c.SetWriteDeadline(time.Now().Add(20 * time.Second))
	_, err := c.c.Write(b)
	return err
}

// read returns the next complete packet; a stream that is not MQTT framing is an error
func (c *client) read(timeout time.Duration) ([]byte, error) {
	tmp := make([]byte, 65536)
	for {
		p, rest, ok, err := mq.NextPacket(c.buf)
		if err != nil {
			return nil, fmt.Errorf("framing: %v (%x...)", err, c.buf[:min(len(c.buf), 16)])
		}
		if ok {
			pkt := append([]byte(nil), p...)
			c.buf = append(c.buf[:0], rest...)
			return pkt, nil
		}
		c.c.SetReadDeadline(time.Now().Add(timeout))
		n, err := c.c.Read(tmp)
		c.buf = append(c.buf, tmp[:n]...)
		if err != nil && n == 0 {
			return nil, err
		}
	}
}

func min(a, b int) int {
	if a < b {
		return a
	}
	return b
}

func payload(pub, seq, size int) []byte {
	p := make([]byte, size)
	binary.BigEndian.PutUint32(p, uint32(pub))
	binary.BigEndian.PutUint32(p[4:], uint32(seq))
	for i := 8; i < size; i++ {
		p[i] = byte(seq + i)
	}
	return p
}

// subscriber loop: acknowledges like a receiver, checks well-formedness and per-publisher order
func subscriberLoop(c *client, f *failures, want map[int]int, done chan struct{}, stop *int32) {
	defer close(done)
	next := map[int]int{}
	rel := map[int]bool{}
	total := 0
	for _, n := range want {
		total += n
	}
	got := 0
	for got < total {
		p, err := c.read(20 * time.Second)
		if err != nil {
			if atomic.LoadInt32(stop) == 0 {
				f.add("C17: subscriber %s: %v after %d of %d messages", c.id, err, got, total)
			}
			return
		}
		if werr := mq.WellFormed(p); werr != nil {
			f.add("C17: subscriber %s received a malformed packet (%v): %x", c.id, werr, p[:min(len(p), 40)])
			return
		}
		switch mq.Type(p) {
		case mq.PUBLISH:
			pub, _ := mq.ParsePublish(p)
			if len(pub.Payload) < 8 {
				f.add("C17: subscriber %s received a truncated payload", c.id)
				return
			}
			pb, seq := int(binary.BigEndian.Uint32(pub.Payload)), int(binary.BigEndian.Uint32(pub.Payload[4:]))
			for i := 8; i < len(pub.Payload); i++ {
				if pub.Payload[i] != byte(seq+i) {
					f.add("C01: subscriber %s: payload of message %d of publisher %d is corrupted at byte %d", c.id, seq, pb, i)
					return
				}
			}
			if pub.QoS == 2 && rel[pub.PID] {
				// a repeated identifier before our PUBCOMP: a duplicate delivery
			}
			if seq > next[pb] {
				// messages are missing: with a subscriber being cut off at the same time that is C05, otherwise C01
				prop := "C01"
				if cutMode {
					prop = "C05"
				}
				f.add("%s: subscriber %s received message %d of publisher %d (topic %s, QoS %d) where message %d was due: %d message(s) were not delivered to it", prop, c.id, seq, pb, pub.Topic, pub.QoS, next[pb], seq-next[pb])
				return
			}
			if seq != next[pb] {
				f.add("C17: subscriber %s received message %d of publisher %d (topic %s, QoS %d) where message %d was due: not in publication order", c.id, seq, pb, pub.Topic, pub.QoS, next[pb])
				return
			}
			next[pb]++
			got++
			switch pub.QoS {
			case 1:
				c.write(mq.Ack(mq.PUBACK, pub.PID))
			case 2:
				c.write(mq.Ack(mq.PUBREC, pub.PID))
			}
		case mq.PUBREL:
			pid, _ := mq.ParseAck(p)
			c.write(mq.Ack(mq.PUBCOMP, pid))
		}
	}
}

// publisher: sends n messages on its own topic with a fixed QoS and completes the handshakes
func publisherLoop(c *client, f *failures, pub, n, qos int, sizes []int, r *hx.Rng, done *sync.WaitGroup) {
	defer done.Done()
	go func() { // answer PUBREC with PUBREL, swallow the rest
		for {
			p, err := c.read(30 * time.Second)
			if err != nil {
				return
			}
			if mq.Type(p) == mq.PUBREC {
				pid, _ := mq.ParseAck(p)
				c.write(mq.Ack(mq.PUBREL, pid))
			}
		}
	}()
	for seq := 0; seq < n; seq++ {
		size := sizes[r.Intn(len(sizes))]
		if err := c.write(mq.Publish(fmt.Sprintf("t/%d", pub), payload(pub, seq, size), qos, false, false, 1+seq%60000)); err != nil {
			f.add("C05: publisher %s could not write message %d: %v", c.id, seq, err)
			return
		}
	}
	// barrier: everything before this PINGREQ has been processed once the broker is idle again
	c.write(mq.Pingreq())
}

func dump() string {
	b := make([]byte, 1<<18)
	return string(b[:runtime.Stack(b, true)])
}

func libraryGoroutines() []string {
	var l []string
	for _, g := range strings.Split(dump(), "\n\n") {
		if strings.Contains(g, "go-mqtt/service.") || strings.Contains(g, "go-mqtt/sessions.") || strings.Contains(g, "go-mqtt/topics.") {
			if strings.Contains(g, "main.") && !strings.Contains(g, "created by github.com/mdzio") {
				continue // a harness goroutine that is inside a library call
			}
			l = append(l, g)
		}
	}
	return l
}

func (b *broker) expectStops(f *failures, n int, within time.Duration, what string) {
	deadline := time.After(within)
	for i := 0; i < n; i++ {
		select {
		case <-b.stopDone:
		case <-deadline:
			f.add("C16: %s: only %d of %d teardowns finished within %v\n%s", what, i, n, within, dump())
			return
		}
	}
}

func (b *broker) shutdown(f *failures, what string) {
	b.serving.Wait()
	done := make(chan struct{})
	go func() { b.svr.Close(); close(done) }()
	select {
	case <-done:
	case <-time.After(15 * time.Second):
		f.add("C16: %s: Server.Close did not return within 15s\n%s", what, dump())
		return
	}
	for i := 0; i < 100; i++ {
		if len(libraryGoroutines()) == 0 {
			break
		}
		time.Sleep(20 * time.Millisecond)
	}
	if l := libraryGoroutines(); len(l) > 0 {
		f.add("C16: %s: %d goroutines of the library remain after all connections ended and Server.Close returned:\n%s", what, len(l), strings.Join(l, "\n\n"))
	}
	service.VerifSetHooks(nil, nil)
}

// ---------------------------------------------------------------------------------------

var cutMode bool

func storm(r *hx.Rng, f *failures, stats map[string]int, cut bool) {
	cutMode = cut
	b := newBroker()
	nPub, nSub := 3+r.Intn(3), 2+r.Intn(2)
	per := 40 + r.Intn(40)
	sizes := []int{16, 200, 3000, 9000, 20000, 31000}
	want := map[int]int{}
	for p := 0; p < nPub; p++ {
		want[p] = per
	}
	var subs []*client
	var dones []chan struct{}
	var stop int32
	var victim *client
	victimAt := -1
	if cut {
		victimAt = r.Intn(nSub + 1) // its place in the order of subscription
	}
	addVictim := func() {
		// one more subscriber that is cut off in the middle of the deliveries
		v, err := b.connect("victim", 60, nil)
		if err == nil {
			v.write(mq.Subscribe(1, []string{"t/#"}, []int{1}))
			v.read(5 * time.Second)
			victim = v
		}
	}
	for s := 0; s < nSub; s++ {
		if s == victimAt {
			addVictim()
		}
		c, err := b.connect(fmt.Sprintf("sub%d", s), 60, nil)
		if err != nil {
			f.add("harness: %v", err)
			return
		}
		c.write(mq.Subscribe(1, []string{"t/#"}, []int{s % 3}))
		if p, err := c.read(5 * time.Second); err != nil || mq.Type(p) != mq.SUBACK {
			f.add("C07: no SUBACK for %s: %v %x", c.id, err, p)
			return
		}
		subs = append(subs, c)
	}
	if victimAt == nSub {
		addVictim()
	}
	for _, c := range subs {
		d := make(chan struct{})
		dones = append(dones, d)
		go subscriberLoop(c, f, want, d, &stop)
	}
	var wg sync.WaitGroup
	var pubs []*client
	for p := 0; p < nPub; p++ {
		c, err := b.connect(fmt.Sprintf("pub%d", p), 60, nil)
		if err != nil {
			f.add("harness: %v", err)
			return
		}
		pubs = append(pubs, c)
		wg.Add(1)
		go publisherLoop(c, f, p, per, p%3, sizes, hx.NewRng(r.U64()), &wg)
	}
	if victim != nil {
		go func() {
			// read a little, then vanish
			for i, n := 0, r.Intn(30); i < n; i++ {
				if _, err := victim.read(2 * time.Second); err != nil {
					break
				}
			}
			victim.c.Close()
		}()
	}
	wg.Wait()
	for i, d := range dones {
		select {
		case <-d:
		case <-time.After(40 * time.Second):
			f.add("C17: subscriber %s did not receive all messages within 40s (deliveries stuck?)\n%s", subs[i].id, dump())
		}
	}
	atomic.StoreInt32(&stop, 1)
	n := 0
	for _, c := range append(append([]*client{}, subs...), pubs...) {
		c.c.Close()
		n++
	}
	if victim != nil {
		n++
	}
	b.expectStops(f, n, 15*time.Second, "storm")
	b.shutdown(f, "storm")
	stats["storm_messages"] += nPub * per * nSub
	stats["storms"]++
}

// teardown scenarios: buffer conditions x causes of end x orders
func teardown(r *hx.Rng, f *failures, stats map[string]int, cond int) {
	b := newBroker()
	what := ""
	// a slow reader S that never reads its pipe, a publisher P that floods S's topic, a bystander pair
	s, err1 := b.connect("slow", 60, nil)
	p, err2 := b.connect("flood", 60, &mq.ConnectOpts{WillTopic: "w/flood", WillMsg: []byte("x"), WillQoS: 1})
	w, err3 := b.connect("witness", 60, nil)
	q, err4 := b.connect("bystander", 60, nil)
	if err1 != nil || err2 != nil || err3 != nil || err4 != nil {
		f.add("harness: connect failed")
		return
	}
	s.write(mq.Subscribe(1, []string{"flood/#"}, []int{0}))
	s.read(5 * time.Second)
	w.write(mq.Subscribe(1, []string{"w/#", "by/#"}, []int{1, 0}))
	w.read(5 * time.Second)
	if cond == 3 {
		// cross-blocked: P receives what S publishes (and reads none of it)
		p.write(mq.Subscribe(1, []string{"back/#"}, []int{0}))
		p.read(5 * time.Second)
	}
	switch cond {
	case 0:
		what = "idle connections"
	case 4:
		// S receives its own publications and reads none of them: its processor blocks as the producer of its
		// own outgoing ring
		what = "processor blocked on the connection's own full outgoing ring"
		go func() {
			big := make([]byte, 30000)
			for i := 0; i < 40; i++ {
				if s.write(mq.Publish("flood/self", big, 0, false, false, 0)) != nil {
					return
				}
			}
		}()
		time.Sleep(250 * time.Millisecond)
	case 1, 2, 3:
		// S stops reading: its outgoing ring (256 KiB) fills, then P's processor blocks in writeMessage
		// on it, then P's incoming ring fills and P's receiver blocks for space
		what = []string{"", "outgoing ring full", "incoming ring full behind a third party's full outgoing ring", "cross-blocked publisher / subscriber"}[cond]
		go func() {
			big := make([]byte, 30000)
			for i := 0; i < 40; i++ {
				if p.write(mq.Publish("flood/x", big, 0, false, false, 0)) != nil {
					return
				}
			}
		}()
		time.Sleep(150 * time.Millisecond)
		if cond == 3 {
			// the other direction as well: P subscribes to what S would publish, and S floods without reading
			go func() {
				big := make([]byte, 30000)
				for i := 0; i < 40; i++ {
					if s.write(mq.Publish("back/x", big, 0, false, false, 0)) != nil {
						return
					}
				}
			}()
			time.Sleep(100 * time.Millisecond)
		}
	}
	// the bystander pair must keep working whatever state the others are in
	q.write(mq.Publish("by/1", []byte("hello"), 0, false, false, 0))
	if pk, err := w.read(5 * time.Second); err != nil || mq.Type(pk) != mq.PUBLISH {
		f.add("C05: %s: the witness did not receive the bystander's message: %v %x", what, err, pk)
	}
	// end the involved connections in a random order and by random causes
	order := []*client{s, p}
	if r.Bool() {
		order = []*client{p, s}
	}
	for _, c := range order {
		switch r.Intn(3) {
		case 0:
			c.c.Close() // abrupt
		case 1:
			go c.write([]byte{0xf0, 0x00}) // protocol error (may never be read when the ring is full)
			time.Sleep(20 * time.Millisecond)
			c.c.Close()
		case 2:
			go c.write(mq.Disconnect())
			time.Sleep(20 * time.Millisecond)
			c.c.Close()
		}
		time.Sleep(time.Duration(r.Intn(30)) * time.Millisecond)
	}
	b.expectStops(f, 2, 10*time.Second, "teardown with "+what)
	// the bystander pair still works
	q.write(mq.Publish("by/2", []byte("again"), 0, false, false, 0))
	for {
		pk, err := w.read(5 * time.Second)
		if err != nil {
			f.add("C05: %s: after the teardowns the witness did not receive the bystander's message: %v", what, err)
			break
		}
		if mq.Type(pk) == mq.PUBLISH {
			if pub, _ := mq.ParsePublish(pk); pub.Topic == "by/2" {
				break
			}
		}
	}
	w.c.Close()
	q.c.Close()
	b.expectStops(f, 2, 10*time.Second, "teardown of the bystanders")
	// a clean session is discarded at the end of its connection whatever its will is like: also a will the topic
	// store refuses to route (a level starting with '$'), also when the connection ends without DISCONNECT
	for i, wt := range []string{"$gone/x", "gone/$x", "gone/x"} {
		id := fmt.Sprintf("cleanwill%d", i)
		c, _, err := b.connectSession(id, 60, &mq.ConnectOpts{WillTopic: wt, WillMsg: []byte("x")}, true)
		if err != nil {
			f.add("harness: %v", err)
			continue
		}
		c.write(mq.Subscribe(1, []string{"cw/#"}, []int{1}))
		c.read(5 * time.Second)
		c.c.Close()
		b.expectStops(f, 1, 10*time.Second, "teardown of a clean session with will topic "+wt)
		c2, sp, err := b.connectSession(id, 60, nil, false)
		if err != nil {
			f.add("harness: %v", err)
			continue
		}
		if sp {
			f.add("C16: the clean session of a connection with will topic %q that ended abruptly was not discarded: a later CONNECT with CleanSession=0 is answered with session-present=1", wt)
		}
		c2.write(mq.Disconnect())
		c2.c.Close()
		b.expectStops(f, 1, 10*time.Second, "teardown after the probe")
	}
	b.shutdown(f, "teardown with "+what)
	stats["teardown_"+fmt.Sprint(cond)]++
}

// churn: retained updates concurrent to new subscriptions, subscription and connection churn, in-process
// Publish / Subscribe calls - the workload of C18 beyond the storm, and the isolation clause of C08: a
// retained payload a new subscriber receives must be one that was published, intact
func churn(r *hx.Rng, f *failures, stats map[string]int) {
	b := newBroker()
	var wg sync.WaitGroup
	var stop int32
	selfCheck := func(p []byte) bool { // payload = n copies of one byte value, n encoded in the first byte
		if len(p) == 0 {
			return true // the PUBLISH that cleared a retained message, forwarded to the current subscribers
		}
		if len(p) < 2 {
			return false
		}
		for _, x := range p[1:] {
			if x != p[0] {
				return false
			}
		}
		return true
	}
	mk := func(v byte, n int) []byte {
		p := make([]byte, n)
		for i := range p {
			p[i] = v
		}
		return p
	}
	// retained publishers
	for i := 0; i < 2; i++ {
		c, err := b.connect(fmt.Sprintf("ret%d", i), 60, nil)
		if err != nil {
			f.add("harness: %v", err)
			return
		}
		wg.Add(1)
		go func(c *client, rr *hx.Rng) {
			defer wg.Done()
			go func() {
				for {
					if _, err := c.read(10 * time.Second); err != nil {
						return
					}
				}
			}()
			for k := 0; k < 400 && atomic.LoadInt32(&stop) == 0; k++ {
				t := fmt.Sprintf("r/%d", rr.Intn(3))
				if rr.Chance(30) {
					t += fmt.Sprintf("/s%d", rr.Intn(2)) // siblings below a level that is pruned when both are cleared
				}
				pl := mk(byte(1+rr.Intn(250)), 2+rr.Intn(3000))
				if rr.Chance(20) {
					pl = nil // clears the retained message of the topic, concurrently with stores and lookups
				}
				c.write(mq.Publish(t, pl, rr.Intn(2), true, false, 1+k))
			}
			c.c.Close()
		}(c, hx.NewRng(r.U64()))
	}
	// subscribers that come and go
	for i := 0; i < 3; i++ {
		wg.Add(1)
		go func(i int, rr *hx.Rng) {
			defer wg.Done()
			for k := 0; k < 25 && atomic.LoadInt32(&stop) == 0; k++ {
				c, err := b.connect(fmt.Sprintf("churn%d", i), 60, nil)
				if err != nil {
					f.add("harness: %v", err)
					return
				}
				c.write(mq.Subscribe(1, []string{"r/#", "r/+"}, []int{rr.Intn(3), rr.Intn(3)}))
				deadline := time.Now().Add(time.Duration(5+rr.Intn(20)) * time.Millisecond)
				for time.Now().Before(deadline) {
					p, err := c.read(30 * time.Millisecond)
					if err != nil {
						break
					}
					if werr := mq.WellFormed(p); werr != nil {
						f.add("C17: subscriber churn%d received a malformed packet (%v): %x", i, werr, p[:min(len(p), 40)])
						break
					}
					if mq.Type(p) == mq.PUBLISH {
						pub, _ := mq.ParsePublish(p)
						if !selfCheck(pub.Payload) {
							f.add("C08: subscriber churn%d received a torn retained / forwarded payload on %s: %x...", i, pub.Topic, pub.Payload[:min(len(pub.Payload), 24)])
						}
					}
				}
				if rr.Bool() {
					c.write(mq.Unsubscribe(2, []string{"r/#"}))
				}
				c.c.Close()
			}
		}(i, hx.NewRng(r.U64()))
	}
	// in-process API
	wg.Add(1)
	go func(rr *hx.Rng) {
		defer wg.Done()
		fn := service.OnPublishFunc(func(m *message.PublishMessage) error {
			if !selfCheck(m.Payload()) {
				f.add("C08: the in-process subscriber received a torn payload on %s", m.Topic())
			}
			return nil
		})
		for k := 0; k < 150 && atomic.LoadInt32(&stop) == 0; k++ {
			b.svr.Subscribe("r/#", byte(rr.Intn(3)), &fn)
			m := message.NewPublishMessage()
			m.SetTopic([]byte(fmt.Sprintf("r/%d", rr.Intn(3))))
			m.SetPayload(mk(byte(1+rr.Intn(250)), 2+rr.Intn(500)))
			m.SetQoS(byte(rr.Intn(2)))
			m.SetRetain(rr.Bool())
			b.svr.Publish(m)
			b.svr.Unsubscribe("r/#", &fn)
		}
	}(hx.NewRng(r.U64()))
	done := make(chan struct{})
	go func() { wg.Wait(); close(done) }()
	select {
	case <-done:
	case <-time.After(60 * time.Second):
		atomic.StoreInt32(&stop, 1)
		f.add("C16: the churn workload did not finish within 60s\n%s", dump())
	}
	time.Sleep(50 * time.Millisecond)
	b.shutdown(f, "churn")
	stats["churn"]++
}

// ackeffect: a SUBSCRIBE / UNSUBSCRIBE with thousands of filters takes effect AT its acknowledgement:
// the moment the SUBACK (UNSUBACK) has been read, another connection publishes to the last filter of the
// request; the subscriber must (must not) receive it
func ackeffect(r *hx.Rng, f *failures, stats map[string]int) {
	b := newBroker()
	a, err1 := b.connect("acka", 60, nil)
	p, err2 := b.connect("ackp", 60, nil)
	if err1 != nil || err2 != nil {
		f.add("harness: connect failed")
		return
	}
	n := 7000 + r.Intn(4000)
	var fs []string
	var qs []int
	for i := 0; i < n; i++ {
		fs = append(fs, fmt.Sprintf("ack/%d", i))
		qs = append(qs, 0)
	}
	sync := func(c *client) bool { // PINGREQ / PINGRESP round trip; PUBLISH packets on the way are counted
		c.write(mq.Pingreq())
		return true
	}
	_ = sync
	// drain a until PINGRESP, counting PUBLISH packets of topic t
	drain := func(c *client, t string) (int, bool) {
		got := 0
		c.write(mq.Pingreq())
		for {
			pk, err := c.read(10 * time.Second)
			if err != nil {
				return got, false
			}
			switch mq.Type(pk) {
			case mq.PINGRESP:
				return got, true
			case mq.PUBLISH:
				if pub, _ := mq.ParsePublish(pk); pub.Topic == t {
					got++
				}
			}
		}
	}
	for round := 0; round < 5; round++ {
		last := fs[n-1-round]
		// SUBSCRIBE: effective once the SUBACK is out
		a.write(mq.Subscribe(10+round, fs, qs))
		for {
			pk, err := a.read(20 * time.Second)
			if err != nil {
				f.add("C07: no SUBACK for a SUBSCRIBE with %d filters: %v", n, err)
				return
			}
			if mq.Type(pk) == mq.SUBACK {
				break
			}
		}
		p.write(mq.Publish(last, []byte("after suback"), 0, false, false, 0))
		if _, ok := drain(p, ""); !ok {
			f.add("C07: the publisher's connection failed")
			return
		}
		if got, _ := drain(a, last); got != 1 {
			f.add("C07: a message accepted after the SUBACK of a %d-filter SUBSCRIBE was delivered %d times to the subscriber (filter %s)", n, got, last)
		}
		// UNSUBSCRIBE: no delivery once the UNSUBACK is out
		a.write(mq.Unsubscribe(20+round, fs))
		for {
			pk, err := a.read(20 * time.Second)
			if err != nil {
				f.add("C07: no UNSUBACK for an UNSUBSCRIBE with %d filters: %v", n, err)
				return
			}
			if mq.Type(pk) == mq.UNSUBACK {
				break
			}
		}
		p.write(mq.Publish(last, []byte("after unsuback"), 0, false, false, 0))
		if _, ok := drain(p, ""); !ok {
			f.add("C07: the publisher's connection failed")
			return
		}
		if got, _ := drain(a, last); got != 0 {
			f.add("C07: a message accepted after the UNSUBACK of a %d-filter UNSUBSCRIBE was still delivered to the unsubscribed filter %s", n, last)
		}
	}
	a.c.Close()
	p.c.Close()
	b.expectStops(f, 2, 10*time.Second, "ackeffect")
	b.shutdown(f, "ackeffect")
	stats["ackeffect"]++
}

// inproc: the in-process API under nested and concurrent use.  A subscriber that publishes from inside its callback
// (a bridge), and two goroutines publishing on disjoint topics at once: every Server.Publish reaches exactly the
// subscribers of ITS topic, in-process ones and connected clients alike (C01).
func inproc(r *hx.Rng, f *failures, stats map[string]int) {
	b := newBroker()
	var mu sync.Mutex
	got := map[string][]string{} // subscriber -> topic=payload received
	sub := func(name, topic string, bridge string) *service.OnPublishFunc {
		fn := service.OnPublishFunc(func(m *message.PublishMessage) error {
			mu.Lock()
			got[name] = append(got[name], string(m.Topic())+"="+string(m.Payload()))
			mu.Unlock()
			if bridge != "" {
				o := message.NewPublishMessage()
				o.SetTopic([]byte(bridge))
				o.SetPayload(append([]byte("via "+name+": "), m.Payload()...))
				return b.svr.Publish(o)
			}
			return nil
		})
		b.svr.Subscribe(topic, 0, &fn)
		return &fn
	}
	// nested: A bridges in/x to out/x; B also holds in/x; C and D hold out/x; a connected client holds both
	sub("A", "in/x", "out/x")
	sub("B", "in/x", "")
	sub("C", "out/x", "")
	sub("D", "out/x", "")
	cl, err := b.connect("ipc", 60, nil)
	if err != nil {
		f.add("harness: %v", err)
		return
	}
	cl.write(mq.Subscribe(1, []string{"in/#", "out/#"}, []int{0, 0}))
	cl.read(5 * time.Second)
	m := message.NewPublishMessage()
	m.SetTopic([]byte("in/x"))
	m.SetPayload([]byte("hello"))
	b.svr.Publish(m)
	cl.write(mq.Pingreq())
	var clGot []string
	for {
		pk, err := cl.read(5 * time.Second)
		if err != nil || mq.Type(pk) == mq.PINGRESP {
			break
		}
		if mq.Type(pk) == mq.PUBLISH {
			pub, _ := mq.ParsePublish(pk)
			clGot = append(clGot, pub.Topic+"="+string(pub.Payload))
		}
	}
	sort.Strings(clGot)
	mu.Lock()
	want := map[string]string{"A": "in/x=hello", "B": "in/x=hello", "C": "out/x=via A: hello", "D": "out/x=via A: hello"}
	for n, w := range want {
		if strings.Join(got[n], "|") != w {
			f.add("C01: in-process subscriber %s received %q where a publish on in/x (bridged by A to out/x) must give it exactly %q", n, got[n], w)
		}
	}
	mu.Unlock()
	if strings.Join(clGot, "|") != "in/x=hello|out/x=via A: hello" {
		f.add("C01: the connected client holding in/# and out/# received %q, expected the publish on in/x and the bridged one on out/x", clGot)
	}
	// concurrent: two goroutines publish on disjoint topics, four subscribers each
	mu.Lock()
	got = map[string][]string{}
	mu.Unlock()
	for _, t := range []string{"p/1", "p/2"} {
		for k := 0; k < 4; k++ {
			sub(fmt.Sprintf("%s#%d", t, k), t, "")
		}
	}
	const n = 3000
	var wg sync.WaitGroup
	for _, t := range []string{"p/1", "p/2"} {
		wg.Add(1)
		go func(t string) {
			defer wg.Done()
			for i := 0; i < n; i++ {
				o := message.NewPublishMessage()
				o.SetTopic([]byte(t))
				o.SetPayload([]byte(t))
				b.svr.Publish(o)
			}
		}(t)
	}
	wg.Wait()
	mu.Lock()
	for _, t := range []string{"p/1", "p/2"} {
		for k := 0; k < 4; k++ {
			name := fmt.Sprintf("%s#%d", t, k)
			foreign := 0
			for _, x := range got[name] {
				if x != t+"="+t {
					foreign++
				}
			}
			if len(got[name]) != n || foreign > 0 {
				f.add("C01: in-process subscriber of %s received %d messages (%d of them of another topic) while two goroutines published %d messages each on p/1 and p/2", t, len(got[name]), foreign, n)
			}
		}
	}
	mu.Unlock()
	cl.c.Close()
	b.expectStops(f, 1, 10*time.Second, "inproc")
	b.shutdown(f, "inproc")
	stats["inproc"]++
}

// resume: a persistent session is resumed again and again while a publisher floods its stored subscription with
// packets larger than the sender's write block.  On every resumed connection the first packet must be the CONNACK
// (with session-present) and everything after it whole, intact PUBLISH packets in publication order (C17, C10).
func resume(r *hx.Rng, f *failures, stats map[string]int) {
	b := newBroker()
	s, _, err := b.connectSession("rsm", 60, nil, false)
	if err != nil {
		f.add("harness: %v", err)
		return
	}
	s.write(mq.Subscribe(1, []string{"rs/#"}, []int{0}))
	s.read(5 * time.Second)
	s.c.Close()
	b.expectStops(f, 1, 10*time.Second, "resume (first connection)")
	p, err := b.connect("rsmpub", 60, nil)
	if err != nil {
		f.add("harness: %v", err)
		return
	}
	var stop int32
	var wg sync.WaitGroup
	wg.Add(1)
	go func() {
		defer wg.Done()
		for seq := 0; atomic.LoadInt32(&stop) == 0 && seq < 100000; seq++ {
			if p.write(mq.Publish("rs/x", payload(7, seq, 20000), 0, false, false, 0)) != nil {
				return
			}
		}
	}()
	conns := 2
	for round := 0; round < 12; round++ {
		cli, srv := net.Pipe()
		b.serving.Add(1)
		go func() { defer b.serving.Done(); b.svr.VerifServe(srv) }()
		conns++
		c := &client{id: "rsm", c: cli}
		go cli.Write(mq.Connect(mq.ConnectOpts{ClientID: "rsm", Clean: false, KeepAlive: 60, Flags: -1}))
		time.Sleep(time.Duration(r.Intn(4)) * time.Millisecond)
		last := -1
		for k := 0; k < 6; k++ {
			pk, err := c.read(5 * time.Second)
			if err != nil {
				f.add("C17: resumed connection %d: the stream the broker wrote is not a sequence of whole MQTT packets or ended: %v", round, err)
				break
			}
			if k == 0 {
				if mq.Type(pk) != mq.CONNACK {
					f.add("C17: resumed connection %d: the first packet on the connection is not the CONNACK but a packet of type %d (%d bytes)", round, mq.Type(pk), len(pk))
					break
				}
				if pk[2]&1 == 0 {
					f.add("C10: resumed connection %d: CONNACK without session-present although the session was stored", round)
				}
				continue
			}
			if werr := mq.WellFormed(pk); werr != nil || mq.Type(pk) != mq.PUBLISH {
				f.add("C17: resumed connection %d: packet %d is not a well-formed PUBLISH (%v): %x", round, k, werr, pk[:min(len(pk), 32)])
				break
			}
			pub, _ := mq.ParsePublish(pk)
			if len(pub.Payload) != 20000 {
				f.add("C17: resumed connection %d: PUBLISH with a payload of %d bytes, 20000 were published", round, len(pub.Payload))
				break
			}
			seq := int(binary.BigEndian.Uint32(pub.Payload[4:]))
			for i := 8; i < len(pub.Payload); i++ {
				if pub.Payload[i] != byte(seq+i) {
					f.add("C17: resumed connection %d: payload of message %d damaged at byte %d", round, seq, i)
					k = 99
					break
				}
			}
			if last >= 0 && seq <= last {
				f.add("C17: resumed connection %d: message %d after message %d", round, seq, last)
			}
			last = seq
		}
		c.c.Close()
		time.Sleep(time.Duration(r.Intn(3)) * time.Millisecond)
	}
	atomic.StoreInt32(&stop, 1)
	wg.Wait()
	p.c.Close()
	b.expectStops(f, conns-1, 15*time.Second, "resume")
	b.shutdown(f, "resume")
	stats["resume"]++
}

// retrace: one connection updates a retained topic with the values 1..n while other connections keep
// subscribing to it.  Whatever the interleaving, a subscription sees a consistent cut: the retained value k it
// is sent when it subscribes, then the live forwards k+1, k+2, ... n without a gap (QoS 0 forwards of one
// publisher arrive in order).  An update that reaches a concurrent subscription neither as a retained message
// nor as a forward was lost to it (C08: "with retained updates concurrent to new subscriptions").
func retrace(r *hx.Rng, f *failures, stats map[string]int) {
	b := newBroker()
	const n = 2500
	p, err := b.connect("rpub", 60, nil)
	if err != nil {
		f.add("harness: %v", err)
		return
	}
	var wg sync.WaitGroup
	var started, done int32
	conns := int32(1)
	for s := 0; s < 8; s++ {
		wg.Add(1)
		go func(s int) {
			defer wg.Done()
			for round := 0; atomic.LoadInt32(&done) == 0 && round < 400; round++ {
				c, err := b.connect(fmt.Sprintf("rsub%d_%d", s, round), 60, nil)
				if err != nil {
					return
				}
				atomic.AddInt32(&conns, 1)
				atomic.AddInt32(&started, 1)
				c.write(mq.Subscribe(1, []string{"r/#"}, []int{0}))
				// the values this subscription is sent (the retained one when it subscribes and the forwards; a forward can
				// overtake the retained message, and the value retained while the subscription was being made can arrive
				// both ways): together they must be a gap-free range
				vals := map[int]bool{}
				lo, hi, sawRetained := -1, -1, false
				for seen := 0; hi < n && seen < 8; seen++ {
					pk, err := c.read(3 * time.Second)
					if err != nil {
						if hi >= 0 && hi < n {
							f.add("C08: a subscription made while the retained topic was being updated received values up to %d and then nothing for 3s although the updates went on up to %d", hi, n)
						}
						break
					}
					if mq.Type(pk) != mq.PUBLISH {
						continue
					}
					pub, _ := mq.ParsePublish(pk)
					v := int(binary.BigEndian.Uint32(pub.Payload))
					sawRetained = sawRetained || pub.Retain
					vals[v] = true
					if lo < 0 || v < lo {
						lo = v
					}
					if v > hi {
						hi = v
					}
				}
				if lo >= 0 && len(vals) != hi-lo+1 {
					var missing []int
					for v := lo; v <= hi; v++ {
						if !vals[v] {
							missing = append(missing, v)
						}
					}
					f.add("C08: a subscription made while the retained topic was being updated received the values %d..%d except %v: those updates reached it neither as retained message nor as forward (retained message seen: %v)", lo, hi, missing, sawRetained)
				}
				c.c.Close()
			}
		}(s)
	}
	for v := 1; v <= n; v++ {
		pl := make([]byte, 4)
		binary.BigEndian.PutUint32(pl, uint32(v))
		if p.write(mq.Publish("r/t", pl, 0, true, false, 0)) != nil {
			f.add("harness: retained update could not be written")
			break
		}
		time.Sleep(40 * time.Microsecond)
	}
	p.write(mq.Pingreq())
	p.read(5 * time.Second)
	atomic.StoreInt32(&done, 1)
	wg.Wait()
	p.c.Close()
	b.expectStops(f, int(atomic.LoadInt32(&conns)), 15*time.Second, "retrace")
	b.shutdown(f, "retrace")
	stats["retrace_subscriptions"] += int(atomic.LoadInt32(&started))
	stats["retrace"]++
}

// gateProvider wraps the in-memory topic store: the driver can hold a connection's processor right after one of
// its calls into the store (each call is atomic under the store's own lock), run another connection to
// completion, and release it: forced interleavings of store operations of two connections, without touching
// the library
type gateProvider struct {
	topics.Provider
	mu     sync.Mutex
	hold   string        // hold the caller after its next call of this kind ("publish": Retain or Subscribers; "subscribe": Subscribe)
	paused chan struct{} // signalled when a caller is being held
	resume chan struct{}
}

func (g *gateProvider) gate(kind string) {
	g.mu.Lock()
	hit := g.hold == kind
	if hit {
		g.hold = ""
	}
	g.mu.Unlock()
	if hit {
		g.paused <- struct{}{}
		<-g.resume
	}
}

func (g *gateProvider) Subscribe(topic []byte, qos byte, sub interface{}) (byte, error) {
	q, err := g.Provider.Subscribe(topic, qos, sub)
	g.gate("subscribe")
	return q, err
}

func (g *gateProvider) Subscribers(topic []byte, qos byte, subs *[]interface{}, qoss *[]byte) error {
	err := g.Provider.Subscribers(topic, qos, subs, qoss)
	g.gate("publish")
	return err
}

func (g *gateProvider) Retain(msg *message.PublishMessage) error {
	err := g.Provider.Retain(msg)
	g.gate("publish")
	return err
}

// retforce: a retained update and a new subscription to its topic, with one of the two held between its two
// operations on the topic store while the other one runs to completion.  In every such interleaving the
// subscription must be sent the new value: as the retained message, as a forward, or both.
func retforce(f *failures, stats map[string]int) {
	for _, held := range []string{"publish", "subscribe"} {
		for _, withOld := range []bool{false, true} {
			topics.Unregister("verifgate")
			g := &gateProvider{Provider: topics.NewMemProvider(), paused: make(chan struct{}, 1), resume: make(chan struct{})}
			topics.Register("verifgate", g)
			b := newBroker()
			b.svr.TopicsProvider = "verifgate"
			what := fmt.Sprintf("retained update (old value present: %v) and new subscription, %s held between its two store operations", withOld, held)
			p, err1 := b.connect("fp", 60, nil)
			s, err2 := b.connect("fs", 60, nil)
			if err1 != nil || err2 != nil {
				f.add("harness: connect failed")
				return
			}
			if withOld {
				p.write(mq.Publish("r/t", []byte("old"), 0, true, false, 0))
				p.write(mq.Pingreq())
				p.read(5 * time.Second)
			}
			g.mu.Lock()
			g.hold = held
			g.mu.Unlock()
			first, second := p, s
			firstPkt, secondPkt := mq.Publish("r/t", []byte("new"), 0, true, false, 0), mq.Subscribe(1, []string{"r/#"}, []int{0})
			if held == "subscribe" {
				first, second, firstPkt, secondPkt = s, p, secondPkt, firstPkt
			}
			first.write(firstPkt)
			select {
			case <-g.paused:
			case <-time.After(5 * time.Second):
				f.add("harness: %s: the held operation was not reached", what)
				return
			}
			// the other connection runs to completion (barrier), then the held one goes on
			second.write(secondPkt)
			second.write(mq.Pingreq())
			gotNew := false
			drain := func(c *client, until int) {
				for {
					pk, err := c.read(3 * time.Second)
					if err != nil {
						return
					}
					if mq.Type(pk) == mq.PUBLISH {
						if pub, _ := mq.ParsePublish(pk); string(pub.Payload) == "new" && c == s {
							gotNew = true
						}
					}
					if mq.Type(pk) == until {
						return
					}
				}
			}
			drain(second, mq.PINGRESP)
			g.resume <- struct{}{}
			first.write(mq.Pingreq())
			drain(first, mq.PINGRESP)
			// whatever is still on its way to the subscriber
			s.write(mq.Pingreq())
			drain(s, mq.PINGRESP)
			if !gotNew {
				f.add("C08: %s: the subscription was sent the new value neither as retained message nor as forward", what)
			}
			p.c.Close()
			s.c.Close()
			b.expectStops(f, 2, 10*time.Second, "retforce")
			b.shutdown(f, "retforce")
			stats["retforce"]++
		}
	}
	topics.Unregister("verifgate")
}

// keep-alive: K = 1 s
func keepalive(f *failures, stats map[string]int) {
	b := newBroker()
	w, _ := b.connect("kw", 60, nil)
	w.write(mq.Subscribe(1, []string{"will/#"}, []int{0}))
	w.read(5 * time.Second)
	var wg sync.WaitGroup
	// silent from the start / silent after traffic: dropped between 1.0 and 3 s after the last packet, will published
	for i, pre := range []bool{false, true} {
		wg.Add(1)
		go func(i int, pre bool) {
			defer wg.Done()
			c, err := b.connect(fmt.Sprintf("silent%d", i), 1, &mq.ConnectOpts{WillTopic: fmt.Sprintf("will/silent%d", i), WillMsg: []byte("gone")})
			if err != nil {
				f.add("harness: %v", err)
				return
			}
			if pre {
				c.write(mq.Publish("x", []byte("y"), 0, false, false, 0))
				c.write(mq.Pingreq())
				c.read(2 * time.Second)
			}
			t0 := time.Now()
			_, err = c.read(6 * time.Second)
			d := time.Since(t0)
			if err == nil || strings.Contains(err.Error(), "timeout") {
				f.add("C19: a client with keep-alive 1s that sent nothing for %v was not disconnected", d)
			} else if d < 900*time.Millisecond {
				f.add("C19: a client with keep-alive 1s was disconnected after only %v of silence", d)
			}
		}(i, pre)
	}
	// active: PINGREQ (or a publish) every 0.4 s for 3.5 s: never dropped, every PINGREQ answered
	for i, ping := range []bool{true, false} {
		wg.Add(1)
		go func(i int, ping bool) {
			defer wg.Done()
			c, err := b.connect(fmt.Sprintf("active%d", i), 1, &mq.ConnectOpts{WillTopic: fmt.Sprintf("will/active%d", i), WillMsg: []byte("gone")})
			if err != nil {
				f.add("harness: %v", err)
				return
			}
			for t := 0; t < 9; t++ {
				if ping {
					if c.write(mq.Pingreq()) != nil {
						f.add("C19: an active client (PINGREQ every 0.4s, keep-alive 1s) was disconnected")
						return
					}
					if p, err := c.read(2 * time.Second); err != nil || mq.Type(p) != mq.PINGRESP {
						f.add("C19: PINGREQ of an active client was not answered by PINGRESP: %v %x", err, p)
						return
					}
				} else if c.write(mq.Publish("x", []byte("y"), 0, false, false, 0)) != nil {
					f.add("C19: an active client (PUBLISH every 0.4s, keep-alive 1s) was disconnected")
					return
				}
				time.Sleep(400 * time.Millisecond)
			}
			c.write(mq.Disconnect())
			c.c.Close()
		}(i, ping)
	}
	// silent, but receiving: a subscriber that sends nothing while the broker keeps forwarding publishes to it is as
	// silent as any other (what the broker writes is not activity of the client)
	wg.Add(1)
	go func() {
		defer wg.Done()
		c, err := b.connect("silentsub", 1, &mq.ConnectOpts{WillTopic: "will/silent-receiving", WillMsg: []byte("gone")})
		if err != nil {
			f.add("harness: %v", err)
			return
		}
		c.write(mq.Subscribe(1, []string{"ka/data"}, []int{0}))
		if _, err := c.read(2 * time.Second); err != nil {
			f.add("harness: no SUBACK for the silent subscriber: %v", err)
			return
		}
		t0 := time.Now()
		stop := make(chan struct{})
		go func() {
			for {
				select {
				case <-stop:
					return
				case <-time.After(250 * time.Millisecond):
					m := message.NewPublishMessage()
					m.SetTopic([]byte("ka/data"))
					m.SetPayload([]byte("tick"))
					b.svr.Publish(m)
				}
			}
		}()
		for {
			_, err := c.read(6 * time.Second)
			if err != nil {
				if strings.Contains(err.Error(), "timeout") {
					f.add("C19: a subscriber with keep-alive 1s that sent nothing for %v, while the broker kept forwarding publishes to it, was not disconnected", time.Since(t0))
				}
				break
			}
			if time.Since(t0) > 4*time.Second {
				f.add("C19: a subscriber with keep-alive 1s that sent nothing for %v, while the broker kept forwarding publishes to it, was not disconnected", time.Since(t0))
				break
			}
		}
		close(stop)
		c.c.Close()
	}()
	// silent on a resumed session: the connection before it ended with an orderly DISCONNECT (its will discarded); the
	// client comes back with the same CONNECT (or with a different will), is active for a while and then goes silent:
	// that connection ends abnormally like any other, with the will its own CONNECT carried
	for i, same := range []bool{true, false} {
		wg.Add(1)
		go func(i int, same bool) {
			defer wg.Done()
			id := fmt.Sprintf("resumed%d", i)
			topic := fmt.Sprintf("will/silent-resumed%d", i)
			first := &mq.ConnectOpts{WillTopic: topic, WillMsg: []byte("gone")}
			if !same {
				first = &mq.ConnectOpts{WillTopic: fmt.Sprintf("will/active-earlier%d", i), WillMsg: []byte("earlier")}
			}
			c, _, err := b.connectSession(id, 1, first, false)
			if err != nil {
				f.add("harness: %v", err)
				return
			}
			c.write(mq.Pingreq())
			c.read(2 * time.Second)
			c.write(mq.Disconnect())
			c.c.Close()
			time.Sleep(300 * time.Millisecond)
			c, present, err := b.connectSession(id, 1, &mq.ConnectOpts{WillTopic: topic, WillMsg: []byte("gone")}, false)
			if err != nil {
				f.add("harness: %v", err)
				return
			}
			if !present {
				f.add("harness: session of %s not resumed", id)
			}
			for t := 0; t < 2; t++ {
				c.write(mq.Pingreq())
				if p, err := c.read(2 * time.Second); err != nil || mq.Type(p) != mq.PINGRESP {
					f.add("C19: PINGREQ of an active client on a resumed session was not answered by PINGRESP: %v %x", err, p)
					return
				}
				time.Sleep(300 * time.Millisecond)
			}
			t0 := time.Now()
			_, err = c.read(6 * time.Second)
			if err == nil || strings.Contains(err.Error(), "timeout") {
				f.add("C19: a client with keep-alive 1s on a resumed session that sent nothing for %v was not disconnected", time.Since(t0))
			}
		}(i, same)
	}
	// silent in the middle of a packet: the last bytes before the silence are the beginning of a packet (a link that
	// dies mid-packet is what the keep-alive exists for)
	for i, part := range [][]byte{{0x30, 0x14, 0x00, 0x03, 'a', '/', 'b'}, {0x30}} {
		wg.Add(1)
		go func(i int, part []byte) {
			defer wg.Done()
			c, err := b.connect(fmt.Sprintf("partial%d", i), 1, &mq.ConnectOpts{WillTopic: fmt.Sprintf("will/partial%d", i), WillMsg: []byte("gone")})
			if err != nil {
				f.add("harness: %v", err)
				return
			}
			c.write(mq.Pingreq())
			c.read(2 * time.Second)
			c.write(part)
			t0 := time.Now()
			_, err = c.read(6 * time.Second)
			if err == nil || strings.Contains(err.Error(), "timeout") {
				f.add("C19: a client with keep-alive 1s that went silent for %v after the first %d byte(s) of a packet was not disconnected", time.Since(t0), len(part))
			}
		}(i, part)
	}
	// active at uneven intervals, every one shorter than K: a short gap followed by a long one (a deadline that is
	// not re-armed at every read is still running from the packet before)
	rng := hx.NewRng(hx.EnvSeed() + 19)
	for i := 0; i < 2; i++ {
		var gaps []int
		for k := 0; k < 3; k++ {
			gaps = append(gaps, []int{450, 200}[i]+rng.Intn([]int{140, 100}[i]), []int{800, 900}[i]+rng.Intn([]int{150, 50}[i]))
		}
		wg.Add(1)
		go func(i int, gaps []int) {
			defer wg.Done()
			c, err := b.connect(fmt.Sprintf("uneven%d", i), 1, &mq.ConnectOpts{WillTopic: fmt.Sprintf("will/active-uneven%d", i), WillMsg: []byte("gone")})
			if err != nil {
				f.add("harness: %v", err)
				return
			}
			for _, g := range gaps {
				time.Sleep(time.Duration(g) * time.Millisecond)
				if c.write(mq.Pingreq()) != nil {
					f.add("C19: a client with keep-alive 1s that sent a packet after gaps of %v ms (each shorter than the keep-alive) was disconnected", gaps)
					return
				}
				if p, err := c.read(2 * time.Second); err != nil || mq.Type(p) != mq.PINGRESP {
					f.add("C19: PINGREQ of a client active at intervals %v ms (keep-alive 1s) was not answered by PINGRESP: %v %x", gaps, err, p)
					return
				}
			}
			c.write(mq.Disconnect())
			c.c.Close()
		}(i, gaps)
	}
	wg.Wait()
	// the wills of the two silent clients, and only those
	got := map[string]bool{}
	for {
		p, err := w.read(1500 * time.Millisecond)
		if err != nil {
			break
		}
		if mq.Type(p) == mq.PUBLISH {
			pub, _ := mq.ParsePublish(p)
			got[pub.Topic] = true
		}
	}
	for _, t := range []string{"will/silent0", "will/silent1", "will/silent-receiving", "will/partial0", "will/partial1", "will/silent-resumed0", "will/silent-resumed1"} {
		if !got[t] {
			f.add("C19: the will of a client dropped for inactivity (%s) was not published", t)
		}
	}
	for t := range got {
		if strings.HasPrefix(t, "will/active") {
			f.add("C19: the will of an active client (%s) was published", t)
		}
	}
	w.c.Close()
	b.shutdown(f, "keepalive")
	stats["keepalive"]++
}

// graceful: a slow consumer leaves gracefully (C09).  The client subscribes to what it publishes itself, stops reading
// and publishes more than its outgoing ring holds, so that the connection's processor is blocked on that ring while
// further packets queue up in the incoming ring; then it sends a PINGREQ and - in the first variant - a DISCONNECT, and
// closes.  The DISCONNECT was sent and received: no will.  Without it (second variant): exactly one will.
func graceful(f *failures, stats map[string]int) {
	for _, withDisconnect := range []bool{true, false} {
		b := newBroker()
		w, err := b.connect("gw", 60, nil)
		if err != nil {
			f.add("harness: %v", err)
			return
		}
		w.write(mq.Subscribe(1, []string{"will/#"}, []int{0}))
		w.read(5 * time.Second)
		g, err := b.connect("graceful", 60, &mq.ConnectOpts{WillTopic: "will/graceful", WillMsg: []byte("gone")})
		if err != nil {
			f.add("harness: %v", err)
			return
		}
		g.write(mq.Subscribe(1, []string{"g/echo"}, []int{0}))
		if _, err := g.read(5 * time.Second); err != nil {
			f.add("harness: no SUBACK: %v", err)
			return
		}
		big := make([]byte, 30000)
		sent := make(chan bool, 1)
		go func() {
			ok := true
			for i := 0; i < 12 && ok; i++ {
				ok = g.write(mq.Publish("g/echo", big, 0, false, false, 0)) == nil
			}
			ok = ok && g.write(mq.Pingreq()) == nil
			if withDisconnect {
				ok = ok && g.write(mq.Disconnect()) == nil
			}
			sent <- ok
		}()
		select {
		case ok := <-sent:
			if !ok {
				f.add("harness: graceful: the client could not write its packets")
			}
		case <-time.After(20 * time.Second):
			f.add("harness: graceful: the client's writes did not finish")
		}
		time.Sleep(200 * time.Millisecond)
		g.c.Close()
		wills := 0
		for {
			p, err := w.read(2500 * time.Millisecond)
			if err != nil {
				break
			}
			if mq.Type(p) == mq.PUBLISH {
				if pub, _ := mq.ParsePublish(p); pub.Topic == "will/graceful" {
					wills++
				}
			}
		}
		if withDisconnect && wills != 0 {
			f.add("C09: a slow consumer that sent DISCONNECT (queued behind packets its blocked processor had not reached yet) and closed: the will was published %d time(s)", wills)
		}
		if !withDisconnect && wills != 1 {
			f.add("C09: a slow consumer that closed without DISCONNECT: the will was published %d time(s), expected once", wills)
		}
		w.c.Close()
		b.shutdown(f, "graceful")
		stats["graceful"]++
	}
}

func main() {
	logging.SetLevel(logging.OffLevel)
	outPrefix := "/verif/replays/tmp/storm"
	if len(os.Args) > 1 {
		outPrefix = os.Args[1]
	}
	mode := os.Getenv("VERIF_STORM_MODE") // storm, cut, teardown, keepalive (comma separated; empty = all but keepalive)
	if mode == "" {
		mode = "storm,cut,teardown"
	}
	n := hx.EnvInt("VERIF_STORM_N", 3)
	r := hx.NewRng(hx.EnvSeed())
	f := &failures{}
	stats := map[string]int{}
	for i := 0; i < n; i++ {
		for _, m := range strings.Split(mode, ",") {
			switch m {
			case "storm":
				storm(r, f, stats, false)
			case "cut":
				storm(r, f, stats, true)
			case "teardown":
				// the buffer conditions in turn: all five are covered by three rounds
				teardown(r, f, stats, (2*i)%5)
				teardown(r, f, stats, (2*i+1)%5)
			case "churn":
				churn(r, f, stats)
			case "ackeffect":
				ackeffect(r, f, stats)
			case "inproc":
				inproc(r, f, stats)
			case "resume":
				resume(r, f, stats)
			case "retrace":
				retrace(r, f, stats)
				if i == 0 {
					retforce(f, stats)
				}
			case "keepalive":
				if i == 0 {
					keepalive(f, stats)
				}
			case "graceful":
				graceful(f, stats)
			}
		}
	}
	out := hx.NewOut(outPrefix)
	for _, m := range f.l {
		out.Oracle(0, "%s", m)
	}
	out.Close()
	// (an oracle-only driver: the case files stay empty)
	stats["runs"] = n
	b, _ := json.MarshalIndent(stats, "", " ")
	os.WriteFile(outPrefix+".stats", b, 0o644)
}
