// Package mq is a tiny MQTT 3.1.1 wire library for the harness, written from the specification
// and independent of github.com/mdzio/go-mqtt/message: packet builders for raw clients, stream
// framing, and strict parsers used by the oracles.
package mq

import (
	"fmt"
)

const (
	CONNECT     = 1
	CONNACK     = 2
	PUBLISH     = 3
	PUBACK      = 4
	PUBREC      = 5
	PUBREL      = 6
	PUBCOMP     = 7
	SUBSCRIBE   = 8
	SUBACK      = 9
	UNSUBSCRIBE = 10
	UNSUBACK    = 11
	PINGREQ     = 12
	PINGRESP    = 13
	DISCONNECT  = 14
)

func Varint(n int) []byte {
	var b []byte
	for {
		d := byte(n % 128)
		n /= 128
		if n > 0 {
			b = append(b, d|0x80)
		} else {
			return append(b, d)
		}
	}
}

func LP(s []byte) []byte { return append([]byte{byte(len(s) >> 8), byte(len(s))}, s...) }

func Fixed(ty int, flags byte, body []byte) []byte {
	b := []byte{byte(ty)<<4 | flags}
	b = append(b, Varint(len(body))...)
	return append(b, body...)
}

func U16(v int) []byte { return []byte{byte(v >> 8), byte(v)} }

type ConnectOpts struct {
	ClientID  string
	Clean     bool
	KeepAlive int
	Will      bool
	WillTopic string
	WillMsg   []byte
	WillQoS   int
	WillRet   bool
	User      string
	Pass      string
	Level     byte   // 0 = 4
	Proto     string // "" = by level
	Flags     int    // -1: computed; otherwise raw connect flags byte
}

func Connect(o ConnectOpts) []byte {
	level := o.Level
	if level == 0 {
		level = 4
	}
	proto := o.Proto
	if proto == "" {
		proto = map[byte]string{3: "MQIsdp", 4: "MQTT"}[level]
	}
	var fl byte
	if o.Clean {
		fl |= 2
	}
	if o.Will {
		fl |= 4 | byte(o.WillQoS)<<3
		if o.WillRet {
			fl |= 32
		}
	}
	if o.Pass != "" {
		fl |= 64
	}
	if o.User != "" {
		fl |= 128
	}
	if o.Flags >= 0 {
		fl = byte(o.Flags)
	}
	body := LP([]byte(proto))
	body = append(body, level, fl)
	body = append(body, U16(o.KeepAlive)...)
	body = append(body, LP([]byte(o.ClientID))...)
	if fl&4 != 0 {
		body = append(body, LP([]byte(o.WillTopic))...)
		body = append(body, LP(o.WillMsg)...)
	}
	if fl&128 != 0 && o.User != "" {
		body = append(body, LP([]byte(o.User))...)
	}
	if fl&64 != 0 && o.Pass != "" {
		body = append(body, LP([]byte(o.Pass))...)
	}
	return Fixed(CONNECT, 0, body)
}

func Publish(topic string, payload []byte, qos int, retain, dup bool, pid int) []byte {
	var fl byte
	if dup {
		fl |= 8
	}
	fl |= byte(qos) << 1
	if retain {
		fl |= 1
	}
	body := LP([]byte(topic))
	if qos != 0 {
		body = append(body, U16(pid)...)
	}
	return Fixed(PUBLISH, fl, append(body, payload...))
}

func Ack(ty, pid int) []byte {
	fl := byte(0)
	if ty == PUBREL {
		fl = 2
	}
	return Fixed(ty, fl, U16(pid))
}

func Subscribe(pid int, filters []string, qos []int) []byte {
	body := U16(pid)
	for i, f := range filters {
		body = append(body, LP([]byte(f))...)
		body = append(body, byte(qos[i]))
	}
	return Fixed(SUBSCRIBE, 2, body)
}

func Unsubscribe(pid int, filters []string) []byte {
	body := U16(pid)
	for _, f := range filters {
		body = append(body, LP([]byte(f))...)
	}
	return Fixed(UNSUBSCRIBE, 2, body)
}

func Pingreq() []byte    { return []byte{PINGREQ << 4, 0} }
func Disconnect() []byte { return []byte{DISCONNECT << 4, 0} }

// NextPacket splits the first complete packet off a byte stream.
// ok=false: more bytes are needed; err != nil: the stream is not MQTT framing.
func NextPacket(b []byte) (pkt, rest []byte, ok bool, err error) {
	if len(b) < 2 {
		return nil, b, false, nil
	}
	v, mul := 0, 1
	for i := 1; i <= 4; i++ {
		if i >= len(b) {
			return nil, b, false, nil
		}
		v += int(b[i]&0x7f) * mul
		mul *= 128
		if b[i] < 0x80 {
			total := 1 + i + v
			if len(b) < total {
				return nil, b, false, nil
			}
			return b[:total], b[total:], true, nil
		}
	}
	return nil, b, false, fmt.Errorf("remaining length longer than 4 bytes")
}

func Type(p []byte) int { return int(p[0] >> 4) }

func body(p []byte) []byte {
	i := 1
	for p[i] >= 0x80 {
		i++
	}
	return p[i+1:]
}

type Pub struct {
	Topic   string
	Payload []byte
	QoS     int
	Retain  bool
	Dup     bool
	PID     int
}

// ParsePublish strictly parses a complete PUBLISH packet.
func ParsePublish(p []byte) (Pub, error) {
	var r Pub
	if Type(p) != PUBLISH {
		return r, fmt.Errorf("not a PUBLISH")
	}
	fl := p[0] & 0xf
	r.Dup, r.QoS, r.Retain = fl&8 != 0, int(fl>>1)&3, fl&1 != 0
	if r.QoS == 3 {
		return r, fmt.Errorf("QoS 3")
	}
	b := body(p)
	if len(b) < 2 {
		return r, fmt.Errorf("no topic")
	}
	tl := int(b[0])<<8 | int(b[1])
	if len(b) < 2+tl {
		return r, fmt.Errorf("topic overruns the packet")
	}
	r.Topic = string(b[2 : 2+tl])
	b = b[2+tl:]
	if r.QoS != 0 {
		if len(b) < 2 {
			return r, fmt.Errorf("no packet identifier")
		}
		r.PID = int(b[0])<<8 | int(b[1])
		b = b[2:]
	}
	r.Payload = b
	if r.Topic == "" {
		return r, fmt.Errorf("empty topic")
	}
	return r, nil
}

// ParseAck parses PUBACK/PUBREC/PUBREL/PUBCOMP/UNSUBACK and returns the packet identifier.
func ParseAck(p []byte) (int, error) {
	b := body(p)
	if len(b) != 2 {
		return 0, fmt.Errorf("remaining length %d", len(b))
	}
	want := byte(0)
	if Type(p) == PUBREL {
		want = 2
	}
	if p[0]&0xf != want {
		return 0, fmt.Errorf("flags %x", p[0]&0xf)
	}
	return int(b[0])<<8 | int(b[1]), nil
}

func ParseSuback(p []byte) (int, []byte, error) {
	b := body(p)
	if Type(p) != SUBACK || len(b) < 2 || p[0]&0xf != 0 {
		return 0, nil, fmt.Errorf("malformed SUBACK")
	}
	return int(b[0])<<8 | int(b[1]), b[2:], nil
}

func ParseConnack(p []byte) (sp bool, code int, err error) {
	b := body(p)
	if Type(p) != CONNACK || len(b) != 2 || b[0] > 1 || p[0]&0xf != 0 {
		return false, 0, fmt.Errorf("malformed CONNACK")
	}
	return b[0] == 1, int(b[1]), nil
}

// WellFormed strictly checks a complete packet the broker may send to a client.
func WellFormed(p []byte) error {
	pk, rest, ok, err := NextPacket(p)
	if err != nil || !ok || len(rest) != 0 || len(pk) != len(p) {
		return fmt.Errorf("not exactly one packet")
	}
	switch Type(p) {
	case PUBLISH:
		pub, err := ParsePublish(p)
		if err == nil && pub.QoS > 0 && pub.PID == 0 {
			return fmt.Errorf("PUBLISH with packet identifier 0")
		}
		return err
	case PUBACK, PUBREC, PUBREL, PUBCOMP, UNSUBACK:
		_, err := ParseAck(p)
		return err
	case SUBACK:
		_, codes, err := ParseSuback(p)
		for _, c := range codes {
			if c > 2 && c != 0x80 {
				return fmt.Errorf("SUBACK return code %#x", c)
			}
		}
		return err
	case CONNACK:
		_, _, err := ParseConnack(p)
		return err
	case PINGRESP:
		if len(p) != 2 || p[0]&0xf != 0 {
			return fmt.Errorf("malformed PINGRESP")
		}
		return nil
	}
	return fmt.Errorf("packet type %d is not sent by a broker", Type(p))
}
