// Package hx holds what all harness drivers share: the seeded PRNG, the line format
// (groups of integers separated by '|') and small helpers.
package hx

import (
	"bufio"
	"fmt"
	"os"
	"runtime"
	"strconv"
	"strings"
)

// Rng is a splitmix64 generator: every random choice of a run derives from one seed.
type Rng struct{ s uint64 }

func NewRng(seed uint64) *Rng { return &Rng{s: seed*0x9E3779B97F4A7C15 + 0x1234567} }

func (r *Rng) U64() uint64 {
	r.s += 0x9E3779B97F4A7C15
	z := r.s
	z = (z ^ (z >> 30)) * 0xBF58476D1CE4E5B9
	z = (z ^ (z >> 27)) * 0x94D049BB133111EB
	return z ^ (z >> 31)
}
func (r *Rng) Intn(n int) int {
	if n <= 0 {
		return 0
	}
	return int(r.U64() % uint64(n))
}
func (r *Rng) Bool() bool        { return r.U64()&1 == 1 }
func (r *Rng) Chance(p int) bool { return r.Intn(100) < p }
func (r *Rng) Bytes(n int) []byte {
	b := make([]byte, n)
	for i := range b {
		b[i] = byte(r.U64())
	}
	return b
}
func (r *Rng) Pick(xs []int) int { return xs[r.Intn(len(xs))] }

// Group is one list of integers; a Line is a header group followed by more groups.
type Group []int64

func G(xs ...int64) Group { return Group(xs) }
func GB(prefix []int64, b []byte) Group {
	g := make(Group, 0, len(prefix)+len(b))
	g = append(g, prefix...)
	for _, x := range b {
		g = append(g, int64(x))
	}
	return g
}

func FormatGroups(gs []Group) string {
	var sb strings.Builder
	for i, g := range gs {
		if i > 0 {
			sb.WriteString(" |")
		}
		for _, x := range g {
			sb.WriteByte(' ')
			sb.WriteString(strconv.FormatInt(x, 10))
		}
	}
	return sb.String()
}

// Out collects the case file (model input), the observation file (implementation output)
// and oracle failures.
type Out struct {
	cases, obs, oracle *bufio.Writer
	files              []*os.File
	N                  int
}

func NewOut(prefix string) *Out {
	o := &Out{}
	mk := func(suffix string) *bufio.Writer {
		f, err := os.Create(prefix + suffix)
		if err != nil {
			panic(err)
		}
		o.files = append(o.files, f)
		return bufio.NewWriterSize(f, 1<<20)
	}
	o.cases, o.obs, o.oracle = mk(".cases"), mk(".impl"), mk(".oracle")
	return o
}

// Case writes one case: model name, input groups, and the implementation's observations.
func (o *Out) Case(model string, in []Group, obs []Group) {
	fmt.Fprintf(o.cases, "%s%s\n", model, FormatGroups(in))
	fmt.Fprintf(o.obs, "%s\n", FormatGroups(obs))
	o.N++
}

// Oracle records a specification-level failure of the implementation on case number n.
func (o *Out) Oracle(n int, format string, a ...interface{}) {
	msg := strings.ReplaceAll(fmt.Sprintf(format, a...), "\n", "\\n")
	fmt.Fprintf(o.oracle, "%d\t%s\n", n, msg)
}

func (o *Out) Close() {
	o.cases.Flush()
	o.obs.Flush()
	o.oracle.Flush()
	for _, f := range o.files {
		f.Close()
	}
}

// ReadCases parses a case file back into groups (the model name is dropped).
func ReadCases(path string) [][]Group {
	data, err := os.ReadFile(path)
	if err != nil {
		panic(err)
	}
	var res [][]Group
	for _, line := range strings.Split(string(data), "\n") {
		toks := strings.Fields(line)
		if len(toks) == 0 {
			continue
		}
		var gs []Group
		cur := Group{}
		for _, t := range toks[1:] {
			if t == "|" {
				gs = append(gs, cur)
				cur = Group{}
				continue
			}
			v, _ := strconv.ParseInt(t, 10, 64)
			cur = append(cur, v)
		}
		gs = append(gs, cur)
		res = append(res, gs)
	}
	return res
}

// GoID returns the id of the calling goroutine (harness only: parsed from the stack header).
func GoID() int64 {
	var buf [64]byte
	n := runtime.Stack(buf[:], false)
	var id int64
	fmt.Sscanf(string(buf[:n]), "goroutine %d ", &id)
	return id
}

func EnvSeed() uint64 {
	if s := os.Getenv("VERIF_SEED"); s != "" {
		if v, err := strconv.ParseUint(s, 10, 64); err == nil {
			return v
		}
	}
	return 1
}

func EnvInt(name string, def int) int {
	if s := os.Getenv(name); s != "" {
		if v, err := strconv.Atoi(s); err == nil {
			return v
		}
	}
	return def
}
